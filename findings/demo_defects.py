"""Investigation only (NOT part of any registered check): shows, against the real code,
the failing input for each defect that the static rules report.  Run:
    /venv/bin/python /verif/findings/demo_defects.py [F1|F2|F3|F4|F6 ...]
Prints PASS/FAIL per probe; FAIL on the unrepaired tree, PASS after the fix: commits."""
import sys, signal
import numpy as np, pandas as pd
from pyins import sim, strapdown, filters, measurements, error_model, transform

def setup(n=60, dt=0.1):
    traj, imu = sim.generate_sine_velocity_motion(dt, n * dt, [55, 37, 100], [3, -2, 0.5], [1, 1, 0.2])
    inc = strapdown.compute_increments_from_imu(imu, 'rate')
    return traj, imu, inc

class Timeout(Exception): pass
def alarm(sec):
    def h(*a): raise Timeout()
    signal.signal(signal.SIGALRM, h); signal.alarm(sec)

def F1():
    traj, imu, inc = setup()
    ok = True
    try:
        r = filters.run_feedback_filter(traj.iloc[0], 1, 1, 1, 1, inc)
        plain = strapdown.Integrator(traj.iloc[0]).integrate(inc)
    except Exception as e:
        print('  feedback defaults raise', type(e).__name__, e); ok = False
    try:
        filters.run_feedforward_filter(traj, traj, 1, 1, 1, 1)
    except Exception as e:
        print('  feedforward defaults raise', type(e).__name__, e); ok = False
    return ok

def F2():
    traj, imu, inc = setup()
    pos = sim.generate_position_measurements(traj.iloc[::10], 1.0, rng=0)
    alarm(20)
    try:
        r = filters.run_feedforward_filter(traj, traj, 1, 1, 1, 1, measurements=[measurements.Position(pos, 1.0)], time_step=0.05)
        signal.alarm(0)
        idx = r.trajectory.index.values
        ok = bool(np.all(np.diff(idx) > 0))
        if not ok: print('  result index not strictly increasing')
        return ok
    except Timeout:
        print('  feedforward with time_step=0.05 on 10 Hz data does not terminate (20 s)'); return False

def F6():
    traj, imu, inc = setup()
    t = traj.index.values
    # two epochs inside the last IMU interval, two inside an interior one
    times = [t[20] + 0.02, t[20] + 0.05, t[-2] + 0.02, t[-2] + 0.05]
    ref = transform.resample_state(traj, np.array(times))
    pos = sim.generate_position_measurements(ref, 1.0, rng=0)
    ok = True
    r = filters.run_feedback_filter(traj.iloc[0], 1, 1, 1, 1, inc, measurements=[measurements.Position(pos, 1.0)])
    got = list(r.innovations['Position'].index)
    if not np.allclose(got, times) if len(got) == len(times) else True:
        print('  feedback innovations at', got, 'expected', times); ok = False
    alarm(20)
    try:
        r = filters.run_feedforward_filter(traj, traj, 1, 1, 1, 1, measurements=[measurements.Position(pos, 1.0)])
        signal.alarm(0)
        n = len(r.innovations['Position'])
        inc_ok = bool(np.all(np.diff(r.trajectory.index.values) > 0))
        if n != 4 or not inc_ok:
            print('  feedforward: %d of 4 innovations, index strictly increasing: %s' % (n, inc_ok)); ok = False
    except Timeout:
        print('  feedforward does not terminate'); ok = False
    except Exception as e:
        print('  feedforward raises', type(e).__name__, e); ok = False
    return ok

def F3():
    traj, imu, inc = setup()
    pva = traj.iloc[5].copy()
    pva = pd.concat([pva, pd.Series([0.3, -0.2, 0.5], index=['rate_x', 'rate_y', 'rate_z'])])
    lever = np.array([1.0, 2.0, -0.5])
    vel = sim.generate_ned_velocity_measurements(traj, 0.0, rng=0)
    m = measurements.NedVelocity(vel, 0.1, lever)
    em = error_model.InsErrorModel()
    z, H, R = m.compute_matrices(traj.index[5], pva, em)
    # numerical Jacobian of z with respect to the error state through correct_pva
    Hn = np.zeros_like(H)
    eps = 1e-6
    for k in range(9):
        x = np.zeros(9); x[k] = eps
        # error x means pva = true + error; corrected = correct_pva(pva, x); so perturbing the state by +x
        p2 = em.correct_pva(pva[traj.columns], -x)
        p2 = pd.concat([p2, pva[['rate_x', 'rate_y', 'rate_z']]])
        z2 = m.compute_matrices(traj.index[5], p2, em)[0]
        Hn[:, k] = (np.asarray(z2) - np.asarray(z)) / eps
    err = np.abs(Hn - H).max()
    if err > 1e-3:
        print('  NedVelocity H differs from d z / d x by %.3g (lever arm ignored in H)' % err); return False
    return True

def F4():
    traj, imu, inc = setup()
    it = strapdown.Integrator(traj.iloc[0], with_altitude=False)
    p = traj.iloc[0].copy(); p['VD'] = 5.0; p['alt'] = 123.0
    it.set_pva(p)
    it.integrate(inc.iloc[:3])
    alt = it.trajectory.alt.values
    vd = it.trajectory.VD.values
    ok = bool(np.all(alt == 123.0) and np.all(vd == 0.0)) and p['VD'] == 5.0
    if not ok: print('  2-D integrator after set_pva(VD=5, alt=123): alt', alt, 'VD', vd)
    return ok

def F5():
    traj, imu, inc = setup()
    p1 = sim.generate_position_measurements(traj.iloc[5::10], 1.0, rng=0)
    p2 = sim.generate_position_measurements(traj.iloc[7::10], 1.0, rng=1)
    ms = [measurements.Position(p1, 1.0), measurements.Position(p2, 1.0)]
    ok = True
    for name, run in (('feedback', lambda: filters.run_feedback_filter(traj.iloc[0], 1, 1, 1, 1, inc, measurements=ms)),
                      ('feedforward', lambda: filters.run_feedforward_filter(traj, traj, 1, 1, 1, 1, measurements=ms))):
        try:
            r = run()
            n = len(r.innovations['Position'])
            want = len(p1) + len(p2) - (1 if name == 'feedback' else 0) * 0
            if n < len(p1):
                print('  %s: %d innovation rows' % (name, n)); ok = False
        except Exception as e:
            print('  %s with two Position streams raises %s: %s' % (name, type(e).__name__, str(e)[:80])); ok = False
    return ok

def F7():
    a = transform.compute_lla_difference([55, 37, 100], [54, 37, 90])
    b = transform.compute_lla_difference([55., 37., 100.], [54., 37., 90.])
    ok = bool(np.allclose(a, b, rtol=0, atol=1e-9))
    if not ok: print('  compute_lla_difference int form', a, a.dtype, 'float form', b)
    return ok

def F8():
    import pandas as pd
    from pyins import error_model
    from pyins.util import TRAJECTORY_ERROR_COLS
    t = np.arange(0, 10, 0.1)
    lla = np.column_stack([55 + 1e-5 * t, 37 + 2e-5 * t, 100 + 0 * t])
    rph = np.column_stack([0 * t, 0 * t, 30 + 0 * t])
    traj, _ = sim.generate_imu(t, lla, rph)
    vals = dict(north=10., east=-5., down=2., VN=.1, VE=-.2, VD=.05, roll=.1, pitch=-.2,
                heading=.5)
    e1 = pd.Series(vals)[TRAJECTORY_ERROR_COLS]
    e2 = pd.Series({k: vals[k] for k in ['roll', 'pitch', 'heading', 'VN', 'VE', 'VD', 'north',
                                         'east', 'down']})
    r1, _ = error_model.propagate_errors(traj, e1, np.zeros(3), np.zeros(3))
    r2, _ = error_model.propagate_errors(traj, e2, np.zeros(3), np.zeros(3))
    d = float(np.abs(r1.values - r2.values).max())
    if d > 1e-9:
        print('  propagate_errors: the same PvaError with its labels in another order gives a '
              'result that differs by', d)
    return d <= 1e-9

if __name__ == '__main__':
    which = sys.argv[1:] or ['F1', 'F2', 'F3', 'F4', 'F5', 'F6', 'F7', 'F8']
    for w in which:
        r = globals()[w]()
        print(w, 'PASS' if r else 'FAIL')
