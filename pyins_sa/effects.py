"""D-alias/effects: may-alias origin analysis with interprocedural summaries.

Origins (per variable, a set):
  ('P', p)    the object passed as parameter p
  ('V', p)    numpy memory that may be shared with parameter p (asarray / view / .values)
  ('D', p)    pandas object *selected from* parameter p (copy-on-write protected, pandas 3)
  ('S', fld)  object held in field `fld` of self
  ('G', name) module / class constant
  'F'         fresh
Writes to P/V/G origins (and to fields that hold constructor arguments) are mutations of
caller-visible state; writes to D origins are INFO only (safe under copy-on-write).
"""
import ast

from .model import FunctionInfo, ClassInfo, norm_text

FRESH = 'F'

# external callables whose result shares no memory with any argument
FRESH_CALLS = {
    'numpy.zeros', 'numpy.empty', 'numpy.ones', 'numpy.eye', 'numpy.identity',
    'numpy.arange', 'numpy.array', 'numpy.zeros_like', 'numpy.empty_like',
    'numpy.ones_like', 'numpy.resize', 'numpy.hstack', 'numpy.vstack', 'numpy.stack',
    'numpy.concatenate', 'numpy.append', 'numpy.insert', 'numpy.unique', 'numpy.sort',
    'numpy.diff', 'numpy.cross', 'numpy.einsum', 'numpy.diag', 'numpy.searchsorted',
    'numpy.nextafter', 'numpy.ix_', 'numpy.sin', 'numpy.cos', 'numpy.tan',
    'numpy.arcsin', 'numpy.arccos', 'numpy.arctan2', 'numpy.hypot', 'numpy.sqrt',
    'numpy.abs', 'numpy.sign', 'numpy.deg2rad', 'numpy.rad2deg', 'numpy.square',
    'numpy.sum', 'numpy.mean', 'numpy.median', 'numpy.min', 'numpy.max', 'numpy.any',
    'numpy.all', 'numpy.cumsum', 'numpy.linalg.inv', 'numpy.linalg.solve',
    'numpy.linalg.eigh', 'numpy.linalg.norm', 'numpy.copy', 'numpy.linspace',
    'numpy.where', 'numpy.mod', 'numpy.exp', 'numpy.log', 'numpy.isnan',
    'numpy.isfinite', 'numpy.round', 'numpy.floor', 'numpy.ceil', 'numpy.outer',
    'numpy.kron', 'numpy.trace', 'numpy.prod', 'numpy.argsort', 'numpy.argmin',
    'numpy.argmax', 'numpy.full', 'numpy.meshgrid', 'numpy.interp', 'numpy.clip',
    'numpy.maximum', 'numpy.minimum', 'numpy.tile', 'numpy.repeat', 'numpy.dot',
    'numpy.matmul', 'numpy.block', 'numpy.column_stack', 'numpy.power',
    'scipy.linalg.expm', 'scipy.linalg.cholesky', 'scipy.linalg.cho_solve',
    'scipy.linalg.solve_triangular', 'scipy.linalg.solve', 'scipy.linalg.inv',
    'scipy.signal.firwin', 'scipy.signal.lfilter',
    'pandas.DataFrame', 'pandas.Series', 'pandas.Index', 'pandas.concat',
    'scipy.interpolate.interp1d', 'scipy.interpolate.CubicSpline',
    'scipy.interpolate.CubicHermiteSpline', 'scipy.spatial.transform.Slerp',
    'scipy.spatial.transform.RotationSpline',
    'builtins.len', 'builtins.range', 'builtins.min', 'builtins.max', 'builtins.abs',
    'builtins.all', 'builtins.any', 'builtins.isinstance', 'builtins.round',
    'builtins.float', 'builtins.int', 'builtins.bool', 'builtins.sum', 'builtins.str',
    'builtins.sorted', 'builtins.list', 'builtins.tuple', 'builtins.dict',
    'builtins.zip', 'builtins.map', 'builtins.reversed', 'builtins.enumerate',
    'builtins.set', 'builtins.type', 'builtins.repr', 'builtins.super',
}
# result may be the same memory as argument 0
VIEW_CALLS = {'numpy.asarray', 'numpy.atleast_1d', 'numpy.atleast_2d', 'numpy.atleast_3d',
              'numpy.ascontiguousarray', 'numpy.asanyarray', 'numpy.transpose',
              'numpy.reshape', 'numpy.ravel', 'numpy.squeeze', 'numpy.diagonal',
              'numpy.swapaxes', 'numpy.moveaxis', 'numpy.expand_dims', 'numpy.asfarray',
              'numpy.broadcast_to', 'numpy.flip', 'numpy.real', 'numpy.require',
              'numpy.asarray_chkfinite'}
VIEW_METHODS = {'transpose', 'reshape', 'ravel', 'squeeze', 'view', 'swapaxes',
                'diagonal', 'flatten_view'}
VIEW_ATTRS = {'T', 'values', 'real', 'flat', 'array'}
VIEW_PD_METHODS = {'to_numpy'}
FRESH_METHODS = {'copy', 'abs', 'max', 'min', 'mean', 'sum', 'drop', 'rename',
                 'to_frame', 'astype', 'dot', 'cumsum', 'diff', 'any', 'all',
                 'difference', 'intersection', 'union', 'tolist', 'flatten',
                 'as_matrix', 'as_euler', 'as_quat', 'as_rotvec', 'inv', 'apply',
                 'derivative', 'antiderivative', 'randn', 'rand', 'normal', 'uniform',
                 'randint', 'standard_normal', 'random_sample', 'choice', 'split',
                 'format', 'rjust', 'join', 'keys', 'items', 'get', 'median', 'std',
                 'var', 'round', 'clip', 'sort_values', 'sort_index', 'reindex',
                 'fillna', 'dropna', 'interpolate', 'nonzero', 'argsort', 'searchsorted',
                 'from_euler', 'from_matrix', 'from_rotvec', 'from_quat', 'concatenate',
                 'isin', 'unique', 'startswith', 'endswith', 'lower', 'upper', 'strip',
                 'replace', 'count', 'index', 'conj', 'trace', 'prod', 'repeat', 'take'}
INPLACE_METHODS = {'resize', 'sort', 'fill', 'put', 'itemset', 'partition', 'setflags',
                   'append', 'extend', 'insert', 'pop', 'remove', 'reverse', 'clear',
                   'update', 'setdefault', 'popitem', 'add', 'discard', 'setfield',
                   'byteswap_inplace', 'shuffle', 'seed', 'set_state'}
PANDAS_HINT_ATTRS = {'iloc', 'loc', 'index', 'columns', 'to_frame', 'name', 'at', 'iat',
                     'to_numpy', 'values'}
PANDAS_KINDS = ('DataFrame', 'Series', 'Trajectory', 'Pva', 'Imu', 'Increments',
                'TrajectoryError', 'PvaError')


class Summary:
    def __init__(self, f):
        self.f = f
        self.writes = {}       # param name -> list of (node, reason)
        self.ret = set()       # origins relative to own params
        self.fields = {}       # field -> origins (relative to own params) [methods]
        self.self_writes = []  # (node, field) in-place writes to own fields
        self.self_mutates = False   # rebinds or mutates own fields (state change)
        self.infos = []
        self.unknown_calls = []


class Effects:
    def __init__(self, repo, types):
        self.repo, self.types = repo, types
        self.sum = {}
        self.funcs = list(repo.all_functions())
        for f in self.funcs:
            self.sum[f.fq] = Summary(f)
        self.class_fields = {}     # class fq -> field -> origins relative to ctor params
        self.pandas_params = {}
        self._kinds()
        for _ in range(6):
            before = self._sig()
            for f in self.funcs:
                self.analyse(f)
            if self._sig() == before:
                break

    def _sig(self):
        out = []
        for k, s in sorted(self.sum.items()):
            out.append((k, tuple(sorted(s.writes)), tuple(sorted(map(str, s.ret))),
                        tuple(sorted((a, tuple(sorted(map(str, b))))
                                     for a, b in s.fields.items())), s.self_mutates))
        return tuple(out)

    # ------------------------------------------------------------ param kinds
    def _kinds(self):
        for f in self.funcs:
            pk = set()
            docs = f.doc_kinds()['params']
            for p in f.params + f.kwonly:
                txt = docs.get(p, '')
                if any(k in txt for k in PANDAS_KINDS):
                    pk.add(p)
            for n in ast.walk(f.node):
                if isinstance(n, ast.Attribute) and isinstance(n.value, ast.Name) and \
                        n.value.id in f.params and n.attr in PANDAS_HINT_ATTRS:
                    pk.add(n.value.id)
                if isinstance(n, ast.Subscript) and isinstance(n.value, ast.Name) and \
                        n.value.id in f.params:
                    s = n.slice
                    if isinstance(s, ast.Constant) and isinstance(s.value, str):
                        pk.add(n.value.id)
                    elif isinstance(s, ast.Name) and s.id.endswith('_COLS'):
                        pk.add(n.value.id)
                    elif isinstance(s, ast.List) and s.elts and all(
                            isinstance(e, ast.Constant) and isinstance(e.value, str)
                            for e in s.elts):
                        pk.add(n.value.id)
            self.pandas_params[f.fq] = pk

    # ---------------------------------------------------------------- analysis
    def analyse(self, f):
        S = self.sum[f.fq]
        env = {}
        pandas = self.pandas_params[f.fq]
        for p in f.params + f.kwonly:
            env[p] = {('P', p)}
        if f.cls is not None and not f.is_static and f.params:
            env[f.params[0]] = {('SELFOBJ',)}
        an = _FuncAnalysis(self, f, S, env, pandas)
        an.run()


class _FuncAnalysis:
    def __init__(self, E, f, S, env, pandas):
        self.E, self.f, self.S, self.env, self.pandas = E, f, S, env, pandas
        self.selfname = f.params[0] if (f.cls is not None and not f.is_static and f.params) \
            else None
        self.local = f.local_names()
        S.writes = {}
        S.self_writes = []
        S.infos = []
        S.unknown_calls = []
        self.ret = set()
        self.fields = {}
        self.self_mutates = False

    # ------------------------------------------------------------------ helpers
    def q(self, node):
        return self.f.module.resolve(node, self.local)

    def is_pandas_origin(self, o):
        return isinstance(o, tuple) and o[0] == 'P' and o[1] in self.pandas

    def field_origins(self, fld):
        """origins of self.<fld>: from the class's constructor/method field summaries."""
        out = set()
        cls = self.f.cls
        if cls is None:
            return {FRESH}
        if fld in self.fields:
            out |= self.fields[fld]
        for m in cls.methods.values():
            s = self.E.sum.get(m.fq)
            if s and fld in s.fields:
                for o in s.fields[fld]:
                    if isinstance(o, tuple) and o[0] in ('P', 'V', 'D'):
                        out.add(('CTOR', m.name, o[0], o[1]))
                    elif isinstance(o, tuple) and o[0] == 'G':
                        out.add(o)
                    else:
                        out.add(FRESH)
        return out or {FRESH}

    # --------------------------------------------------------------- expression
    def orig(self, node):
        if node is None:
            return {FRESH}
        if isinstance(node, ast.Name):
            if node.id in self.env:
                return set(self.env[node.id])
            q = self.q(node)
            if q and q.startswith('pyins.'):
                t = self.E.repo.lookup(q)
                if isinstance(t, tuple) and t[0] == 'const':
                    v = t[2]
                    if isinstance(v, (ast.List, ast.Dict, ast.Call, ast.BinOp)):
                        return {('G', q)}
            return {FRESH}
        if isinstance(node, ast.Constant):
            return {FRESH}
        if isinstance(node, ast.Attribute):
            if self.selfname and isinstance(node.value, ast.Name) and \
                    node.value.id == self.selfname:
                # self.field or class constant
                mem = self.E.repo.class_member(self.f.cls, node.attr)
                if isinstance(mem, tuple):
                    return {('G', self.f.cls.fq + '.' + node.attr)}
                return {('S', node.attr)} | {o for o in self.field_origins(node.attr)
                                             if o != FRESH}
            q = self.q(node)
            if q and q.startswith('pyins.'):
                t = self.E.repo.lookup(q)
                if isinstance(t, tuple) and t[0] == 'const' and \
                        isinstance(t[2], (ast.List, ast.Dict, ast.Call, ast.BinOp)):
                    return {('G', q)}
                return {FRESH}
            if q:
                return {FRESH}
            base = self.orig(node.value)
            if node.attr in VIEW_ATTRS:
                return self.as_view(base)
            if node.attr in ('iloc', 'loc', 'at', 'iat'):
                return base          # indexer proxy: refers to the same object
            if node.attr in ('index', 'columns', 'shape', 'ndim', 'size', 'dtype', 'name',
                             'single', 'c', 'x', 'interpolator'):
                return {FRESH} if node.attr not in ('index', 'columns') else \
                    {('D', o[1]) if isinstance(o, tuple) and o[0] in ('P', 'D') else o
                     for o in base if o != FRESH} | {FRESH}
            # column attribute of a pandas object / attribute of a foreign object
            out = set()
            for o in base:
                if isinstance(o, tuple) and o[0] in ('P', 'D'):
                    out.add(('D', o[1]) if o[1] in self.pandas or o[0] == 'D' else ('V', o[1]))
                elif isinstance(o, tuple) and o[0] in ('V', 'G', 'S', 'CTOR'):
                    out.add(o)
            return out or {FRESH}
        if isinstance(node, ast.Subscript):
            base = self.orig(node.value)
            adv = self.is_advanced(node.slice)
            out = set()
            for o in base:
                if not isinstance(o, tuple):
                    continue
                if o[0] == 'P':
                    if o[1] in self.pandas:
                        out.add(('D', o[1]))
                    elif not adv:
                        out.add(('V', o[1]))
                elif o[0] == 'D':
                    out.add(o)
                elif o[0] in ('V', 'G', 'S', 'CTOR'):
                    if not adv:
                        out.add(o)
                elif o[0] == 'SELFOBJ':
                    pass
            return out or {FRESH}
        if isinstance(node, (ast.BinOp, ast.UnaryOp, ast.Compare, ast.BoolOp, ast.JoinedStr,
                             ast.ListComp, ast.GeneratorExp, ast.DictComp, ast.SetComp,
                             ast.Lambda)):
            return {FRESH}
        if isinstance(node, ast.IfExp):
            return self.orig(node.body) | self.orig(node.orelse)
        if isinstance(node, (ast.Tuple, ast.List)):
            out = set()
            for e in node.elts:
                out |= {o for o in self.orig(e) if o != FRESH}
            return out or {FRESH}
        if isinstance(node, ast.Dict):
            return {FRESH}
        if isinstance(node, ast.Starred):
            return self.orig(node.value)
        if isinstance(node, ast.Call):
            return self.call(node)
        return {FRESH}

    def is_advanced(self, sl):
        """list / boolean-mask / ix_ indexing yields a copy in load position."""
        parts = sl.elts if isinstance(sl, ast.Tuple) else [sl]
        for p in parts:
            if isinstance(p, (ast.List, ast.Compare, ast.BoolOp)):
                return True
            if isinstance(p, ast.BinOp) and isinstance(p.op, (ast.BitAnd, ast.BitOr)):
                return True
            if isinstance(p, ast.UnaryOp) and isinstance(p.op, ast.Invert):
                return True
            if isinstance(p, ast.Call) and self.q(p.func) == 'numpy.ix_':
                return True
            if isinstance(p, ast.Name):
                # a name holding a list / mask: decide from its definitions
                for n in ast.walk(self.f.node):
                    if isinstance(n, ast.Assign) and any(
                            isinstance(t, ast.Name) and t.id == p.id for t in n.targets):
                        if isinstance(n.value, (ast.List, ast.Compare)) or (
                                isinstance(n.value, ast.UnaryOp) and
                                isinstance(n.value.op, ast.Invert)) or (
                                isinstance(n.value, ast.BinOp) and
                                isinstance(n.value.op, (ast.BitAnd, ast.BitOr))):
                            return True
                if p.id.endswith('_COLS'):
                    return True
            if isinstance(p, ast.Attribute) and isinstance(p.value, ast.Name) and \
                    p.value.id in ('self', 'cls'):
                mem = self.E.repo.class_member(self.f.cls, p.attr) if self.f.cls else None
                if isinstance(mem, tuple) and isinstance(mem[2], ast.List):
                    return True
        return False

    def as_view(self, base):
        out = set()
        for o in base:
            if isinstance(o, tuple) and o[0] in ('P', 'D'):
                out.add(('V', o[1]))
            elif isinstance(o, tuple) and o[0] in ('V', 'G', 'S', 'CTOR'):
                out.add(o)
        return out or {FRESH}

    # --------------------------------------------------------------------- call
    def call(self, node):
        fn = node.func
        q = self.q(fn)
        if q and q.startswith('pyins.') and not isinstance(
                self.E.repo.lookup(q), (FunctionInfo, ClassInfo)):
            q = None          # method of a module/class-level object
        args = list(node.args)
        kws = {k.arg: k.value for k in node.keywords if k.arg}
        # generic write-through keywords
        if 'out' in kws:
            self.sink(kws['out'], node, 'out= argument')
        for flag, pos in (('overwrite_a', 0), ('overwrite_b', 1), ('overwrite_x', 0)):
            if flag in kws and isinstance(kws[flag], ast.Constant) and kws[flag].value is True:
                tgt = None
                if q == 'scipy.linalg.cho_solve' or q == 'scipy.linalg.solve_triangular':
                    tgt = args[1] if len(args) > 1 else kws.get('b')
                elif len(args) > pos:
                    tgt = args[pos]
                if tgt is not None:
                    self.sink(tgt, node, '%s=True' % flag)
        if kws.get('inplace') is not None and isinstance(kws['inplace'], ast.Constant) and \
                kws['inplace'].value is True and isinstance(fn, ast.Attribute):
            self.sink(fn.value, node, 'inplace=True')
        if q in ('numpy.dot', 'numpy.matmul') and len(args) == 3:
            self.sink(args[2], node, 'third argument of np.dot is the output array')
        if q in ('numpy.copyto', 'numpy.put', 'numpy.place', 'numpy.putmask',
                 'numpy.fill_diagonal') and args:
            self.sink(args[0], node, q.split('.')[-1] + ' writes its first argument')
        for a in args:
            self.orig(a)         # evaluate nested calls for their effects
        for v in kws.values():
            self.orig(v)
        # repository callee
        callee = self.E.types.callee(self.f, node) if self.E.types else None
        if isinstance(callee, FunctionInfo):
            return self.repo_call(node, callee)
        if q is not None:
            if q in FRESH_CALLS or q.startswith('builtins.'):
                if q in ('builtins.list', 'builtins.tuple') and args:
                    return {o for o in self.orig(args[0]) if o != FRESH} | {FRESH}
                return {FRESH}
            if q in VIEW_CALLS and args:
                return self.as_view(self.orig(args[0]))
            if q.endswith('check_random_state') and args:
                return self.orig(args[0]) | {FRESH}
            if q.startswith(('numpy.', 'scipy.', 'pandas.', 'numba.')):
                self.S.unknown_calls.append(q)
                return {FRESH}
            return {FRESH}
        if isinstance(fn, ast.Attribute):
            recv = self.orig(fn.value)
            m = fn.attr
            # dynamic dispatch on Measurement-like bases
            targets = self.dispatch(fn)
            if targets:
                out = set()
                for t in targets:
                    out |= self.repo_call(node, t, recv_node=fn.value)
                return out
            if m in INPLACE_METHODS:
                self.sink(fn.value, node, 'in-place method .%s()' % m)
                return {FRESH}
            if m in VIEW_METHODS or m in VIEW_PD_METHODS:
                return self.as_view(recv)
            if m in FRESH_METHODS:
                return {FRESH}
            if m in ('__call__',):
                return {FRESH}
            self.S.unknown_calls.append('.' + m)
            return {FRESH}
        return {FRESH}

    def dispatch(self, fn):
        """x.method() where x has a repository class type with subclasses."""
        t = self.E.types.expr_type(self.f, fn.value) if self.E.types else None
        if not t:
            return []
        c = self.E.repo.lookup(t)
        if not isinstance(c, ClassInfo):
            return []
        out = []
        for k in [c] + self.E.repo.subclasses(c):
            mm = k.methods.get(fn.attr)
            if mm is not None:
                out.append(mm)
        return out

    def repo_call(self, node, callee, recv_node=None):
        S2 = self.E.sum.get(callee.fq)
        if S2 is None:
            return {FRESH}
        params = list(callee.params)
        bind = {}
        offset = 0
        if callee.cls is not None and not callee.is_static:
            recv = None
            if isinstance(node.func, ast.Attribute) and not (
                    isinstance(node.func.value, ast.Name) and
                    self.q(node.func.value) is not None and
                    isinstance(self.E.repo.lookup(self.q(node.func.value) or ''), ClassInfo)):
                recv = node.func.value
            if callee.name == '__init__' and not (isinstance(node.func, ast.Attribute) and
                                                  node.func.attr == '__init__'):
                recv = None
            bind[params[0]] = recv
            offset = 1
        from .model import positional_layout
        floating = []
        for i, a in positional_layout(self.E.repo, self.f.module, self.f.local_names(), node):
            if isinstance(a, ast.Starred):
                continue
            if i is None:
                # after a star-unpacking of unknown length the position is not known: the
                # argument may be bound to any parameter not bound otherwise
                floating.append(a)
                continue
            if i + offset < len(params):
                bind[params[i + offset]] = a
        for k in node.keywords:
            if k.arg:
                bind[k.arg] = k.value
        # effects: callee writes parameter p
        for p, sites in S2.writes.items():
            if p not in bind and floating and p in params:
                for a_ in floating:
                    self.sink(a_, node, 'callee %s may write this argument (its position after a '
                                        'star-unpacking of unknown length is not known; %s)'
                              % (callee.qualname, sites[0][1]))
            a = bind.get(p)
            if a is not None:
                # a parameter the callee only changes through the object's own methods keeps
                # that qualification at the caller (state change of a model, not a write into
                # an array or a table)
                self.sink(a, node, 'callee %s writes its parameter %s (%s)'
                          % (callee.qualname, p, sites[0][1]),
                          state=all(len(s_) > 2 and s_[2] for s_ in sites))
        if S2.self_mutates and callee.cls is not None and not callee.is_static and \
                callee.name != '__init__':
            r = bind.get(params[0])
            if r is not None:
                self.sink(r, node, 'method %s changes the state of its receiver'
                          % callee.qualname, state=True)
        # return origins
        out = set()
        for o in S2.ret:
            if isinstance(o, tuple) and o[0] in ('P', 'V', 'D'):
                a = bind.get(o[1])
                if a is None:
                    continue
                for ao in self.orig(a):
                    if not isinstance(ao, tuple):
                        continue
                    if o[0] == 'P':
                        out.add(ao)
                    elif o[0] == 'V':
                        out |= self.as_view({ao})
                    else:
                        out.add(('D', ao[1]) if ao[0] in ('P', 'D') else ao)
            elif isinstance(o, tuple) and o[0] == 'G':
                out.add(o)
        out.discard(FRESH)
        # constructor: the new object's fields may hold the arguments
        return out or {FRESH}

    # --------------------------------------------------------------------- sinks
    def sink(self, target, node, reason, state=False):
        """Something writes into the object denoted by expression `target`."""
        for o in self.orig(target):
            if not isinstance(o, tuple):
                continue
            if o[0] in ('P', 'V'):
                self.S.writes.setdefault(o[1], []).append(
                    (node, reason + ('' if o[0] == 'P' else ' through a view/array of it'),
                     state))
            elif o[0] == 'ELEM':
                self.S.writes.setdefault(o[1], []).append(
                    (node, reason + ' on an element of it', state))
            elif o[0] == 'D':
                self.S.infos.append((node, "write to a pandas object selected from '%s' "
                                           "(%s): safe only under copy-on-write" % (o[1], reason)))
            elif o[0] == 'G':
                self.S.writes.setdefault('<global %s>' % o[1], []).append((node, reason, state))
            elif o[0] == 'CTOR':
                self.S.writes.setdefault('<field holding constructor argument %s of %s>'
                                         % (o[3], o[1]), []).append((node, reason, state))
            elif o[0] == 'S':
                self.S.self_writes.append((node, o[1]))
                self.self_mutates = True
            elif o[0] == 'SELFOBJ':
                self.self_mutates = True

    # ---------------------------------------------------------------- statements
    def run(self):
        body = self.f.node.body
        self.block(body)
        self.S.ret = self.ret
        self.S.fields = self.fields
        self.S.self_mutates = self.self_mutates

    def block(self, body):
        for st in body:
            self.stmt(st)

    def bind(self, target, origins, value_node=None):
        if isinstance(target, ast.Name):
            self.env[target.id] = set(origins)
        elif isinstance(target, (ast.Tuple, ast.List)):
            if value_node is not None and isinstance(value_node, (ast.Tuple, ast.List)) and \
                    len(value_node.elts) == len(target.elts):
                for t, v in zip(target.elts, value_node.elts):
                    self.bind(t, self.orig(v), v)
            else:
                # unpacking an array / tuple: each element may view the source
                for t in target.elts:
                    self.bind(t, self.as_view(origins) if any(
                        isinstance(o, tuple) and o[0] in ('P', 'V') for o in origins)
                        else origins)
        elif isinstance(target, ast.Subscript):
            self.sink(target.value, target, 'subscript store `%s = ...`' % norm_text(target))
        elif isinstance(target, ast.Attribute):
            if self.selfname and isinstance(target.value, ast.Name) and \
                    target.value.id == self.selfname:
                self.fields[target.attr] = set(origins) | (
                    self.fields.get(target.attr, set()) if self.f.name != '__init__' else set())
                if self.f.name != '__init__':
                    self.self_mutates = True
            else:
                self.sink(target.value, target, 'attribute store `%s = ...`' % norm_text(target))
        elif isinstance(target, ast.Starred):
            self.bind(target.value, origins)

    def stmt(self, st):
        if isinstance(st, ast.Assign):
            o = self.orig(st.value)
            for t in st.targets:
                self.bind(t, o, st.value)
        elif isinstance(st, ast.AnnAssign):
            if st.value is not None:
                self.bind(st.target, self.orig(st.value), st.value)
        elif isinstance(st, ast.AugAssign):
            self.orig(st.value)
            t = st.target
            if isinstance(t, ast.Name):
                self.sink(t, st, 'augmented assignment `%s`' % norm_text(st))
                # the name keeps its origins (in-place) - no rebinding to fresh
            elif isinstance(t, ast.Subscript):
                self.sink(t.value, st, 'augmented subscript store `%s`' % norm_text(st))
            elif isinstance(t, ast.Attribute):
                if self.selfname and isinstance(t.value, ast.Name) and \
                        t.value.id == self.selfname:
                    self.sink(t, st, 'augmented store on field')
                    self.self_mutates = True
                else:
                    self.sink(t.value, st, 'augmented attribute store `%s`' % norm_text(st))
                    self.sink(t, st, 'augmented attribute store `%s`' % norm_text(st))
        elif isinstance(st, ast.Expr):
            self.orig(st.value)
        elif isinstance(st, ast.Return):
            if st.value is not None:
                self.ret |= {o for o in self.orig(st.value)}
        elif isinstance(st, ast.If):
            self.orig(st.test)
            e0 = {k: set(v) for k, v in self.env.items()}
            self.block(st.body)
            e1 = self.env
            self.env = {k: set(v) for k, v in e0.items()}
            self.block(st.orelse)
            for k, v in e1.items():
                self.env[k] = self.env.get(k, set()) | v
        elif isinstance(st, (ast.For, ast.AsyncFor)):
            it = self.orig(st.iter)
            # elements of an iterable argument are (parts of) that argument
            el = set()
            for o in it:
                if isinstance(o, tuple) and o[0] in ('P', 'D', 'V'):
                    el.add(('ELEM', o[1]))
                elif isinstance(o, tuple):
                    el.add(o)
            self.bind(st.target, el or {FRESH})
            for _ in range(2):
                self.block(st.body)
            self.block(st.orelse)
        elif isinstance(st, ast.While):
            self.orig(st.test)
            for _ in range(2):
                self.block(st.body)
            self.block(st.orelse)
        elif isinstance(st, ast.With):
            for it in st.items:
                self.orig(it.context_expr)
            self.block(st.body)
        elif isinstance(st, ast.Try):
            self.block(st.body)
            for h in st.handlers:
                self.block(h.body)
            self.block(st.orelse)
            self.block(st.finalbody)
        elif isinstance(st, (ast.Raise, ast.Assert)):
            pass
        elif isinstance(st, ast.Delete):
            for t in st.targets:
                if isinstance(t, ast.Subscript):
                    self.sink(t.value, st, 'del of an element')
