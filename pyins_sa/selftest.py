"""Thorough tier: re-run the property's rules on edited scratch copies of the current tree
(must-fire and must-stay-silent variants, see corpus.py)."""


def run(ctx):
    from . import corpus
    corpus.run(ctx)
