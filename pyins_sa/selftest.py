"""Thorough tier: re-run the property's rules on AST-edited scratch copies of the
current tree (must-fire and must-stay-silent variants).  Filled in corpus.py."""
import os


def run(ctx):
    try:
        from . import corpus
    except ImportError:
        ctx.info('SELFTEST', 'no variant corpus built yet')
        return
    corpus.run(ctx)
