"""Property -> rules registry."""
from .rules import kernel

PROPS = {
    'C01': dict(
        rules=[kernel.sib_grav, kernel.ker_consist, kernel.ker_skew, kernel.row_rec],
        decided=['compiled gravity copy equals earth.gravity',
                 'one-step map first-order consistent with the navigation equations built '
                 'from earth.* / perturb_lla / skew_matrix (necessary for convergence)',
                 'cross-product structure of the Coriolis and rotation-compensation terms',
                 'recurrence shape (row j -> row j+1, each increment once)'],
        undecided=['convergence and its order', 'second-order terms of the step',
                   'global discretisation error']),
}


def run(ctx):
    spec = PROPS[ctx.prop]
    ctx.decided = spec['decided']
    ctx.undecided = spec['undecided']
    ctx.assumptions = list(spec.get('assumptions', [])) + [
        'numpy/scipy/pandas API semantics as tabulated in DESIGN.md appendix A',
        'util.mm_prod/mv_prod/skew_matrix semantics are read from their source on each run',
    ]
    for r in spec['rules']:
        r(ctx)
