"""Property -> rules registry."""
import os
from .rules import kernel, incr, rot, sched, meas, integrator, kal, purity, diff, sensor, layout, geo, errmodel, frames, simrules, dtype, idxdom, forms, interp, smmodel, names

PROPS = {
    'C01': dict(
        rules=[geo.geo_curv, geo.parity, kernel.row_rec, kernel.sib_grav, kernel.ker_consist,
               kernel.ker_skew,
               incr.cs_rules, incr.cs_exact, rot.rot_series, rot.rot_exp, rot.angle_range, geo.wgs_const,
               integrator.carrier, integrator.predict_eff, integrator.kernel_via,
               integrator.wa_forward],
        decided=['no roll/heading from a half-range inverse function in any hand-written Euler extraction (ANGLE-RANGE); no narrowing to single precision, no buffer with the dtype of a data-valued fill',
                 'compiled gravity copy equals earth.gravity',
                 'the public Integrator hands the kernel the state it was given and hands out the '
                 'rows the kernel wrote, under the documented labels (carriers, row slice, '
                 'columns, altitude flag)',
                 'the constants behind the symbols (WGS-84 values, gravity at equator and poles, '
                 'degree/radian factors)',
                 'one-step map first-order consistent with the navigation equations built '
                 'from earth.* / perturb_lla / skew_matrix (necessary for convergence)',
                 'cross-product structure of the Coriolis and rotation-compensation terms',
                 'recurrence shape (row j -> row j+1, each increment once)',
                 'increments: branch agreement, first-order consistency and exactness through the '
                 'cubic term on linear signals (C15 rules)',
                 'rotation-vector routine is the exponential map, continuous across its branch '
                 '(C17 rules)'],
        undecided=['convergence and its order', 'second-order terms of the step',
                   'global discretisation error']),
    'C15': dict(
        rules=[incr.cs_rules, incr.cs_exact],
        decided=['increment-type and rate-type branches agree on signals linear in time '
                 '(coefficient, sign and operand order of every cross term relative to the '
                 'sibling branch)',
                 'theta/dv/dt columns first-order consistent with the integrals of the readings',
                 'previous/current slicing, time stamps and documented columns',
                 'for linear signals theta is exact through the cubic coning term and dv equals '
                 'the first-order-rotation velocity integral (derived by polynomial integration)'],
        undecided=['order of accuracy on general (sinusoidal) signals (a limit statement)']),
    'C17': dict(
        rules=[names.len_dispatch, names.form_squeeze, rot.rot_series, rot.rot_exp, rot.euler_inv, rot.angle_range, rot.euler_conv, errmodel.es_first,
               geo.unit_const, lambda c: forms.form_agree(c, ('error_model', 'transform'), 2)],
        decided=['single triples and stacks are told apart by ndim, never by the length of the leading axis; no divisor of the closed-form rotation coefficients vanishes on its arm',
                 'small-angle arm is the Maclaurin truncation of the closed form and continuous '
                 'across the branch to 2^-53',
                 'rotation-vector routine is the exponential map (Rodrigues coefficients as '
                 'series, sign pattern of util.skew_matrix)',
                 "every roll/pitch/heading conversion uses the same extrinsic 'xyz' degree "
                 'convention',
                 'the attitude-error-to-Euler-error matrix is the derivative of roll/pitch/heading '
                 'with respect to the small rotation applied by a correction (symbolic, rotation '
                 'model of scipy from_euler)'],
        undecided=['sign conventions inside scipy Rotation (trusted library)',
                   'numerical round trip of Euler angles']),
    'C09': dict(
        rules=[lambda c: sched.def_path(c, (sched.FB,)),
               lambda c: purity.pur_arg(c, ('filters',)),
               lambda c: sched.avg_rate(c, (sched.FB,)),
               lambda c: sched.sched_epochs(c, (sched.FB,)),
               lambda c: sched.sched_mcursor(c, (sched.FB,)),
               lambda c: sched.sched_no_overtake(c, (sched.FB,)),
               lambda c: sched.sched_progress(c, (sched.FB,)),
               lambda c: sched.sched_sibling(c, ('feedback',)),
               lambda c: sched.sched_handover(c, (sched.FB,)),
               lambda c: sched.sched_pair(c, (sched.FB,)),
               lambda c: sched.key_rebind(c, (sched.FB,)), lambda c: sched.empty_guard(c, (sched.FB,)), sched.result_index, layout.layout_state, interp.fb_epoch,
               lambda c: sched.sched_span(c, (sched.FB,)), sched.step_bound_fb,
               integrator.wa_forward,
               integrator.buf_rules, integrator.last_row, integrator.kernel_via],
        decided=['per-measurement result lists indexed only where non-empty; every result table is given a time index; epoch list holds time stamps of the streams unchanged; no state block addressed from the end by a size that may be zero',
                 'the state at an epoch inside a sampling interval is predicted with the elapsed '
                 'fraction of the pending increment',
                 'the one-row prediction made at every epoch writes inside the history buffers '
                 '(capacity test on every path to the compiled kernel)',
                 'documented defaults run', 'termination (progress guard)',
                 'every increment handed to the integrator exactly once',
                 'epoch list de-duplicated, clipped to [start, end], sentinel last',
                 'epoch cursor advanced exactly once per processed epoch under a strict test',
                 'no epoch overtaken (drain before forced progress) => exactly once, in order',
                 'one innovation and one own-time stamp per available sample'],
        undecided=['finiteness of the numerical tables', 'numerical accuracy of the predicted '
                   'state within a sampling interval (linear-in-time scaling of the increment)'],
        assumptions=['sample time index strictly increasing (input precondition)']),
    'C10': dict(
        rules=[lambda c: sched.def_path(c, (sched.FF,)),
               lambda c: purity.pur_arg(c, ('filters',)),
               lambda c: sched.avg_rate(c, (sched.FF,)),
               lambda c: sched.sched_epochs(c, (sched.FF,)),
               lambda c: sched.sched_mcursor(c, (sched.FF,)),
               lambda c: sched.sched_no_overtake(c, (sched.FF,)),
               lambda c: sched.sched_progress(c, (sched.FF,)),
               lambda c: sched.sched_sibling(c, ('feedforward',)),
               lambda c: sched.sched_handover(c, (sched.FF,)),
               lambda c: sched.sched_span(c, (sched.FF,)),
               lambda c: sched.sched_pair(c, (sched.FF,)),
               lambda c: sched.key_rebind(c, (sched.FF,)), lambda c: sched.empty_guard(c, (sched.FF,)), sched.result_index, layout.layout_state,
               sched.step_bound],
        decided=['per-measurement result lists indexed only where non-empty; every result table is given a time index; epoch list holds time stamps of the streams unchanged',
                 'the averaged readings are divided by the positive step handed over, never by a batch-dependent quantity that can vanish',
                 'documented defaults run', 'termination and strictly increasing output index '
                 '(progress guard)', 'step never beyond max(time step, local gap)',
                 'epoch list de-duplicated, clipped, sentinel last',
                 'epoch cursor advanced exactly once per processed epoch',
                 'no epoch overtaken => every epoch in [start, end) used exactly once in order'],
        undecided=['finiteness of the numerical tables'],
        assumptions=['trajectory time index strictly increasing (input precondition)']),
    'C06': dict(
        rules=[meas.meas_guard, meas.meas_dep, meas.meas_shape, meas.meas_cols,
               meas.meas_jacobian, meas.meas_noise, meas.meas_sim, geo.unit_const,
               lambda c: purity.pur_global(c, ('measurements', 'error_model', 'transform',
                                               'earth', 'util'))],
        decided=['H == -dz/dx and the documented residual also for a lever arm with an exactly zero component',
                 'no function on the measurement path keeps state in a module/class-level array '
                 '(H for one call does not depend on earlier calls)',
                 'absent time returns None before any data access',
                 'every attribute the residual depends on reaches H (lever arm), under the same '
                 'condition', 'matching dimensions of z, H, R in both altitude modes',
                 'residual is predicted minus measured', 'simulator/constructor column agreement',
                 'simulator composed with the model: residual at the true state is minus the '
                 'injected error (first order for position, exact for velocities)',
                 'H is entry-wise the derivative of the residual with respect to the error state '
                 'under correct_pva (symbolic, first order; all classes, both altitude modes, with '
                 'and without lever arm / rates)'],
        undecided=['floating-point size of the residual at the true state with simulated data '
                   '(that it is zero / minus the injected error to first order is decided: MEAS-SIM)',
                   'second-order (lever/Earth-radius) terms of the position Jacobian']),
    'C02': dict(
        rules=[kernel.row_rec, integrator.buf_rules, integrator.carrier, integrator.carrier_sync,
               integrator.predict_eff, integrator.last_row, integrator.kernel_via, rot.rot_exp, rot.angle_range],
        decided=['the public entry points hand their table to the kernel path unchanged; the trajectory is extended by a plain concat that keeps the time index',
                 'the rotation routine writes all nine entries of its output on every path (the '
                 'kernel re-uses its scratch matrices from one iteration to the next)',
                 'get_time / get_pva return the latest row',
                 'kernel writes stay inside the buffers for every chunking and capacity (linear '
                 'arithmetic proof on both paths of the capacity test)',
                 'all state carriers written together and with matching columns; set_pva writes '
                 'the row the next call reads', 'predict stores nothing observable',
                 'integrate appends the rows just written, stamped with the increment times, and '
                 'returns previous last row + appended rows'],
        undecided=['bit-identity of floating-point results across chunkings']),
    'C13': dict(
        rules=[integrator.alt_freeze, integrator.es_copy, integrator.es_2drows,
               meas.meas_shape, meas.meas_noise, kernel.row_rec, errmodel.em_2d,
               integrator.wa_forward, integrator.predict_eff, errmodel.jac_shape],
        decided=['methods of a class that stores the altitude mode pass self.with_altitude to every callee that takes one (the compiled kernel included)',
                 'the measurement Jacobians of the error model have 2 rows (position, NED '
                 'velocity) and 7 columns without altitude on every path, with and without a '
                 'lever arm',
                 'the 2-row noise covariance is the north/east block of the 3-row one',
                 'the rows handed out are the rows the kernel wrote, labelled with the documented '
                 'Trajectory columns in the order of the buffers (the frozen altitude and the zero '
                 'vertical velocity reach the columns alt and VD)',
                 'every writer of the velocity carrier stores vertical velocity zero and altitude '
                 'is copied (constructor, kernel, set_pva)',
                 '2-D correction returns input altitude and vertical velocity',
                 'down / VD rows of the 2-D output transform are identically zero (zero reported '
                 'sd in both filters)', 'position / NED-velocity models return 2 rows'],
        undecided=['nothing further: the statement is structural']),
    'C07': dict(
        rules=[kal.kal_rules, kal.tol_gate, kal.use_after_overwrite, lambda c: purity.pur_arg(c, ('kalman',)),
               kal.div_zero],
        decided=['no branch decided by a tolerance comparison above rounding level (TOL-GATE); no selection by the zero pattern of a cancelling sum (ZERO-BY-SUM); cho_factor triangle followed',
                 'no public function of kalman writes into an argument (effect analysis: direct '
                 'and augmented assignment, views, callees, overwrite flags)',
                 'gain == P H^T S^-1 with S == H P H^T + R and state update == x + K (z - H x) '
                 '(non-commutative normal form, all inputs)',
                 'covariance is the Joseph form, each summand a congruence of P or R (symmetric '
                 'PSD by construction)',
                 'innovation is the residual whitened by the lower factor of that same S; one '
                 'triangle used consistently',
                 'no array is read after it was handed over with an overwrite flag (layout-'
                 'dependent corruption for single-row / single-column shapes)'],
        undecided=['floating-point equality with the information form', 'order independence '
                   'and "never larger than the prior" as numerical facts (they follow '
                   'algebraically)']),
    'C08': dict(
        rules=[kal.vl_rules, kal.tol_gate, kal.q_psd, kal.div_zero, layout.assembly,
               lambda c: purity.pur_arg(c, ('kalman',)),
               lambda c: dtype.dtype_inherit(c, ('kalman', 'filters')),
               lambda c: sched.sched_handover(c, (sched.FB, sched.FF)),
               lambda c: sched.sched_progress(c, (sched.FB, sched.FF))],
        decided=['the inputs F, Q are not modified (sub-steps of a partition see the same model)',
                 'the step handed to the discretisation is the interval between the rows that are '
                 'actually propagated (cursor read only after the progress guard has adjusted it)',
                 'Van Loan block layout and transposition: expm([[F, Q],[0, -F^T]] dt), returns '
                 '(E00, E01 E00^T)', 'process noise at the call site is G diag(q^2) G^T',
                 'step passed equals the interval of the averaged states'],
        undecided=['exactness of scipy.linalg.expm', 'symmetry/PSD of the computed product in '
                   'floating point', 'composition over partitions (numerical)']),
    'C19': dict(
        rules=[names.len_dispatch, names.form_squeeze, purity.pur_rules, purity.rng_src, purity.rng_seed, purity.rng_fwd, purity.sch_rules, dtype.dtype_inherit,
               forms.form_agree,
               forms.form_agree_tables, forms.util_prod, layout.est_rules, sensor.sm_accum,
               diff.wrap_rules, smmodel.sm_model, smmodel.sm_params, layout.result_form],
        decided=['seed parameters never tested by truth value, seed normaliser = library helper or an analysed repository function (RNG-SEED); single-item form tests ask every broadcast argument (FORM-SQUEEZE)',
                 'the sensor tables (estimator states, simulator parameter table, filter result '
                 'tables) name the same term the same way: sm_<output axis><input axis>, '
                 'bias_<axis> (constructor and Parameters.apply executed for a covering family '
                 'of enable masks)',
                 'no public callable writes into an argument, a constructor-argument field or a '
                 'shared constant (may-alias effect analysis with interprocedural summaries; '
                 'pandas-3 copy-on-write model)',
                 'every random draw comes from check_random_state(<parameter>); no hidden '
                 'non-determinism source', 'documented column sets of returned/consumed tables'],
        undecided=['bit-identical repeat results (needs library determinism)',
                   'agreement of the list and plain-array forms with the others (the scalar / stacked and the Series / DataFrame forms are decided: FORM-AGREE)'],
        assumptions=['pandas >= 3 copy-on-write semantics (measured in this sandbox); calls '
                     'listed under assumed_read_only_calls do not write their arguments']),
    'C18': dict(
        rules=[diff.diff_orient, diff.diff_sym, diff.diff_scale, diff.diff_cols, diff.diff_wrap_cols, diff.wrap_rules, diff.res_rules,
               geo.unit_const,
               errmodel.es_perturb, geo.geo_perturb],
        decided=['position columns of the difference scaled by rn*DEG_TO_RAD, rp*DEG_TO_RAD, -1 (N1); common columns = intersection; kept times cut to the span of the interpolated table on every path',
                 'difference is +first -second on every path, whichever input is denser',
                 'angle reduction maps every real angle into (-180, 180] congruent mod 360 '
                 '(interval proof, array and scalar arms)',
                 'resampling clips to the span, keeps column order, SLERP for attitude / linear '
                 'for the rest', 'metre conversion signs and renaming of the position part'],
        undecided=['exact zero for a table against itself', 'reproduction of original rows and '
                   'first-order recovery of a perturbation (numerical)']),
    'C14': dict(
        rules=[sensor.sm_names, sensor.sm_count, sensor.sm_accum, sensor.sm_sign, sensor.sm_apply,
               sensor.sm_gate, sensor.sm_table, purity.rng_src, purity.rng_seed, purity.rng_fwd, layout.corr_pair,
               smmodel.sm_model, smmodel.sm_params, smmodel.sm_draw, sensor.sm_first_dt,
               sensor.sm_const,
               layout.layout_state,
               layout.layout_noise, layout.layout_prov, layout.assembly, layout.call_roles],
        decided=['no method but the constructor stores into the model matrices (F, G, H, P, q, v), directly or through an un-copied alias',
                 'the simulator\'s parameter table, executed for a covering family of masks: '
                 'exactly the columns of the non-nominal terms, named and valued as documented',
                 'for a covering family of enable masks (all off/on, each flag alone on and alone '
                 'off, 40 fixed pseudo-random ones) the constructed model has exactly the '
                 'documented states, dimensions, P, F, G/q, H, J/v; output matrix times state is '
                 'bias + scale/misalignment error of the reading; updates accumulate and read back',
                 'the flag gating the reading-dependent part of the output matrix is true exactly '
                 'when some scale/misalignment state exists (decided by length of the index list)',
                 'state names produced by estimator and simulator and parsed by the estimator '
                 'agree', 'output/input axis roles at all six sites',
                 'construction counters paired with appends/stores on every path; slices use the '
                 'indexing counter (all 2^18 masks at once)',
                 'estimate updates are additive accumulations; reset covers all estimate state',
                 'correction is the inverse form of the simulated error; sampling-interval '
                 'exponents of bias / white noise / bias walk'],
        undecided=['empirical variances of simulated noise', 'numerical inverse property']),
    'C11': dict(
        rules=[lambda c: purity.pur_arg(c, ('filters',)), sensor.sm_const, layout.layout_state, layout.layout_noise, layout.layout_prov, layout.p0_form,
               layout.rec_order, kal.q_psd, geo.unit_const,
               lambda c: sched.sched_epochs(c, (sched.FF,)),
               lambda c: sched.sched_mcursor(c, (sched.FF,)),
               lambda c: sched.sched_no_overtake(c, (sched.FF,)),
               lambda c: sched.sched_pair(c, (sched.FF,)),
               lambda c: sched.sched_handover(c, (sched.FF,)),
               lambda c: sched.sched_progress(c, (sched.FF,)),
               idxdom.idx_domain, sensor.sm_gate, layout.sd_transform, layout.ff_comp,
               layout.result_form, lambda c: layout.res_collect(c, (sched.FF,)), layout.assembly,
               lambda c: sched.sched_span(c, (sched.FF,)), lambda c: sched.avg_rate(c, (sched.FF,)),
               lambda c: layout.init_state(c, (sched.FF,)), layout.call_roles,
               kal.kal_rules, kal.tol_gate, kal.use_after_overwrite, kal.vl_rules, smmodel.sm_model,
               layout.traj_roles, integrator.wa_forward,
               lambda c: interp.interp_rules(c, ('feedforward',))],
        decided=['every measurement sample is fused exactly once (epoch list de-duplicated, cursor pairing, no epoch overtaken: the C10 rules on the feedforward loop)',
                 'the epoch state is the interpolation between the bracketing rows with the elapsed fraction; propagation matrices at the mid-point state',
                 'positional cursors address rows of their own time axis only (the readings '
                 'averaged for the sensor-state coupling come from the propagated interval)',
                 'state and noise block layout contiguous, disjoint and identical in all six '
                 'functions', 'every block is fed from / read into the model that owns it',
                 'initial covariance is the congruence T P_pva T^T with each sigma squared at its '
                 'own component', 'x and P propagated with one (Phi, Qd); corrections precede '
                 'recording precede propagation', 'Q is G diag(q^2) G^T; step = interval of the '
                 'averaged states'],
        undecided=['numerical equality of estimates, covariances and innovations with an '
                   'independent batch (Gauss-Markov) solution']),
    'C12': dict(
        rules=[lambda c: purity.pur_arg(c, ('filters',)), layout.est_rules, sensor.sm_accum, sensor.sm_sign,
               sensor.sm_const,
               lambda c: sched.sched_handover(c, (sched.FB,)), kal.q_psd, idxdom.idx_domain,
               interp.interp_rules, interp.fb_epoch, layout.corr_pair,
               lambda c: sched.sched_epochs(c, (sched.FB, sched.FF)),
               lambda c: sched.sched_sibling(c, ('feedback', 'feedforward')),
               integrator.last_row, smmodel.sm_model, layout.result_form, layout.res_collect,
               layout.assembly, sched.sched_span, sched.avg_rate, sched.step_bound_fb,
               sched.step_bound, layout.init_state, layout.call_roles, layout.layout_noise,
               layout.layout_prov, layout.p0_form, layout.rec_order,
               lambda c: sched.sched_mcursor(c, (sched.FB, sched.FF)),
               lambda c: sched.sched_no_overtake(c, (sched.FB, sched.FF)),
               lambda c: sched.sched_pair(c, (sched.FB, sched.FF)),
               lambda c: sched.sched_progress(c, (sched.FB, sched.FF)),
               layout.ff_comp, layout.sd_transform, errmodel.es_first, errmodel.es_inv,
               integrator.buf_rules, integrator.carrier, integrator.carrier_sync,
               integrator.predict_eff, kal.kal_rules, kal.tol_gate, kal.use_after_overwrite,
               integrator.wa_forward],
        decided=['in each filter the state for the propagation matrices is the rotation-mean mid-point of _interpolate_pva, not an arithmetic mean of angles',
                 'both filters fuse the same set of measurement samples: same epoch-list stages (merge, de-duplication, clip to [start, end], sentinel) in both loops',
                 'both filters reset both sensor models before any use (re-run reproducibility)',
                 'feedback effects (set_pva, update_estimates, correct) only inside the '
                 'measurement-due block: with no epoch in the span the loop is plain integration '
                 'of corrected increments with reset (neutral) estimates',
                 'each consumer of the error vector receives its own block',
                 'estimates enter the correction with the sign opposite to their attribution',
                 'covariance is propagated over the interval that was actually integrated (end time '
                 'read from the integrator after the batch), as in the feedforward filter'],
        undecided=['bit-identity with plain integration (floating point: solve(I, v - 0*dt))',
                   'second-order agreement with the feedforward filter']),
    'C16': dict(
        rules=[names.len_dispatch, names.form_squeeze, kernel.sib_grav, geo.geo_frame, geo.geo_perturb, geo.geo_curv, geo.parity,
               geo.role_radii, geo.parity_ecef, geo.olson_rules, geo.wgs_const,
               lambda c: forms.form_agree(c, ('earth', 'transform')),
               lambda c: dtype.dtype_inherit(c, ('transform', 'earth'))],
        decided=['the sine / cosine pair handed to the Newton step of ecef_to_lla is consistent (s^2 + c^2 = 1 identically in the guess); single items and stacks are told apart by ndim',
                 'NED axes of mat_en_from_ll are the partial derivatives of lla_to_ecef with '
                 'lengths given by principal_radii (symbolic proof for all lat/lon/alt)',
                 'perturb_lla, compute_lla_difference and lla_to_ned agree with that geometry to '
                 'first order', 'curvature matrix = rotation of the NED frame under displacement',
                 'rate_n, gravity_n, gravitation_ecef (gravity minus centrifugal) and the compiled '
                 'gravity copy are one field', 'even/odd symmetry in latitude',
                 'the constants behind the symbols: WGS-84 values of A, E2, GE, GP, RATE, normal '
                 'gravity equal to GE / GP at the equator / poles, DEG_TO_RAD == pi/180',
                 'ECEF -> geodetic conversion is mirror-symmetric in z (latitude odd, longitude and '
                 'altitude even)',
                 'ECEF -> geodetic conversion inverts lla_to_ecef up to O(E2^6): closed-form guess '
                 'exact through E2^2 (series), refinement = Newton step of the exact geometry '
                 '(fixed point, first-order cancellation), longitude = atan2(y, x)'],
        undecided=['floating-point rounding of the ECEF -> geodetic round trip (its truncation error is '
                   'decided: third-order guess + Newton step)',
                   'behaviour exactly at the poles (division by cos lat)',
                   'shape errors of a call form (the values of the scalar and the stacked form '
                   'are decided: FORM-AGREE)']),
    'C05': dict(
        rules=[rot.euler_inv, rot.angle_range, errmodel.es_inv, errmodel.es_first, errmodel.es_perturb,
               integrator.es_copy, integrator.es_2drows, geo.geo_perturb, geo.role_radii,
               geo.unit_const, lambda c: forms.form_agree(c, ('error_model',), 1),
               forms.form_agree_tables, diff.diff_wrap_cols],
        decided=['output->internal is a left inverse of internal->output by construction (same '
                 'builder, inv, S E = I_7)',
                 'a correction changes the state, to first order, by exactly -T_out x in output '
                 'coordinates (position, velocity, Euler angles; 3-D and 2-D) - symbolic',
                 'perturb_pva adds the output-space error to first order',
                 '2-D: down / VD rows identically zero; correction returns input altitude / VD'],
        undecided=['size of the second-order residual (a Taylor remainder)',
                   'behaviour at the pitch singularity']),
    'C04': dict(
        rules=[geo.geo_curv, geo.parity, errmodel.em_linear, errmodel.prop_consist, errmodel.em_2d, errmodel.em_units,
               errmodel.em_frame, errmodel.em_gravgrad, errmodel.es_first, kernel.ker_consist,
               kernel.sib_grav, geo.wgs_const, integrator.wa_forward],
        decided=['propagate_errors: each interval propagated over its own length; the identity added to every interval; default initial error installed under `is None`, labelled; result tables hold data and the trajectory time index',
                 'propagate_errors: one-step map consistent with x\' = F x + B_gyro e_g + B_accel e_a, initial error through transform_to_internal of the first row, output through transform_to_output',
                 'F, B_gyro, B_accel equal the symbolic linearisation of the navigation equations '
                 '(assembled from earth.*) in the error coordinates that correct_pva implements: '
                 'exactly for a stationary vehicle and in every velocity-dependent entry the model '
                 'has; the neglected remainder is proportional to velocity',
                 'dimensional homogeneity of every entry of F, B_gyro, B_accel, the output '
                 'transform and the Jacobians', 'body-frame covariance of the coupling matrices, F '
                 'independent of attitude', '7-state model is exactly S F E / S B of the 9-state '
                 'model; embedding call sites', 'vertical coupling = gravity gradient of '
                 'earth.gravity; integrator and model share the earth functions (kernel tied to '
                 'them by first-order consistency)'],
        undecided=['numerical size of the neglected velocity-proportional couplings along a given '
                   'trajectory', 'order of accuracy of the discrete propagation beyond first-order '
                   'consistency (propagate_errors: decided; filters: exact Van Loan, C08)']),
    'C03': dict(
        rules=[frames.frame_suffix, simrules.sim_inc, simrules.sim_struct, simrules.sim_kin,
               simrules.sim_integ, geo.wgs_const, simrules.sim_spline_bc],
        decided=['the splines of generate_imu keep the default not-a-knot end conditions (no assumption about the motion at the ends of the record)',
                 'rate-type readings satisfy the navigation equations assembled from earth.* for an '
                 'arbitrary smooth trajectory (symbolic, splines idealised as exact derivatives; '
                 'position and position+velocity forms); a body at rest senses exactly Earth rate '
                 'and the reaction to gravity',
                 'closed-form increment readings equal the integrals of the second-order '
                 'rotation-vector kinematics of the spline polynomials (every coefficient)',
                 'frame / transposition discipline of every product (naming convention)',
                 'spline-coefficient roles, first-sample duplication, documented tables',
                 'initial-position form: the position is the solution of d(lla)/dt = '
                 '(R2D VN/rn, R2D VE/rp, -VD) from the initial values (formal integrals, Picard '
                 'iteration of the latitude equation): the three forms describe one motion'],
        undecided=['spline interpolation / quadrature error and its decay with the sampling interval',
                   'the actual (not a-priori) error of the latitude iteration on a given trajectory',
                   'numerical reproduction of the trajectory by strapdown integration']),
}


def _anchor_files(prop):
    import json
    here = os.path.dirname(os.path.dirname(os.path.abspath(__file__)))
    try:
        for line in open(os.path.join(here, 'properties.jsonl')):
            p_ = json.loads(line)
            if p_['id'] == prop:
                return [x for x in p_['anchors']['files'] if x.endswith('.py')]
    except OSError:
        pass
    return []


def run(ctx):
    spec = PROPS[ctx.prop]
    ctx.decided = spec['decided']
    ctx.undecided = spec['undecided']
    ctx.assumptions = list(spec.get('assumptions', [])) + [
        'numpy/scipy/pandas API semantics as tabulated in DESIGN.md appendix A',
        'util.mm_prod/mv_prod/skew_matrix semantics are read from their source on each run',
    ]
    from .model import AnalysisError
    deferred = None
    # NAME-BOUND on the modules the property is anchored in (every property: a NameError on a
    # path of the anchored code breaks whatever is stated about that path)
    anchored = tuple(sorted({os.path.basename(x)[:-3] for x in _anchor_files(ctx.prop)}))
    rules = list(spec['rules']) + [lambda c: names.local_before_def(c, anchored),
                                   lambda c: names.attr_bound(c, anchored),
                                   lambda c: names.name_bound(c, anchored),
                                   lambda c: names.arg_order(c, anchored),
                                   lambda c: names.col_byname(c, anchored),
                                   lambda c: names.global_state(c, anchored),
                                   lambda c: names.field_state(c, anchored),
                                   lambda c: names.time_rtol(c, anchored),
                                   lambda c: names.zero_by_sum(c, anchored),
                                   lambda c: dtype.dtype_narrow(c, anchored),
                                   lambda c: dtype.dtype_fill(c, anchored),
                                   lambda c: None if any(r_['rule'] == 'RESULT-INDEX'
                                                         for r_ in c.rules_run)
                                   else sched.result_index(c, anchored, 0)]
    # shared mutable state in the anchored modules makes every for-all-inputs claim depend on the
    # calls made before (two seeds - C06 round 2, C05 round 5 - hid a work buffer in a class
    # constant): PUR-GLOBAL on the anchored modules, unless the property runs it already
    rules.append(lambda c: None if any(r_['rule'] == 'DIV-ZERO' for r_ in c.rules_run)
                 else kal.div_zero(c, anchored, 1))
    if ctx.prop not in ('C19',):
        rules.append(lambda c: None if any(r_['rule'] == 'PUR-GLOBAL' for r_ in c.rules_run)
                     else purity.pur_global(c, anchored, 1))
    for r in rules:
        try:
            r(ctx)
        except AnalysisError as e:
            # a rule that cannot analyse the code does not stop the others: violations found
            # by any rule take precedence; without any, the run is analysis-broken (exit 2)
            if deferred is None:
                deferred = e
            ctx.info('ANALYSIS', 'rule not applicable to this code: %s' % e)
        except (TimeoutError, KeyboardInterrupt):
            raise
        except Exception as e:          # noqa: an internal error of one rule: same policy
            if deferred is None:
                deferred = AnalysisError('%s: %s' % (type(e).__name__, e))
            ctx.info('ANALYSIS', 'rule failed on this code: %s: %s' % (type(e).__name__, e))
            import sys as _sys
            import traceback as _tb
            print('RULE-ERROR %s: %s' % (type(e).__name__, e), file=_sys.stderr)
            _tb.print_exc(file=_sys.stderr)
    from . import expr as _expr
    if 'pyins.util.to_180_range' in _expr.SUMMARY_USED and not any(r['rule'] == 'WRAP-RANGE' for r in ctx.rules_run):
        # a symbolic rule used util.to_180_range through its summary (congruent modulo 360,
        # identity near 0): the rules that establish the summary join this property's run
        from .rules import diff as _diff
        try:
            _diff.wrap_rules(ctx)
        except AnalysisError as e:
            deferred = deferred or e
    if deferred is not None and not ctx.findings and _expr.RUNTIME_FAILURES:
        # the rules could not analyse the code because the code itself fails for the evaluated
        # configuration (index out of bounds, shapes that numpy cannot broadcast, an np.empty
        # element read before it is written): that is a finding about the code, not a limit of
        # the analysis
        ctx.rule('RUNTIME-FAILURE', 'functions evaluated by the rules run without raising (and '
                 'without reading uninitialised memory) for the evaluated call forms')
        seen = set()
        for e in _expr.RUNTIME_FAILURES:
            wf, wst = getattr(e, 'where', (None, None))
            k = (getattr(wf, 'fq', None), getattr(wst, 'lineno', None), str(e))
            if k in seen or not hasattr(wf, 'fq'):
                continue
            seen.add(k)
            from .model import norm_text as _nt
            ctx.ob('RUNTIME-FAILURE', False, None, 'evaluates', f=wf, node=wst,
                   key='%s:%s' % (wf.name, str(e)[:60]),
                   why='`%s` fails when evaluated: %s (the rule that evaluated it reported: %s)'
                       % (_nt(wst)[:80] if wst is not None else wf.name, e, str(deferred)[:120]))
    if ctx.unreadable and not ctx.findings and deferred is None:
        deferred = AnalysisError('finding(s) withheld: ' + '; '.join(ctx.unreadable[:3])[:600])
    if deferred is not None and not ctx.findings:
        raise deferred
