"""Property -> rules registry."""
from .rules import kernel, incr, rot

PROPS = {
    'C01': dict(
        rules=[kernel.sib_grav, kernel.ker_consist, kernel.ker_skew, kernel.row_rec],
        decided=['compiled gravity copy equals earth.gravity',
                 'one-step map first-order consistent with the navigation equations built '
                 'from earth.* / perturb_lla / skew_matrix (necessary for convergence)',
                 'cross-product structure of the Coriolis and rotation-compensation terms',
                 'recurrence shape (row j -> row j+1, each increment once)'],
        undecided=['convergence and its order', 'second-order terms of the step',
                   'global discretisation error']),
    'C15': dict(
        rules=[incr.cs_rules, incr.cs_exact],
        decided=['increment-type and rate-type branches agree on signals linear in time '
                 '(coefficient, sign and operand order of every cross term relative to the '
                 'sibling branch)',
                 'theta/dv/dt columns first-order consistent with the integrals of the readings',
                 'previous/current slicing, time stamps and documented columns',
                 'for linear signals theta is exact through the cubic coning term and dv equals '
                 'the first-order-rotation velocity integral (derived by polynomial integration)'],
        undecided=['order of accuracy on general (sinusoidal) signals (a limit statement)']),
    'C17': dict(
        rules=[rot.rot_series, rot.rot_exp, rot.euler_conv],
        decided=['small-angle arm is the Maclaurin truncation of the closed form and continuous '
                 'across the branch to 2^-53',
                 'rotation-vector routine is the exponential map (Rodrigues coefficients as '
                 'series, sign pattern of util.skew_matrix)',
                 "every roll/pitch/heading conversion uses the same extrinsic 'xyz' degree "
                 'convention'],
        undecided=['sign conventions inside scipy Rotation (trusted library)',
                   'numerical round trip of Euler angles',
                   'entries of the Euler-angle Jacobian _phi_to_delta_rph beyond units']),
}


def run(ctx):
    spec = PROPS[ctx.prop]
    ctx.decided = spec['decided']
    ctx.undecided = spec['undecided']
    ctx.assumptions = list(spec.get('assumptions', [])) + [
        'numpy/scipy/pandas API semantics as tabulated in DESIGN.md appendix A',
        'util.mm_prod/mv_prod/skew_matrix semantics are read from their source on each run',
    ]
    for r in spec['rules']:
        r(ctx)
