"""E1-lite: structured control-flow helpers on the syntax tree (the repository's
functions are structured: if/for/while, no goto-like constructs besides
break/continue/return), reaching definitions along the enclosing-block chain and
use-def closure as text."""
import ast

from .model import norm_text


def blocks_of(st):
    """Child statement lists of a compound statement."""
    out = []
    for fld in ('body', 'orelse', 'finalbody'):
        b = getattr(st, fld, None)
        if isinstance(b, list) and b and isinstance(b[0], ast.stmt):
            out.append(b)
    if isinstance(st, ast.Try):
        for h in st.handlers:
            out.append(h.body)
    return out


def path_to(root_body, target):
    """[(block, index)] from the outermost block down to the block containing target."""
    def rec(block):
        for i, st in enumerate(block):
            if st is target:
                return [(block, i)]
            for b in blocks_of(st):
                r = rec(b)
                if r is not None:
                    return [(block, i)] + r
        return None
    return rec(root_body)


def stmt_containing(root_body, node):
    """Innermost statement that contains `node` (an expression or statement)."""
    best = None

    def rec(block):
        nonlocal best
        for st in block:
            if any(n is node for n in ast.walk(st)):
                best = st
                for b in blocks_of(st):
                    rec(b)
                return
    rec(root_body)
    return best


def assigned_names(st):
    s = set()
    for n in ast.walk(st):
        if isinstance(n, ast.Name) and isinstance(n.ctx, ast.Store):
            s.add(n.id)
    return s


def simple_assign(st, name):
    """If st is `name = value` (or tuple-unpack position), return value node."""
    if isinstance(st, ast.Assign) and len(st.targets) == 1:
        t = st.targets[0]
        if isinstance(t, ast.Name) and t.id == name:
            return st.value
        if isinstance(t, ast.Tuple) and isinstance(st.value, ast.Tuple) and \
                len(t.elts) == len(st.value.elts):
            for e, v in zip(t.elts, st.value.elts):
                if isinstance(e, ast.Name) and e.id == name:
                    return v
    return None


def reaching(root_body, name, at, loop=None):
    """Unique definition of `name` reaching statement `at`, searching backwards along
    the enclosing-block chain.  Returns (value_node, stmt) | ('param', None) when no
    assignment precedes | ('ambiguous', stmt) when the latest write is conditional,
    an augmented assignment, inside a nested block, or when the search leaves a loop
    in which the name is (re)assigned (loop-carried value)."""
    p = path_to(root_body, at)
    if p is None:
        return ('ambiguous', None)
    for level in range(len(p) - 1, -1, -1):
        block, idx = p[level]
        for j in range(idx - 1, -1, -1):
            st = block[j]
            if name in assigned_names(st):
                v = simple_assign(st, name)
                if v is not None:
                    return (v, st)
                return ('ambiguous', st)
        if level > 0:
            outer_block, outer_idx = p[level - 1]
            enclosing = outer_block[outer_idx]
            if isinstance(enclosing, (ast.While, ast.For)) and \
                    name in assigned_names(enclosing):
                return ('ambiguous', enclosing)
    return ('param', None)


class Closure:
    """Use-def closure of expressions as normalised text, inside one function."""

    def __init__(self, func, root_body=None, stop=()):
        self.func = func
        self.root = root_body if root_body is not None else func.node.body
        self.stop = set(stop)

    def expr(self, node, at, depth=6):
        if depth <= 0:
            return node
        return _Subst(self, at, depth).visit(_copy(node))

    def text(self, node, at, depth=6):
        return norm_text(canon(strip_array_wrappers(self.expr(node, at, depth))))


def _copy(node):
    return ast.parse(ast.unparse(node), mode='eval').body


class _Subst(ast.NodeTransformer):
    def __init__(self, clo, at, depth):
        self.clo, self.at, self.depth = clo, at, depth

    def visit_Name(self, node):
        if not isinstance(node.ctx, ast.Load) or node.id in self.clo.stop:
            return node
        v, st = reaching(self.clo.root, node.id, self.at)
        if isinstance(v, ast.AST):
            return self.clo.expr(v, st, self.depth - 1)
        return node


def walk_no_nested_funcs(node):
    todo = [node]
    while todo:
        n = todo.pop()
        yield n
        for c in ast.iter_child_nodes(n):
            if isinstance(c, (ast.FunctionDef, ast.Lambda, ast.ClassDef)) and c is not node:
                continue
            todo.append(c)


def strip_not(test):
    """(test without leading `not`s, polarity)"""
    pol = True
    while isinstance(test, ast.UnaryOp) and isinstance(test.op, ast.Not):
        test = test.operand
        pol = not pol
    return test, pol


def const_arms(root, values):
    """{constant: body} for if-chains that compare something with string constants
    (`if x == 'a': A elif x == 'b': B else: C`, also with inverted tests)."""
    out = {}
    for n in ast.walk(root):
        if not isinstance(n, ast.If):
            continue
        t, pol = strip_not(n.test)
        if isinstance(t, ast.Compare) and len(t.ops) == 1 and \
                isinstance(t.comparators[0], ast.Constant) and t.comparators[0].value in values:
            eq = isinstance(t.ops[0], ast.Eq)
            ne = isinstance(t.ops[0], ast.NotEq)
            if not (eq or ne):
                continue
            positive = pol if eq else not pol
            out.setdefault(t.comparators[0].value, n.body if positive else n.orelse)
    return out


class _StripWrappers(ast.NodeTransformer):
    """np.asarray(X) / np.array(X) / X.values / X.to_numpy() -> X: the same element values"""

    def visit_Call(self, n):
        self.generic_visit(n)
        if norm_text(n.func) in ('np.asarray', 'np.array', 'numpy.asarray', 'numpy.array',
                                 'np.asanyarray') and len(n.args) == 1 and not n.keywords:
            return n.args[0]
        if isinstance(n.func, ast.Attribute) and n.func.attr == 'to_numpy' and not n.args:
            return n.func.value
        return n

    def visit_Attribute(self, n):
        self.generic_visit(n)
        if n.attr == 'values' and isinstance(n.ctx, ast.Load):
            return n.value
        return n


def strip_array_wrappers(node):
    import copy
    return _StripWrappers().visit(copy.deepcopy(node))


class _Canon(ast.NodeTransformer):
    """canonical operand order of + and * between numeric operands (a + b == b + a): chains are
    flattened and sorted by text; sequences (lists, tuples, strings, shapes) are left alone"""

    @staticmethod
    def _seq_like(e):
        if isinstance(e, (ast.List, ast.Tuple, ast.ListComp, ast.JoinedStr, ast.Dict)):
            return True
        if isinstance(e, ast.Constant) and isinstance(e.value, (str, bytes)):
            return True
        return any(isinstance(x, ast.Attribute) and x.attr in ('shape', 'columns', 'states')
                   for x in ast.walk(e)) or \
            any(isinstance(x, ast.Name) and x.id.isupper() and x.id.endswith('_COLS')
                for x in ast.walk(e))

    def visit_BinOp(self, node):
        self.generic_visit(node)
        if not isinstance(node.op, (ast.Add, ast.Mult)):
            return node
        ops = []

        def flat(e):
            if isinstance(e, ast.BinOp) and type(e.op) is type(node.op):
                flat(e.left)
                flat(e.right)
            else:
                ops.append(e)
        flat(node)
        if any(self._seq_like(o) for o in ops):
            return node
        ops.sort(key=lambda o: (not isinstance(o, ast.Constant), norm_text(o)))
        out = ops[0]
        for o in ops[1:]:
            out = ast.BinOp(left=out, op=node.op, right=o)
        return ast.copy_location(out, node)


def canon(node):
    import copy
    return ast.fix_missing_locations(_Canon().visit(copy.deepcopy(node)))


def canon_text(text):
    """canonical form of an expression given as text (for expected values)"""
    try:
        return norm_text(canon(ast.parse(text, mode='eval').body))
    except SyntaxError:
        return text
