"""N1 - rational normal form over Q[atoms] with a small trigonometric rewrite system.

Values are `Rat` (numerator / denominator polynomials with Fraction coefficients over
named atoms).  This is expression canonicalisation (what a value-numbering pass does
with a stronger normaliser): no path conditions, no solver.

Rewrites (applied while multiplying):
    sqrt(p)**2        -> p
    cos(u)**2         -> 1 - sin(u)**2
    sqrt(1 - sin(u)**2) -> cos(u)        (valid for |u| <= pi/2: latitudes)
    tan(u)            -> sin(u) / cos(u)
    deg2rad(x)        -> x * D2R,  rad2deg(x) -> x * R2D   with  D2R * R2D -> 1
"""
from fractions import Fraction
import math


def frac(x):
    if isinstance(x, Fraction):
        return x
    if isinstance(x, bool):
        return Fraction(int(x))
    if isinstance(x, int):
        return Fraction(x)
    if isinstance(x, float):
        if x != x or x in (float('inf'), float('-inf')):
            raise ValueError('non-finite literal')
        return Fraction(repr(x))
    raise TypeError(type(x))


class Poly:
    """dict monomial -> Fraction; monomial = tuple of (atom, power) sorted by atom."""
    __slots__ = ('t',)

    def __init__(self, t=None):
        self.t = t or {}

    def is_zero(self):
        return not self.t

    def is_const(self):
        return not self.t or (len(self.t) == 1 and () in self.t)

    def const_value(self):
        return self.t.get((), Fraction(0))

    def atoms(self):
        s = set()
        for m in self.t:
            for a, _ in m:
                s.add(a)
        return s

    def key(self):
        return ' + '.join('%s*%s' % (c, '*'.join('%s^%d' % ap for ap in m) or '1')
                          for m, c in sorted(self.t.items()))

    def __repr__(self):
        return 'Poly(%s)' % self.key()


class Rat:
    __slots__ = ('n', 'd')

    def __init__(self, n, d):
        self.n, self.d = n, d

    def __repr__(self):
        if self.d.is_const() and self.d.const_value() == 1:
            return '[%s]' % self.n.key()
        return '[(%s) / (%s)]' % (self.n.key(), self.d.key())


class Alg:
    """Algebra of Rat values with an atom table."""
    D2R = 'D2R'
    R2D = 'R2D'

    def __init__(self):
        self.sqrt_of = {}     # atom -> radicand Poly
        self.cos_sin = {}     # cos atom -> sin atom
        self.sin_arg = {}     # sin atom -> Rat argument
        self.cos_arg = {}
        self.inverse = {self.D2R: self.R2D, self.R2D: self.D2R}
        self.numeric = {}     # atom -> float value (for numeric second pass)
        self.numeric[self.D2R] = math.pi / 180
        self.numeric[self.R2D] = 180 / math.pi

    # ------------------------------------------------------------ poly level
    def p_const(self, c):
        c = frac(c)
        return Poly({(): c} if c else {})

    def p_atom(self, a):
        return Poly({((a, 1),): Fraction(1)})

    def p_add(self, a, b, sign=1):
        t = dict(a.t)
        for m, c in b.t.items():
            v = t.get(m, 0) + sign * c
            if v:
                t[m] = v
            else:
                t.pop(m, None)
        return Poly(t)

    def _mono_mul(self, m1, m2):
        d = dict(m1)
        for a, p in m2:
            d[a] = d.get(a, 0) + p
        return d

    def p_mul(self, a, b):
        if a.is_zero() or b.is_zero():
            return Poly()
        t = {}
        trunc = getattr(self, 'trunc', None)
        for m1, c1 in a.t.items():
            for m2, c2 in b.t.items():
                md = self._mono_mul(m1, m2)
                if trunc is not None and md.get(trunc[0], 0) > trunc[1]:
                    continue
                term = self._reduce(md, c1 * c2)
                for m, c in term.t.items():
                    if trunc is not None and dict(m).get(trunc[0], 0) > trunc[1]:
                        continue
                    v = t.get(m, 0) + c
                    if v:
                        t[m] = v
                    else:
                        t.pop(m, None)
        return Poly(t)

    def _reduce(self, md, coef):
        """Apply rewrites to one monomial (dict atom->power); returns Poly."""
        # inverse pairs cancel
        if self.inverse:
            hit = False
            for a in list(md):
                b = self.inverse.get(a)
                if b is not None and b in md and md[a] and md[b]:
                    k = min(md[a], md[b])
                    md[a] -= k
                    md[b] -= k
                    hit = True
            if hit:
                md = {a: p for a, p in md.items() if p}
        for a, p in md.items():
            if p >= 2 and a.startswith('inv(') and self.inverse.get(a) in self.sqrt_of:
                # inv(sqrt(P))^2 -> 1 / P
                rest = dict(md)
                rest[a] = p - 2
                rest = {x: y for x, y in rest.items() if y}
                base = Poly({tuple(sorted(rest.items())): coef})
                rp = self.recip(self._r(self.sqrt_of[self.inverse[a]]))
                return self.p_mul(base, rp.n)
            if p >= 2 and a in self.sqrt_of:
                rest = dict(md)
                rest[a] = p - 2
                rest = {x: y for x, y in rest.items() if y}
                base = Poly({tuple(sorted(rest.items())): coef})
                return self.p_mul(base, self.sqrt_of[a])
            if p >= 2 and a in self.cos_sin:
                rest = dict(md)
                rest[a] = p - 2
                rest = {x: y for x, y in rest.items() if y}
                base = Poly({tuple(sorted(rest.items())): coef})
                s = self.p_atom(self.cos_sin[a])
                one_minus = self.p_add(self.p_const(1), self.p_mul(s, s), -1)
                return self.p_mul(base, one_minus)
        return Poly({tuple(sorted(md.items())): coef})

    def p_pow(self, a, k):
        r = self.p_const(1)
        for _ in range(k):
            r = self.p_mul(r, a)
        return r

    # ------------------------------------------------------------- rat level
    # A value is a polynomial over atoms; reciprocals are atoms too: inv(a) for an atom
    # (cancels pairwise with a) and inv(P) for a multi-term polynomial P (cleared by
    # multiplying through when an equality is decided).  This keeps sums cheap (no
    # cross-multiplication) and gives the least common denominator for free.
    def const(self, c):
        return Rat(self.p_const(c), self.p_const(1))

    def sym(self, name, value=None):
        if value is not None:
            self.numeric[name] = float(value)
        return Rat(self.p_atom(name), self.p_const(1))

    def _r(self, n):
        return Rat(n, self._one)

    @property
    def _one(self):
        o = getattr(self, '_one_c', None)
        if o is None:
            o = self._one_c = self.p_const(1)
        return o

    def add(self, a, b):
        return self._r(self.p_add(a.n, b.n))

    def neg(self, a):
        return self._r(Poly({m: -v for m, v in a.n.t.items()}))

    def sub(self, a, b):
        return self._r(self.p_add(a.n, b.n, -1))

    def mul(self, a, b):
        return self._r(self.p_mul(a.n, b.n))

    def _inv_atom(self, at):
        if at in self.inverse:
            return self.inverse[at]
        name = 'inv(%s)' % at
        self.inverse[at] = name
        self.inverse[name] = at
        return name

    def recip(self, b):
        p = b.n
        if p.is_zero():
            raise ZeroDivisionError('symbolic division by zero')
        if getattr(self, 'div_log', None) is not None and not p.is_const():
            self.div_log.append(b)      # every divisor, before any cancellation (pole checks)
        if len(p.t) == 1:
            (m, c), = p.t.items()
            md = {}
            for at, pw in m:
                ia = self._inv_atom(at)
                md[ia] = md.get(ia, 0) + pw
            return self._r(self._reduce(md, 1 / c))
        lead = sorted(p.t.items())[0][1]
        pn = Poly({m: v / lead for m, v in p.t.items()})
        name = 'inv(%s)' % pn.key()
        if not hasattr(self, 'inv_of'):
            self.inv_of = {}
        self.inv_of[name] = pn
        return self._r(Poly({((name, 1),): 1 / lead}))

    def div(self, a, b):
        if b.n.is_const():
            c = b.n.const_value()
            if c == 0:
                raise ZeroDivisionError('symbolic division by zero')
            return self._r(Poly({m: v / c for m, v in a.n.t.items()}))
        return self.mul(a, self.recip(b))

    def powi(self, a, k):
        if k >= 0:
            return self._r(self.p_pow(a.n, k))
        return self.recip(self.powi(a, -k))

    def _inv_atoms_in(self, p):
        iv = getattr(self, 'inv_of', {})
        return {a for a in p.atoms() if a in iv}

    def _nested_atoms(self, at, seen=None):
        """All atoms reachable inside an atom's definition."""
        seen = seen if seen is not None else set()
        iv = getattr(self, 'inv_of', {})
        subs = set()
        if at in iv:
            subs = iv[at].atoms()
        elif at in self.sqrt_of:
            subs = self.sqrt_of[at].atoms()
        elif at in self.sin_arg:
            subs = self.sin_arg[at].n.atoms()
        elif at in self.cos_arg:
            subs = self.cos_arg[at].n.atoms()
        elif at in self.inverse and at.startswith('inv('):
            subs = {self.inverse[at]}
        elif at in getattr(self, 'func_arg', {}):
            subs = set()
            for a_ in self.func_arg[at][1]:
                subs |= a_.n.atoms()
        for s_ in subs:
            if s_ not in seen:
                seen.add(s_)
                self._nested_atoms(s_, seen)
        return seen

    def clear(self, p, limit=40):
        """Multiply a polynomial through by the denominators of its inv(P) atoms."""
        iv = getattr(self, 'inv_of', {})
        for _ in range(limit):
            inv_atoms = self._inv_atoms_in(p)
            if p.is_zero():
                return p
            if not inv_atoms:
                # single-atom reciprocals inv(a): multiply through by a^k
                singles = sorted(a for a in p.atoms() if a.startswith('inv(') and
                                 a in self.inverse and a not in iv)
                if not singles:
                    return p
                pick = singles[0]
                base = self.p_atom(self.inverse[pick])
                k = max(dict(m).get(pick, 0) for m in p.t)
                pows = {0: self.p_const(1)}
                for j in range(1, k + 1):
                    pows[j] = self.p_mul(pows[j - 1], base)
                groups = {}
                for m, c in p.t.items():
                    j = dict(m).get(pick, 0)
                    rest = tuple((x, q) for x, q in m if x != pick)
                    groups.setdefault(j, {})[rest] = c
                out = Poly()
                for j, t in groups.items():
                    out = self.p_add(out, self.p_mul(Poly(t), pows[k - j]))
                p = out
                continue
            # outermost first: not nested inside another present inv atom
            pick = None
            for a in sorted(inv_atoms):
                if not any(a in self._nested_atoms(b) for b in inv_atoms if b != a):
                    pick = a
                    break
            if pick is None:
                pick = sorted(inv_atoms)[0]
            P = iv[pick]
            k = max(dict(m).get(pick, 0) for m in p.t)
            pows = {0: self.p_const(1)}
            for j in range(1, k + 1):
                pows[j] = self.p_mul(pows[j - 1], P)
            groups = {}
            for m, c in p.t.items():
                j = dict(m).get(pick, 0)
                rest = tuple((x, q) for x, q in m if x != pick)
                groups.setdefault(j, {})[rest] = c
            out = Poly()
            for j, t in groups.items():
                out = self.p_add(out, self.p_mul(Poly(t), pows[k - j]))
            p = out
        raise ValueError('denominator clearing did not terminate')

    def is_zero(self, a):
        if a.n.is_zero():
            return True
        return self.clear(a.n).is_zero()

    def eq(self, a, b):
        return self.is_zero(self.sub(a, b))

    # ------------------------------------------------- numeric refutation of an identity
    def numeval(self, a, rnd):
        """Value of a normal form at a random point (atoms -> floats; structured atoms are
        evaluated from their definitions).  Used only to REFUTE identities cheaply: a sum that
        is far from zero relative to the size of its terms is not identically zero.  Returns
        (value, sum of |terms|); raises ValueError outside the real domain."""
        import math as _m
        iv = getattr(self, 'inv_of', {})
        fa = getattr(self, 'func_arg', {})
        memo = {}

        def val_poly(p):
            tot, mag = 0.0, 0.0
            for m, c in p.t.items():
                t = float(c)
                for at, pw in m:
                    t *= atom(at) ** pw
                tot += t
                mag += abs(t)
            return tot, mag

        def atom(at):
            if at in memo:
                return memo[at]
            if at == self.R2D:
                v = 1.0 / atom(self.D2R)
            elif at in self.sin_arg:
                v = _m.sin(val_poly(self.sin_arg[at].n)[0])
            elif at in self.cos_arg:
                v = _m.cos(val_poly(self.cos_arg[at].n)[0])
            elif at in self.sqrt_of:
                r = val_poly(self.sqrt_of[at])[0]
                if r < 0:
                    raise ValueError('negative radicand')
                v = _m.sqrt(r)
            elif at in iv:
                r = val_poly(iv[at])[0]
                if abs(r) < 1e-9:
                    raise ValueError('pole')
                v = 1.0 / r
            elif at.startswith('inv(') and at in self.inverse:
                r = atom(self.inverse[at])
                if abs(r) < 1e-9:
                    raise ValueError('pole')
                v = 1.0 / r
            elif at in fa:
                fn_, args_ = fa[at]
                xs = [val_poly(x.n)[0] for x in args_]
                try:
                    v = {'arcsin': _m.asin, 'arccos': _m.acos, 'arctan': _m.atan,
                         'arctan2': _m.atan2, 'exp': _m.exp, 'log': _m.log}[fn_](*xs)
                except KeyError:
                    v = rnd(at)
            else:
                v = rnd(at)
            memo[at] = v
            return v
        return val_poly(a.n)

    def refuted(self, a, b=None, trials=3):
        """True only if a (or a - b) is certainly not identically zero."""
        import random as _r
        if getattr(self, 'trunc', None) is not None:
            return False
        d = a if b is None else self.sub(a, b)
        if d.n.is_zero():
            return False
        for k in range(trials * 4):
            g = _r.Random(1234 + k)
            table = {}

            def rnd(at, g=g, table=table):
                if at not in table:
                    table[at] = g.uniform(0.15, 0.55)
                return table[at]
            try:
                v, mag = self.numeval(d, rnd)
            except (ValueError, OverflowError, ZeroDivisionError):
                continue
            return mag > 0 and abs(v) > 1e-7 * mag
        return False

    def transfer(self, a, B, amap, on_div=None):
        """Re-evaluate a normal form in another algebra B (same interface): atoms in `amap` take
        the given B-values, structured atoms (sin/cos/sqrt/reciprocal) are rebuilt from their
        arguments; any other atom raises ValueError.  `on_div(d)` sees every divisor."""
        iv = getattr(self, 'inv_of', {})
        memo = {}

        def poly(p):
            tot = B.const(0)
            for m, c in p.t.items():
                t = B.const(c)
                for at, pw in m:
                    t = B.mul(t, B.powi(atom(at), pw))
                tot = B.add(tot, t)
            return tot

        def atom(at):
            if at in memo:
                return memo[at]
            if at in amap:
                v = amap[at]
            elif at in self.sin_arg:
                v = B.sin(poly(self.sin_arg[at].n))
            elif at in self.cos_arg:
                v = B.cos(poly(self.cos_arg[at].n))
            elif at in self.sqrt_of:
                v = B.sqrt(poly(self.sqrt_of[at]))
            elif at in iv:
                d = poly(iv[at])
                if on_div:
                    on_div(d)
                v = B.div(B.const(1), d)
            elif at.startswith('inv(') and at in self.inverse:
                d = atom(self.inverse[at])
                if on_div:
                    on_div(d)
                v = B.div(B.const(1), d)
            else:
                raise ValueError('atom %s has no image in the target algebra' % at)
            memo[at] = v
            return v
        return poly(a.n)

    def is_const(self, a):
        return a.n.is_const()

    def const_of(self, a):
        return a.n.const_value()

    def key(self, a):
        return a.n.key()

    # ------------------------------------------------------------- functions
    def sqrt(self, a):
        if self.is_const(a):
            c = self.const_of(a)
            if c >= 0:
                for v in (c.numerator, c.denominator):
                    r = math.isqrt(v)
                    if r * r != v:
                        break
                else:
                    return self.const(Fraction(math.isqrt(c.numerator),
                                               math.isqrt(c.denominator)))
        p = a.n
        if self._inv_atoms_in(p) or any(x.startswith('inv(') for x in p.atoms()):
            # sqrt(n / d): only the monomial case sqrt(c * prod a^2k * inv(b)^2k)
            if not (len(p.t) == 1):
                # a quotient under the root: kept as an opaque root atom (sqrt(q)^2 -> q)
                name = 'sqrt(%s)' % p.key()
                self.sqrt_of[name] = p
                return Rat(self.p_atom(name), self.p_const(1))
        # sqrt(1 - sin(u)^2) -> cos(u)
        if len(p.t) == 2 and p.t.get(()) == 1:
            (m, c), = [(m, c) for m, c in p.t.items() if m != ()]
            if c == -1 and len(m) == 1 and m[0][1] == 2 and m[0][0] in self.sin_arg:
                return self.cos(self.sin_arg[m[0][0]])
        # sqrt(M - M sin(u)^2) -> sqrt(M) cos(u) for a monomial M (same convention)
        if len(p.t) == 2:
            (m1, c1), (m2, c2) = sorted(p.t.items(), key=lambda kv: len(kv[0]))
            if c1 == -c2 and c1 > 0:
                d1, d2 = dict(m1), dict(m2)
                extra = {k: d2.get(k, 0) - d1.get(k, 0) for k in set(d1) | set(d2)}
                extra = {k: v_ for k, v_ in extra.items() if v_}
                if len(extra) == 1:
                    (sa, pw), = extra.items()
                    if pw == 2 and sa in self.sin_arg and m1 != ():
                        root = self.sqrt(self._r(Poly({m1: c1})))
                        if not any(x.startswith('sqrt(') and self.sqrt_of.get(x) is not None
                                   and self.sqrt_of[x].t == {m1: c1} for x in root.n.atoms()):
                            return self.mul(root, self.cos(self.sin_arg[sa]))
        # perfect square monomial: sqrt(c * x^2k) = sqrt(c) * |x|^k ; the absolute value is
        # dropped only for atoms known to be non-negative (square roots, positive constants)
        if len(p.t) == 1:
            (m, c), = p.t.items()
            if c > 0 and m != () and all(pw % 2 == 0 for _, pw in m):
                cr = self.sqrt(self.const(c))
                if self.is_const(cr):
                    out = self.const(self.const_of(cr))
                    for a_, pw in m:
                        base = self._r(self.p_atom(a_))
                        if not self._nonneg(a_):
                            nm = 'abs(%s)' % a_
                            self.sqrt_of[nm] = self.p_mul(self.p_atom(a_), self.p_atom(a_))
                            base = self._r(self.p_atom(nm))
                        out = self.mul(out, self.powi(base, pw // 2))
                    return out
        name = 'sqrt(%s)' % p.key()
        self.sqrt_of[name] = p
        return Rat(self.p_atom(name), self.p_const(1))

    def _quarter_turns(self, a):
        """Split a = rest + k * 90 * D2R  (k integer) -> (rest, k) or (a, 0)."""
        m = ((self.D2R, 1),)
        c = a.n.t.get(m)
        if c is not None and c % 90 == 0:
            t = dict(a.n.t)
            del t[m]
            return self._r(Poly(t)), int(c // 90) % 4
        return a, 0

    def _nonneg(self, at):
        if at.startswith(('sqrt(', 'abs(')):
            return True
        if at.startswith('inv('):
            b = self.inverse.get(at)
            return b is not None and self._nonneg(b)
        if at in getattr(self, 'nonneg', ()):
            return True
        v = self.numeric.get(at)
        return v is not None and v > 0

    def sin(self, a):
        if self.is_zero(a):
            return self.const(0)
        rest, k = self._quarter_turns(a)
        if k:
            return [None, self.cos(rest), self.neg(self.sin(rest)),
                    self.neg(self.cos(rest))][k]
        k = self.key(a)
        # odd function: canonical sign
        nk = self.key(self.neg(a))
        if k < nk:
            return self.neg(self.sin(self.neg(a)))
        name = 'sin(%s)' % k
        self.sin_arg[name] = a
        return Rat(self.p_atom(name), self.p_const(1))

    def cos(self, a):
        if self.is_zero(a):
            return self.const(1)
        rest, k = self._quarter_turns(a)
        if k:
            return [None, self.neg(self.sin(rest)), self.neg(self.cos(rest)),
                    self.sin(rest)][k]
        k = self.key(a)
        nk = self.key(self.neg(a))
        if k < nk:
            return self.cos(self.neg(a))
        name = 'cos(%s)' % k
        s = self.sin(a)
        # s is +sin atom (canonical sign chosen above so it is a bare atom)
        (m, c), = s.n.t.items()
        self.cos_sin[name] = m[0][0]
        self.cos_arg[name] = a
        return Rat(self.p_atom(name), self.p_const(1))

    def tan(self, a):
        return self.div(self.sin(a), self.cos(a))

    def deg2rad(self, a):
        return self.mul(a, self.sym(self.D2R))

    def rad2deg(self, a):
        return self.mul(a, self.sym(self.R2D))

    def call_atom(self, text):
        return Rat(self.p_atom(text), self.p_const(1))

    def func(self, fname, *args):
        """uninterpreted real function of normal-form arguments (arcsin, arctan2, ...):
        an atom whose arguments take part in substitution."""
        name = '%s(%s)' % (fname, ', '.join(self.key(a) for a in args))
        if not hasattr(self, 'func_arg'):
            self.func_arg = {}
        self.func_arg[name] = (fname, list(args))
        return Rat(self.p_atom(name), self.p_const(1))

    # --------------------------------------------------------- substitutions
    def subst(self, a, mapping):
        """Substitute atoms by values (mapping atom -> Rat), also inside the arguments
        of sin/cos/sqrt/inv atoms."""
        iv = getattr(self, 'inv_of', {})
        cache = {}

        def atom_val(at):
            if at in cache:
                return cache[at]
            if at in mapping:
                v = mapping[at]
            elif not self._atom_touches(at, mapping):
                v = self._r(self.p_atom(at))
            elif at in self.sin_arg:
                v = self.sin(self.subst(self.sin_arg[at], mapping))
            elif at in self.cos_arg:
                v = self.cos(self.subst(self.cos_arg[at], mapping))
            elif at in self.sqrt_of:
                v = self.sqrt(self.subst(self._r(self.sqrt_of[at]), mapping))
            elif at in iv:
                v = self.recip(self.subst(self._r(iv[at]), mapping))
            elif at.startswith('inv(') and at in self.inverse:
                v = self.recip(atom_val(self.inverse[at]))
            elif at in getattr(self, 'func_arg', {}):
                fn_, args_ = self.func_arg[at]
                v = self.func(fn_, *[self.subst(a_, mapping) for a_ in args_])
            else:
                v = self._r(self.p_atom(at))
            cache[at] = v
            return v

        out = Poly()
        for m, c in a.n.t.items():
            term = self.p_const(c)
            for at, pw in m:
                term = self.p_mul(term, self.p_pow(atom_val(at).n, pw))
            out = self.p_add(out, term)
        return self._r(out)

    def _atom_touches(self, at, mapping):
        if at in mapping:
            return True
        return any(x in mapping for x in self._nested_atoms(at))

    def _touches(self, r, mapping):
        return any(self._atom_touches(x, mapping) for x in r.n.atoms())

    def degree_split(self, a, atom):
        """For a polynomial value (constant denominator): {power of atom: Rat}."""
        for x in a.n.atoms():
            if x != atom and atom in self._nested_atoms(x):
                raise ValueError('degree_split: %s occurs inside %s' % (atom, x))
        out = {}
        dc = Fraction(1)
        for m, c in a.n.t.items():
            pw = dict(m).get(atom, 0)
            rest = tuple((x, p) for x, p in m if x != atom)
            out.setdefault(pw, {})[rest] = c / dc
        return {k: Rat(Poly(v), self.p_const(1)) for k, v in out.items()}

    def coeff(self, a, atom):
        """Coefficient of `atom`^1 in a value that is linear in atom (polynomial part)."""
        return self.degree_split(a, atom).get(1, self.const(0))

    def atoms_of(self, a):
        return a.n.atoms()

    def series1(self, a, eps):
        """First two Maclaurin coefficients (c0, c1) in atom `eps`."""
        d = self.degree_split(a, eps)
        return d.get(0, self.const(0)), d.get(1, self.const(0))

    # ---------------------------------------------------------- differentiation
    def diff(self, a, x):
        """Partial derivative with respect to atom x (chain rule through sin, cos, sqrt,
        inv atoms; every other atom is an independent variable)."""
        iv = getattr(self, 'inv_of', {})
        cache = {}

        def d_atom(at):
            if at in cache:
                return cache[at]
            if at == x:
                r = self.const(1)
            elif x not in self._nested_atoms(at):
                r = self.const(0)
            elif at in self.sin_arg:
                r = self.mul(self.cos(self.sin_arg[at]), self.diff(self.sin_arg[at], x))
            elif at in self.cos_arg:
                r = self.neg(self.mul(self.sin(self.cos_arg[at]),
                                      self.diff(self.cos_arg[at], x)))
            elif at in self.sqrt_of:
                p = self._r(self.sqrt_of[at])
                r = self.div(self.diff(p, x), self.mul(self.const(2), self._r(self.p_atom(at))))
            elif at in iv:
                p = self._r(iv[at])
                me = self._r(self.p_atom(at))
                r = self.neg(self.mul(self.mul(me, me), self.diff(p, x)))
            elif at.startswith('inv(') and at in self.inverse:
                me = self._r(self.p_atom(at))
                r = self.neg(self.mul(self.mul(me, me), d_atom(self.inverse[at])))
            elif at in getattr(self, 'func_arg', {}):
                fn_, args_ = self.func_arg[at]
                one = self.const(1)
                if fn_ == 'arctan2' and len(args_) == 2:
                    y_, x_ = args_
                    den = self.add(self.mul(x_, x_), self.mul(y_, y_))
                    r = self.div(self.sub(self.mul(x_, self.diff(y_, x)),
                                          self.mul(y_, self.diff(x_, x))), den)
                elif fn_ == 'arctan' and len(args_) == 1:
                    r = self.div(self.diff(args_[0], x),
                                 self.add(one, self.mul(args_[0], args_[0])))
                elif fn_ in ('arcsin', 'arccos') and len(args_) == 1:
                    r = self.div(self.diff(args_[0], x),
                                 self.sqrt(self.sub(one, self.mul(args_[0], args_[0]))))
                    if fn_ == 'arccos':
                        r = self.neg(r)
                elif fn_ == 'exp' and len(args_) == 1:
                    r = self.mul(self._r(self.p_atom(at)), self.diff(args_[0], x))
                elif fn_ == 'log' and len(args_) == 1:
                    r = self.div(self.diff(args_[0], x), args_[0])
                elif fn_ == 'wrap180' and len(args_) == 1:
                    # W(u) = u + 360 k with k locally constant (away from the jump)
                    r = self.diff(args_[0], x)
                else:
                    raise ValueError('derivative of %s unknown' % fn_)
            else:
                r = self.const(0)
            cache[at] = r
            return r
        out = Poly()
        for m, c in a.n.t.items():
            for i, (at, pw) in enumerate(m):
                da = d_atom(at)
                if da.n.is_zero():
                    continue
                rest = list(m)
                if pw == 1:
                    del rest[i]
                else:
                    rest[i] = (at, pw - 1)
                term = self.p_mul(Poly({tuple(rest): c * pw}), da.n)
                out = self.p_add(out, term)
        return self._r(out)


class EpsAlg(Alg):
    """Alg computing modulo eps^(order+1) in one small atom: products are truncated (Alg.trunc)
    and reciprocals / square roots of values that depend on eps are expanded as binomial series
    around their eps = 0 part, so eps never ends up inside an inv(...) or sqrt(...) atom."""

    def __init__(self, eps, order):
        Alg.__init__(self)
        self.eps = eps
        self.order = order
        self.trunc = (eps, order)

    def _split(self, a):
        try:
            d = self.degree_split(a, self.eps)
        except ValueError:
            return None
        if not any(k > 0 for k in d):
            return None
        p0 = d.get(0)
        if p0 is None or p0.n.is_zero():
            raise ValueError('series in %s without a constant term' % self.eps)
        rest = self.sub(a, p0)
        return p0, rest

    def recip(self, b):
        sp = self._split(b)
        if sp is None:
            return Alg.recip(self, b)
        p0, rest = sp
        i0 = Alg.recip(self, p0)
        x = self.mul(rest, i0)
        out, term = self.const(1), self.const(1)
        for k in range(1, self.order + 1):
            term = self.neg(self.mul(term, x))
            out = self.add(out, term)
        return self.mul(i0, out)

    def sqrt(self, a):
        sp = self._split(a)
        if sp is None:
            return Alg.sqrt(self, a)
        p0, rest = sp
        r0 = Alg.sqrt(self, p0)
        x = self.mul(rest, Alg.recip(self, p0))
        out, term, coef = self.const(1), self.const(1), Fraction(1)
        for k in range(1, self.order + 1):
            coef = coef * (Fraction(1, 2) - (k - 1)) / k
            term = self.mul(term, x)
            out = self.add(out, self.mul(self.const(coef), term))
        return self.mul(r0, out)
