"""E2 - normalising evaluation of straight-line numeric code into N1 normal forms.

`SymEval` rebuilds, from the syntax tree, the expression every local holds (use-def
closure by forward substitution) and keeps it in the canonical form of `nf.Alg`.
Branches whose test is not a constant are evaluated arm by arm and joined (a local that
differs becomes a fresh phi-atom); loops with a constant trip count are unrolled, other
loops are evaluated for one generic iteration.  There are no path conditions and no
solver: this is value numbering with a strong normaliser.
"""
import ast
import re
from fractions import Fraction

from .model import FunctionInfo, ClassInfo, AnalysisError, norm_text
from .nf import Rat, Alg, frac


class Unsupported(Exception):
    pass


class RuntimeFailure(Unsupported):
    """The analysed statement raises at run time for the evaluated call form (a fact about the
    code, not a limit of the evaluator)."""


#: every run-time failure met while evaluating analysed code (props.run reports them when no
#: rule turned them into a finding of its own and the run would otherwise end as analysis error)
RUNTIME_FAILURES = []


class BroadcastError(RuntimeFailure):
    """Two arrays of known shape that numpy itself cannot broadcast: the statement raises
    ValueError at run time (a fact about the analysed code, not a limit of the evaluator)."""


#: documented domains of the state atoms the rules use (degrees); np.clip consults them
DOMAINS = {'pitch': (-90, 90), 'lat': (-90, 90), 'roll': (-360, 360), 'heading': (-360, 360),
           'lon': (-360, 360), 'alt': (0, 20000)}

#: repository functions that were used through a summary instead of being inlined; the rules
#: that establish each summary are run by props.run whenever it was used
SUMMARY_USED = set()
WRAP = 'wrap180'


def wrap_atoms(A, x):
    fa = getattr(A, 'func_arg', {})
    return [a for a in A.atoms_of(x) if a in fa and fa[a][0] == WRAP]


def strip_wraps(A, x):
    """W(y) -> y wherever W(y) enters linearly with an integer coefficient (W(y) = y + 360 k)"""
    for _ in range(4):
        mp = {}
        for a in wrap_atoms(A, x):
            try:
                ds = A.degree_split(x, a)
            except ValueError:
                continue
            c = ds.get(1)
            if set(ds) <= {0, 1} and c is not None and A.is_const(c) and \
                    A.const_of(c).denominator == 1:
                mp[a] = A.func_arg[a][1][0]
        if not mp:
            break
        x = A.subst(x, mp)
    return x


def wrap180(A, x):
    """Summary of util.to_180_range (established by the WRAP-* rules): W(x) is congruent to x
    modulo 360 and is the identity near 0.  So an inner reduction is absorbed by an outer one,
    and the reduction of a quantity that vanishes with the perturbation parameter '@e' is that
    quantity; anything else stays an uninterpreted W(x)."""
    if not hasattr(A, 'func'):
        raise Unsupported('angle reduction in an algebra without uninterpreted functions')
    x = strip_wraps(A, x)
    if '@e' in A.atoms_of(x) and A.is_zero(A.subst(x, {'@e': A.const(0)})):
        return x
    return A.func(WRAP, x)


class Opaque:
    def __init__(self, tag, *parts):
        self.tag, self.parts = tag, parts

    def __repr__(self):
        return 'Opaque(%s)' % self.tag


UNK = Opaque('unknown')


class SArray:
    """Small dense array of normal forms.  `sample`: has a leading per-sample axis
    that is not represented (vectorised code is evaluated for the generic sample)."""

    def __init__(self, shape, entries=None, default=None, sample=False):
        self.shape = tuple(shape)
        self.entries = entries if entries is not None else {}
        self.default = default
        self.sample = sample

    def indices(self):
        def rec(dims):
            if not dims:
                yield ()
                return
            for i in range(dims[0]):
                for r in rec(dims[1:]):
                    yield (i,) + r
        return rec(self.shape)

    def get(self, idx):
        v = self.entries.get(idx)
        if v is None:
            if self.default is None:
                if getattr(self, 'from_empty', False):
                    # allocated by np.empty in the analysed code and never written: the program
                    # reads whatever the memory holds
                    raise RuntimeFailure('read of element %s of an np.empty array that was never '
                                         'written (uninitialised memory)' % (list(idx),))
                raise Unsupported('read of uninitialised array element %s' % (idx,))
            return self.default
        return v

    def copy(self):
        return SArray(self.shape, dict(self.entries), self.default, self.sample)

    @property
    def ndim(self):
        return len(self.shape) + (1 if self.sample else 0)

    def __repr__(self):
        return 'SArray%s%s' % (self.shape, '+s' if self.sample else '')


class PArr:
    """Parameter array indexed by symbolic rows: name[row-expr, ...trail]."""

    def __init__(self, name, trail):
        self.name, self.trail = name, tuple(trail)
        self.stores = {}      # (rowkey, idx...) -> value
        self.reload_atoms = False   # a load of a just-stored element returns an atom
        self.store_log = []   # (rowkey, idx, value, node)
        self.load_log = []    # (rowkey, idx, node)
        self.events = []      # ('load' | 'store', rowkey, idx) in program order


class Rec:
    """Row of a table (pandas Series) or a generic-sample DataFrame: column -> value."""

    def __init__(self, cols, kind='series', name=None, index=None):
        self.cols, self.kind, self.name, self.index = cols, kind, name, index


class Obj:
    def __init__(self, cls, attrs=None):
        self.cls, self.attrs = cls, attrs or {}


class Bound:
    def __init__(self, obj, fn):
        self.obj, self.fn = obj, fn


class _Return(Exception):
    def __init__(self, v):
        self.v = v


UFUNCS = {'numpy.sin': 'sin', 'numpy.cos': 'cos', 'numpy.tan': 'tan',
          'numpy.sqrt': 'sqrt', 'numpy.deg2rad': 'deg2rad', 'numpy.rad2deg': 'rad2deg',
          'numpy.radians': 'deg2rad', 'numpy.degrees': 'rad2deg',
          'math.sin': 'sin', 'math.cos': 'cos', 'math.tan': 'tan', 'math.sqrt': 'sqrt',
          'math.radians': 'deg2rad', 'math.degrees': 'rad2deg'}
IDENT = {'numpy.asarray', 'numpy.ascontiguousarray', 'numpy.atleast_1d', 'numpy.array',
         'numpy.asanyarray', 'builtins.float', 'numpy.require', 'numpy.asarray_chkfinite',
         'numpy.asfarray'}


class SymEval:
    def __init__(self, repo, alg=None, types=None, hooks=None, inline_depth=4,
                 names_as_atoms=False, const_symbolic=True):
        self.repo = repo
        self.A = alg or Alg()
        self.types = types
        self.hooks = hooks
        self.inline_depth = inline_depth
        self.names_as_atoms = names_as_atoms
        self.const_symbolic = const_symbolic
        self.depth = 0
        self.last_env = None
        self.phi_count = 0
        self.trace = []
        self.defs = {}         # names_as_atoms: atom -> defining value
        self.global_arrays = {}   # fq -> the one evaluated module/class-level array
        self.stacked = False      # True: per-sample scalars are 1-D arrays (ndim 1, len n)
        self.def_node = {}     # atom -> statement node
        self.versions = {}

    # ---------------------------------------------------------------- values
    def rat(self, v):
        if isinstance(v, Rat):
            return v
        if isinstance(v, bool):
            return self.A.const(int(v))
        if isinstance(v, (int, float, Fraction)):
            return self.A.const(v)
        raise Unsupported('not a scalar: %r' % (v,))

    def is_scalar(self, v):
        return isinstance(v, (Rat, int, float, Fraction)) and not isinstance(v, bool) \
            or isinstance(v, bool)

    def pyconst(self, v):
        """Python constant -> evaluator value."""
        if isinstance(v, (str, bool)) or v is None:
            return v
        if isinstance(v, (int, float)):
            return v
        if type(v).__name__ == 'NPArray':
            return self.to_array(list(v))
        if isinstance(v, (list, tuple)):
            return [self.pyconst(x) for x in v]
        if isinstance(v, dict):
            return {k: self.pyconst(x) for k, x in v.items()}
        return v

    def to_array(self, v):
        """Nested python lists of scalars -> SArray."""
        if isinstance(v, SArray):
            return v
        if isinstance(v, Rec):
            return SArray((len(v.cols),), {(i,): self.rat(x) for i, x in
                                            enumerate(v.cols.values())}, None,
                          v.kind == 'frame')
        if isinstance(v, (list, tuple)):
            if v and all(isinstance(x, (list, tuple, SArray)) for x in v):
                subs = [self.to_array(x) for x in v]
                shp = subs[0].shape
                arr = SArray((len(v),) + shp, {})
                for i, s in enumerate(subs):
                    if s.shape != shp:
                        raise Unsupported('ragged list')
                    for idx in s.indices():
                        arr.entries[(i,) + idx] = s.get(idx)
                return arr
            arr = SArray((len(v),), {})
            for i, x in enumerate(v):
                arr.entries[(i,)] = self.rat(x)
            return arr
        raise Unsupported('not array-like: %r' % (v,))

    def emap(self, f, *vals):
        """Element-wise operation with scalar broadcasting (and trailing-axis
        broadcasting of a vector against a matrix)."""
        arrs = [v for v in vals if isinstance(v, SArray)]
        if not arrs:
            return f(*[self.rat(v) for v in vals])
        shape = max((a.shape for a in arrs), key=len)
        for a in arrs:
            if a.shape != shape and a.shape != shape[len(shape) - len(a.shape):] \
                    and a.shape != (1,) * len(a.shape):
                if all(isinstance(d, int) for d in a.shape + shape) and any(
                        x != y and x != 1 and y != 1
                        for x, y in zip(reversed(a.shape), reversed(shape))):
                    raise BroadcastError('operands of shapes %s and %s cannot be broadcast '
                                         'together' % (a.shape, shape))
                raise Unsupported('shape mismatch %s vs %s' % (a.shape, shape))
        out = SArray(shape, {}, None, any(a.sample for a in arrs))
        for idx in out.indices():
            args = []
            for v in vals:
                if isinstance(v, SArray):
                    if v.shape == shape:
                        args.append(v.get(idx))
                    elif all(s == 1 for s in v.shape):
                        args.append(v.get((0,) * len(v.shape)))
                    else:
                        args.append(v.get(idx[len(shape) - len(v.shape):]))
                else:
                    args.append(self.rat(v))
            out.entries[idx] = f(*args)
        # labels of a pandas selection survive element-wise arithmetic between equally
        # labelled operands (and scalars)
        labels = {tuple(getattr(a, 'colnames', ())) for a in arrs if a.shape == shape}
        if len(labels) == 1 and next(iter(labels)):
            out.colnames = list(next(iter(labels)))
        elif len([l for l in labels if l]) > 1:
            # pandas aligns on labels: differently labelled operands give the union, all NaN
            out.label_conflict = sorted(l for l in labels if l)
        return out

    def matmul(self, a, b):
        a, b = self.to_array(a), self.to_array(b)
        A = self.A
        if len(a.shape) == 2 and len(b.shape) == 2:
            if a.shape[1] != b.shape[0]:
                if all(isinstance(d_, int) for d_ in a.shape + b.shape):
                    raise BroadcastError('matmul: inner dimensions of %s and %s differ'
                                         % (a.shape, b.shape))
                raise Unsupported('matmul shapes %s %s' % (a.shape, b.shape))
            out = SArray((a.shape[0], b.shape[1]), {}, None, a.sample or b.sample)
            for i in range(a.shape[0]):
                for j in range(b.shape[1]):
                    s = A.const(0)
                    for k in range(a.shape[1]):
                        s = A.add(s, A.mul(a.get((i, k)), b.get((k, j))))
                    out.entries[(i, j)] = s
            return out
        if len(a.shape) == 2 and len(b.shape) == 1:
            if a.shape[1] != b.shape[0]:
                if all(isinstance(d_, int) for d_ in a.shape + b.shape):
                    raise BroadcastError('matrix-vector product: inner dimensions of %s and %s '
                                         'differ' % (a.shape, b.shape))
                raise Unsupported('matvec shapes %s %s' % (a.shape, b.shape))
            out = SArray((a.shape[0],), {}, None, a.sample or b.sample)
            for i in range(a.shape[0]):
                s = A.const(0)
                for k in range(a.shape[1]):
                    s = A.add(s, A.mul(a.get((i, k)), b.get((k,))))
                out.entries[(i,)] = s
            return out
        if len(a.shape) == 1 and len(b.shape) == 2:
            out = SArray((b.shape[1],), {}, None, a.sample or b.sample)
            for j in range(b.shape[1]):
                s = A.const(0)
                for k in range(a.shape[0]):
                    s = A.add(s, A.mul(a.get((k,)), b.get((k, j))))
                out.entries[(j,)] = s
            return out
        if len(a.shape) == 1 and len(b.shape) == 1:
            s = A.const(0)
            for k in range(a.shape[0]):
                s = A.add(s, A.mul(a.get((k,)), b.get((k,))))
            return s
        raise Unsupported('matmul ranks')

    def einsum(self, spec, a, b):
        spec = spec.replace(' ', '')
        ins, out = spec.split('->')
        ia, ib = ins.split(',')
        a, b = self.to_array(a), self.to_array(b)
        ia, ib, out = ia.replace('...', ''), ib.replace('...', ''), out.replace('...', '')
        if len(ia) != len(a.shape) or len(ib) != len(b.shape):
            raise Unsupported('einsum ranks %s %s vs %s %s' % (ia, ib, a.shape, b.shape))
        dims = {}
        for letters, arr in ((ia, a), (ib, b)):
            for l, d in zip(letters, arr.shape):
                if dims.setdefault(l, d) != d:
                    if isinstance(d, int) and isinstance(dims[l], int) and 1 not in (d, dims[l]):
                        raise BroadcastError('einsum: operands disagree on the length of axis '
                                             "'%s' (%s vs %s)" % (l, dims[l], d))
                    raise Unsupported('einsum dimension mismatch on %s' % l)
        summed = [l for l in dims if l not in out]
        A = self.A
        res = SArray(tuple(dims[l] for l in out), {}, None, a.sample or b.sample)

        def rec(letters, assign):
            if not letters:
                yield dict(assign)
                return
            for i in range(dims[letters[0]]):
                assign[letters[0]] = i
                yield from rec(letters[1:], assign)
        for oidx in res.indices():
            base = dict(zip(out, oidx))
            s = A.const(0)
            for asg in rec(summed, dict(base)):
                s = A.add(s, A.mul(a.get(tuple(asg[l] for l in ia)),
                                   b.get(tuple(asg[l] for l in ib))))
            res.entries[oidx] = s
        if not out:
            return res.entries[()]
        return res

    def transpose(self, a):
        if not isinstance(a, SArray):
            return a
        if getattr(a, 'stacked_rows', False):
            return SArray(a.shape, dict(a.entries), a.default, True)
        if len(a.shape) == 1:
            return a
        if len(a.shape) == 2:
            return SArray((a.shape[1], a.shape[0]),
                          {(j, i): v for (i, j), v in a.entries.items()},
                          a.default, a.sample)
        raise Unsupported('transpose rank')

    def reshape(self, a, dims):
        """only reshapes that add / drop unit axes (or name the sample axis -1) are modelled"""
        dims = list(dims)
        for i, d in enumerate(dims):
            if isinstance(d, Rat) and self.A.is_const(d):
                dims[i] = int(self.A.const_of(d))
        if a.sample:
            if not dims or not (dims[0] == -1 or not isinstance(dims[0], int)):
                raise Unsupported('reshape of a stacked array to %r' % (dims,))
            dims = dims[1:]
        if not all(isinstance(d, int) for d in dims):
            raise Unsupported('reshape to %r' % (dims,))
        core_new = [d for d in dims if d != 1]
        core_old = [d for d in a.shape if d != 1]
        if -1 in core_new and len(core_new) == 1 and len(core_old) <= 1:
            core_new = core_old
            dims = [core_old[0] if d == -1 else d for d in dims] if core_old else \
                [1 if d == -1 else d for d in dims]
        if core_new != core_old:
            raise Unsupported('reshape %r -> %r changes the element layout' % (a.shape, dims))
        out = SArray(tuple(dims), {}, a.default, a.sample)
        keep_old = [k for k, d in enumerate(a.shape) if d != 1]
        keep_new = [k for k, d in enumerate(dims) if d != 1]
        for idx, v in a.entries.items():
            j = [0] * len(dims)
            for ko, kn in zip(keep_old, keep_new):
                j[kn] = idx[ko]
            out.entries[tuple(j)] = v
        return out

    def permute(self, a, axes):
        """np.transpose(a, axes): the (unrepresented) sample axis must stay in front"""
        if not isinstance(a, SArray):
            return a
        if not isinstance(axes, (list, tuple)) or not all(isinstance(x, int) for x in axes):
            raise Unsupported('transpose axes %r' % (axes,))
        axes = [x + a.ndim if x < 0 else x for x in axes]
        if sorted(axes) != list(range(a.ndim)):
            raise Unsupported('transpose axes %r for %d dimensions' % (axes, a.ndim))
        if a.sample:
            if axes[0] != 0:
                raise Unsupported('transpose moves the sample axis')
            perm = [x - 1 for x in axes[1:]]
        else:
            perm = axes
        shape = tuple(a.shape[p] for p in perm)
        out = SArray(shape, {}, a.default, a.sample)
        for idx, v in a.entries.items():
            out.entries[tuple(idx[p] for p in perm)] = v
        return out

    def cross(self, a, b):
        a, b = self.to_array(a), self.to_array(b)
        if a.shape != (3,) or b.shape != (3,):
            raise Unsupported('cross shapes')
        A = self.A
        g = lambda v, i: v.get((i,))
        out = SArray((3,), {}, None, a.sample or b.sample)
        for i in range(3):
            j, k = (i + 1) % 3, (i + 2) % 3
            out.entries[(i,)] = A.sub(A.mul(g(a, j), g(b, k)), A.mul(g(a, k), g(b, j)))
        return out

    # ------------------------------------------------------------ entry point
    def call_function(self, f, args, kwargs=None, self_obj=None):
        kwargs = kwargs or {}
        if self.depth > self.inline_depth:
            raise Unsupported('inline depth')
        env = {}
        params = list(f.params)
        if f.cls is not None and not f.is_static:
            if self_obj is None:
                self_obj = Obj(f.cls)
            env[params[0]] = self_obj
            params = params[1:]
        for p, a in zip(params, args):
            env[p] = a
        va = f.node.args.vararg.arg if getattr(f.node.args, 'vararg', None) else None
        if va is not None:
            env[va] = tuple(args[len(params):])
        elif len(args) > len(params):
            raise Unsupported('too many args for %s' % f.fq)
        for k, v in kwargs.items():
            env[k] = v
        for p in params + f.kwonly:
            if p not in env:
                if p in f.defaults:
                    env[p] = self.eval_const_default(f, f.defaults[p])
                else:
                    raise Unsupported('missing argument %s of %s' % (p, f.fq))
        self.depth += 1
        old = getattr(self, 'cur', None)
        self.cur = f
        try:
            try:
                self.exec_block(f.node.body, env)
                ret = None
            except _Return as r:
                ret = r.v
            # values returned early under a condition the analysis could not decide belong to
            # the result: join them in (differing entries become unknowns, so no rule can
            # conclude anything from the fall-through path alone)
            for er in env.get('__early_returns__', ()):
                ret = self.join(ret, er, f.node, 'return')
        finally:
            self.depth -= 1
            self.cur = old
        self.last_env = env
        return ret

    def eval_const_default(self, f, node):
        try:
            return self.pyconst(self.repo.fold(node, f.module, f.cls))
        except ValueError:
            return self.eval(node, {})

    # -------------------------------------------------------------- statements
    def exec_block(self, body, env):
        for st in body:
            self.exec_stmt(st, env)

    def exec_stmt(self, st, env):
        try:
            return self._exec_stmt(st, env)
        except RuntimeFailure as e:
            if not hasattr(e, 'where'):
                e.where = (self.cur, st)        # innermost statement
                RUNTIME_FAILURES.append(e)
            raise

    def _exec_stmt(self, st, env):
        self.last_stmt = (self.cur, st)      # innermost statement being executed (diagnostics)
        if isinstance(st, ast.Expr):
            if isinstance(st.value, ast.Constant):
                return
            self.eval(st.value, env)
        elif isinstance(st, ast.Assign):
            v = self.eval(st.value, env)
            for t in st.targets:
                self.assign(t, v, env, st)
        elif isinstance(st, ast.AugAssign):
            cur = self.eval(self._as_load(st.target), env)
            v = self.binop(st.op, cur, self.eval(st.value, env))
            if isinstance(st.target, ast.Name) and isinstance(cur, SArray) and \
                    isinstance(v, SArray) and v.shape == cur.shape:
                # numpy semantics: `a op= b` on an array updates the object in place, so every
                # other name bound to the same array sees the new values
                cur.entries.clear()
                cur.entries.update(v.entries)
                cur.default = v.default
                cur.sample = cur.sample or v.sample
                if hasattr(cur, 'parr'):
                    pa, row = cur.parr
                    for i in cur.indices():
                        if i in cur.entries:
                            self.store(pa, (row,) + i, cur.entries[i], st)
                return
            if isinstance(st.target, ast.Name) and isinstance(cur, Rec) and isinstance(v, SArray):
                for (i,), c in zip(sorted(v.entries), list(cur.cols)):
                    cur.cols[c] = v.entries[(i,)]
                return
            self.assign(st.target, v, env, st)
        elif isinstance(st, ast.Return):
            raise _Return(self.eval(st.value, env) if st.value else None)
        elif isinstance(st, ast.If):
            self.exec_if(st, env)
        elif isinstance(st, ast.For):
            self.exec_for(st, env)
        elif isinstance(st, ast.Raise):
            raise Unsupported('raise reached: %s' % norm_text(st)[:60])
        elif isinstance(st, ast.Assert):
            t = self.truth(self.eval(st.test, env))
            if t is False:
                raise Unsupported('assert False reached')
        elif isinstance(st, ast.Pass):
            pass
        else:
            raise Unsupported('statement %s' % type(st).__name__)

    def _as_load(self, t):
        t2 = ast.parse(ast.unparse(t), mode='eval').body
        ast.copy_location(t2, t)
        return t2

    def exec_if(self, st, env):
        c = None
        if self.hooks is not None and hasattr(self.hooks, 'branch'):
            c = self.hooks.branch(self, st, env)
        if c is None:
            c = self.truth(self.eval(st.test, env))
        if c is True:
            return self.exec_block(st.body, env)
        if c is False:
            return self.exec_block(st.orelse, env)
        # undecidable: evaluate both arms, join
        if getattr(self, 'mutable_lists', False):
            raise Unsupported('undecided branch `%s` while lists are grown in place'
                              % norm_text(st.test)[:60])
        e1, e2 = dict(env), dict(env)
        r1 = r2 = None
        # arrays that exist before the branch may be written in place by either arm: each arm
        # starts from the state before the branch, and the states after the two arms are joined
        # element by element (the objects keep their identity, so aliases stay aliases).  Before
        # this (sixth session) the second arm ran on what the first arm had left behind, and an
        # in-place store under an undecided test looked unconditional (round-9 seed C13).
        arrs = self._reachable_arrays(env)
        snap = [dict(a.entries) for a in arrs]
        try:
            self.exec_block(st.body, e1)
        except _Return as r:
            r1 = _Return(self._detach(r.v))
        except Unsupported as u:
            if 'raise reached' in str(u) or 'assert False' in str(u):
                r1 = 'dead'
            else:
                raise
        after1 = [dict(a.entries) for a in arrs]
        for a, s0 in zip(arrs, snap):
            a.entries.clear()
            a.entries.update(s0)
        try:
            self.exec_block(st.orelse, e2)
        except _Return as r:
            r2 = r
        except Unsupported as u:
            if 'raise reached' in str(u) or 'assert False' in str(u):
                r2 = 'dead'
            else:
                raise
        if r2 is not None and r1 is None:
            # execution continues from the first arm only
            for a, s1 in zip(arrs, after1):
                a.entries.clear()
                a.entries.update(s1)
        elif r1 is None and r2 is None:
            for a, s1 in zip(arrs, after1):
                for idx in set(s1) | set(a.entries):
                    v1, v2 = s1.get(idx), a.entries.get(idx)
                    if v1 is None or v2 is None:
                        a.entries[idx] = v1 if v2 is None else v2
                    elif v1 is not v2:
                        try:
                            a.entries[idx] = self.join(v1, v2, st, 'elem%s' % (list(idx),))
                        except Unsupported:
                            a.entries.pop(idx, None)
        if r1 is not None and r2 is not None:
            if r1 == 'dead' and r2 == 'dead':
                raise Unsupported('raise reached on both arms')
            if r1 == 'dead':
                raise r2
            if r2 == 'dead':
                raise r1
            raise _Return(self.join(r1.v, r2.v, st, 'return'))
        if r1 is not None:
            env.clear()
            env.update(e2)
            if r1 != 'dead':
                self.trace.append(('early-return', st.lineno))
                env.setdefault('__early_returns__', []).append(r1.v)
            return
        if r2 is not None:
            env.clear()
            env.update(e1)
            if r2 != 'dead':
                env.setdefault('__early_returns__', []).append(r2.v)
            return
        for k in set(e1) | set(e2):
            if k in e1 and k in e2:
                env[k] = self.join(e1[k], e2[k], st, k)
            else:
                env[k] = e1.get(k, e2.get(k))

    def _reachable_arrays(self, env):
        seen, out = set(), []

        def visit(v, depth):
            if id(v) in seen or depth > 3:
                return
            if isinstance(v, SArray):
                seen.add(id(v))
                out.append(v)
            elif isinstance(v, (list, tuple)):
                seen.add(id(v))
                for x in v:
                    visit(x, depth + 1)
            elif isinstance(v, dict):
                seen.add(id(v))
                for x in v.values():
                    visit(x, depth + 1)
            elif isinstance(v, Obj):
                seen.add(id(v))
                for x in v.attrs.values():
                    visit(x, depth + 1)
        for v in env.values():
            visit(v, 0)
        return out

    def _detach(self, v):
        if isinstance(v, SArray):
            c = v.copy()
            for k_, x_ in v.__dict__.items():
                if k_ not in ('shape', 'entries', 'default', 'sample'):
                    setattr(c, k_, x_)
            return c
        if isinstance(v, tuple):
            return tuple(self._detach(x) for x in v)
        if isinstance(v, list):
            return [self._detach(x) for x in v]
        return v

    def join(self, a, b, st, name):
        if a is b:
            return a
        try:
            if self.same(a, b):
                return a
        except Unsupported:
            pass
        if isinstance(a, SArray) and isinstance(b, SArray) and a.shape == b.shape:
            out = SArray(a.shape, {}, None, a.sample or b.sample)
            for idx in out.indices():
                try:
                    out.entries[idx] = self.join(a.get(idx), b.get(idx), st,
                                                 '%s%s' % (name, list(idx)))
                except Unsupported:
                    pass
            return out
        if isinstance(a, (Rat, int, float)) and isinstance(b, (Rat, int, float)) \
                and not isinstance(a, bool) and not isinstance(b, bool):
            self.phi_count += 1
            return self.A.call_atom('phi(%s@%d)' % (name, st.lineno))
        return Opaque('phi', a, b)

    def same(self, a, b):
        if isinstance(a, (Rat, int, float, Fraction)) and isinstance(b, (Rat, int, float, Fraction)) \
                and not isinstance(a, bool) and not isinstance(b, bool):
            return self.A.eq(self.rat(a), self.rat(b))
        if isinstance(a, SArray) and isinstance(b, SArray):
            if a.shape != b.shape:
                return False
            return all(self.same(a.get(i), b.get(i)) for i in a.indices())
        if isinstance(a, (list, tuple)) and isinstance(b, (list, tuple)):
            return len(a) == len(b) and all(self.same(x, y) for x, y in zip(a, b))
        if isinstance(a, (str, bool, type(None))) or isinstance(b, (str, bool, type(None))):
            return a == b
        return a is b

    def exec_for(self, st, env):
        it = self.eval(st.iter, env)
        if isinstance(it, (list, tuple, range)):
            for v in it:
                self.assign(st.target, v, env, st)
                self.exec_block(st.body, env)
            return
        if isinstance(it, Opaque) and it.tag == 'range-sym':
            # one generic iteration with the loop variable as a fresh symbol
            if not isinstance(st.target, ast.Name):
                raise Unsupported('generic loop target')
            # soundness of "one generic iteration": no scalar local may be carried from one
            # iteration to the next (read before it is written in the body, and written in
            # the body) - the generic iteration would see its pre-loop value
            stored_so_far, carried = set(), set()
            all_stored = {n.id for s2 in st.body for n in ast.walk(s2)
                          if isinstance(n, ast.Name) and isinstance(n.ctx, ast.Store)}
            for s2 in st.body:
                loads = {n.id for n in ast.walk(s2)
                         if isinstance(n, ast.Name) and isinstance(n.ctx, ast.Load)}
                if isinstance(s2, ast.AugAssign) and isinstance(s2.target, ast.Name):
                    loads.add(s2.target.id)
                carried |= {x for x in loads if x in all_stored and x not in stored_so_far
                            and x in env and x != st.target.id}
                # a store counts only when unconditional at the top level of the body
                if isinstance(s2, (ast.Assign, ast.AugAssign, ast.AnnAssign)):
                    for t in (s2.targets if isinstance(s2, ast.Assign) else [s2.target]):
                        for n in ast.walk(t):
                            if isinstance(n, ast.Name) and isinstance(n.ctx, ast.Store):
                                stored_so_far.add(n.id)
            if carried:
                raise Unsupported('loop-carried local(s) %s: a generic iteration cannot model a '
                                  'value handed from one iteration to the next'
                                  % sorted(carried))
            env[st.target.id] = self.A.sym(st.target.id)
            self.exec_block(st.body, env)
            return
        raise Unsupported('for over %r' % (it,))

    def assign(self, t, v, env, st=None):
        if isinstance(t, ast.Name):
            if self.names_as_atoms and isinstance(v, (Rat, float, Fraction)) or \
                    (self.names_as_atoms and isinstance(v, int) and not isinstance(v, bool)
                     and st is not None and not isinstance(st, ast.For)):
                base = t.id if self.depth <= 1 else '%s:%s' % (self.cur.name, t.id)
                k = self.versions.get(base, 0)
                self.versions[base] = k + 1
                an = base if k == 0 else '%s#%d' % (base, k + 1)
                self.defs[an] = self.rat(v)
                self.def_node[an] = st
                env[t.id] = self.A.sym(an)
            else:
                env[t.id] = v
        elif isinstance(t, (ast.Tuple, ast.List)):
            seq = self.unpack(v, len(t.elts))
            for e, x in zip(t.elts, seq):
                self.assign(e, x, env, st)
        elif isinstance(t, ast.Subscript):
            base = self.eval(t.value, env)
            idx = self.eval_index(t.slice, env)
            if isinstance(idx, bool) and isinstance(t.value, ast.Name) and \
                    (isinstance(base, (Rat, int, float)) or
                     (isinstance(base, Opaque) and base.tag == 'uninit')):
                # per-sample array evaluated for the generic element: X[mask] = v
                if idx:
                    env[t.value.id] = v
                return
            if isinstance(base, Rat) and isinstance(idx, tuple) and \
                    all(isinstance(x, int) for x in idx):
                return            # one row of a per-sample scalar: the generic sample is unaffected
            self.store(base, idx, v, t)
        elif isinstance(t, ast.Attribute):
            base = self.eval(t.value, env)
            if isinstance(base, Obj):
                base.attrs[t.attr] = v
            elif isinstance(base, Rec):
                base.cols[t.attr] = v
            elif isinstance(base, Opaque):
                pass
            else:
                raise Unsupported('attribute store on %r' % (base,))
        else:
            raise Unsupported('assign target')

    def unpack(self, v, n):
        if isinstance(v, (list, tuple)):
            if len(v) != n:
                raise Unsupported('unpack length')
            return list(v)
        if isinstance(v, SArray):
            if v.shape[0] != n:
                raise Unsupported('unpack array length %s vs %d' % (v.shape, n))
            if len(v.shape) == 1:
                return [v.get((i,)) for i in range(n)]
            return [self.index(v, (i,)) for i in range(n)]
        if isinstance(v, Opaque):
            return [Opaque('unpack', v, i) for i in range(n)]
        raise Unsupported('unpack of %r' % (v,))

    # ------------------------------------------------------------- expressions
    def truth(self, v):
        if isinstance(v, Opaque):
            return None
        if isinstance(v, bool) or v is None:
            return bool(v)
        if isinstance(v, (int, float)):
            return bool(v)
        if isinstance(v, Rat) and self.A.is_const(v):
            return self.A.const_of(v) != 0
        if isinstance(v, (list, tuple, str)):
            return bool(v)
        return None

    def eval(self, node, env):
        m = getattr(self, 'e_' + type(node).__name__, None)
        if m is None:
            raise Unsupported('expression %s' % type(node).__name__)
        return m(node, env)

    def e_Constant(self, node, env):
        return node.value

    def e_Name(self, node, env):
        if node.id in env:
            return env[node.id]
        return self.resolve_global(node, env)

    def resolve_global(self, node, env):
        f = self.cur
        q = f.module.resolve(node, set(env))
        if q is None:
            raise Unsupported('unbound name %s' % norm_text(node))
        return self.global_value(q)

    def global_value(self, q):
        t = self.repo.lookup(q)
        if isinstance(t, (FunctionInfo, ClassInfo)):
            return t
        if isinstance(t, tuple) and t[0] == 'const':
            if self.hooks is not None and hasattr(self.hooks, 'constant'):
                hv = self.hooks.constant(self, q)
                if hv is not None:
                    return hv
            if q in self.global_arrays:
                return self.global_arrays[q]
            try:
                v = self.repo.fold_fq(q)
            except ValueError:
                # a module/class-level array built by calls (np.hstack([...]), ...): evaluate the
                # defining expression once; the ONE object is shared by every reader, as at run
                # time (a write through an alias is seen by later calls)
                owner = t[1]
                mod = owner.module if isinstance(owner, ClassInfo) else owner
                save = self.cur

                class _Scope:
                    module = mod
                    cls = owner if isinstance(owner, ClassInfo) else None
                    name = '<module>'
                self.cur = _Scope()
                try:
                    v = self.eval(t[2], {})
                finally:
                    self.cur = save
                self.global_arrays[q] = v
                return v
            if isinstance(v, float) and self.const_symbolic:
                short = q[len('pyins.'):] if q.startswith('pyins.') else q
                if short == 'transform.DEG_TO_RAD':
                    return self.A.sym(self.A.D2R)
                if short == 'transform.RAD_TO_DEG':
                    return self.A.sym(self.A.R2D)
                return self.A.sym(short, v)
            return self.pyconst(v)
        if q == 'numpy.pi':
            return self.A.sym('pi', 3.141592653589793)
        if q == 'numpy.inf':
            return Opaque('inf')
        if q == 'numpy.newaxis':
            return None
        if q is not None and not q.startswith('pyins.'):
            return Opaque('ext', q)
        if q in self.repo.modules:
            return Opaque('module', q)
        raise Unsupported('unknown global %s' % q)

    def e_Attribute(self, node, env):
        # module.attr chains
        q = self.cur.module.resolve(node, set(env))
        if q is not None:
            return self.global_value(q)
        base = self.eval(node.value, env)
        a = node.attr
        if self.hooks is not None and hasattr(self.hooks, 'attr') and \
                not isinstance(base, (Obj, Rec, SArray, Rat, int, float, ClassInfo)):
            v = self.hooks.attr(self, base, a, node)
            if v is not None:
                return v
        if isinstance(base, Obj):
            if a in base.attrs:
                return base.attrs[a]
            mem = self.repo.class_member(base.cls, a)
            if isinstance(mem, FunctionInfo):
                if mem.is_property:
                    return self.call_function(mem, [], {}, base)
                return Bound(base, mem)
            if isinstance(mem, tuple):
                return self.global_value(mem[1].fq + '.' + a)
            if self.hooks is not None and hasattr(self.hooks, 'attr'):
                v = self.hooks.attr(self, base, a, node)
                if v is not None:
                    return v
            raise Unsupported('attribute %s of object' % a)
        if isinstance(base, ClassInfo):
            mem = self.repo.class_member(base, a)
            if isinstance(mem, tuple):
                return self.global_value(mem[1].fq + '.' + a)
            if isinstance(mem, FunctionInfo):
                return Bound(Obj(base), mem)
        if isinstance(base, Rec):
            if a in base.cols:
                return base.cols[a]
            if a == 'values':
                return base
            if a == 'index':
                return base.index if base.index is not None else Opaque('index')
            if a == 'name':
                return base.name if base.name is not None else Opaque('name')
            if a == 'T':
                return base          # one row / one column of labels: the same record
            if a in ('copy', 'to_frame', 'transpose', 'loc', 'iloc'):
                return Bound(base, a)
            if a == 'shape':
                if base.kind == 'frame':
                    # a table has n rows; only series.to_frame() is known to have one
                    return (1 if getattr(base, 'one_row', False) else Opaque('n'),
                            len(base.cols))
                return (len(base.cols),)
            if a == 'columns':
                return list(base.cols)
            raise Unsupported('column %s missing' % a)
        if isinstance(base, SArray):
            if a == 'T':
                return self.transpose(base)
            if a == 'ndim':
                return base.ndim
            if a == 'shape':
                return ((Opaque('n'),) if base.sample else ()) + base.shape
            if a == 'values':
                return base
            if a in ('transpose', 'copy', 'dot', 'reshape', 'sum', 'to_numpy', 'astype'):
                return Bound(base, a)
        if isinstance(base, (Rat, int, float)) and not isinstance(base, bool):
            if a == 'ndim':
                return 1 if self.stacked and isinstance(base, Rat) else 0
            if a == 'T':
                return base
            if a == 'shape':
                return (Opaque('n'),) if self.stacked and isinstance(base, Rat) else ()
            if a in ('copy', 'reshape'):
                return Bound(base, a)
        if isinstance(base, str) and a in ('split', 'startswith', 'endswith', 'upper', 'lower',
                                           'strip', 'partition', 'rpartition'):
            return getattr(base, a)         # pure methods of a concrete string
        if isinstance(base, list) and a in ('append', 'extend') and \
                getattr(self, 'mutable_lists', False):
            # in-place list growth: only in evaluations where every branch is decided (an
            # undecided branch with this flag set is rejected in exec_if)
            return getattr(base, a)
        if isinstance(base, PArr):
            if a == 'T':
                raise Unsupported('transpose of parameter array')
        if self.hooks is not None and hasattr(self.hooks, 'attr'):
            v = self.hooks.attr(self, base, a, node)
            if v is not None:
                return v
        if isinstance(base, Opaque):
            return Opaque('attr', base, a)
        raise Unsupported('attribute %s of %r' % (a, base))

    def e_UnaryOp(self, node, env):
        v = self.eval(node.operand, env)
        if isinstance(node.op, ast.USub):
            if isinstance(v, (int, float)) and not isinstance(v, bool):
                return -v
            return self.emap(self.A.neg, v)
        if isinstance(node.op, ast.UAdd):
            return v
        if isinstance(node.op, ast.Not):
            t = self.truth(v)
            return UNK if t is None else (not t)
        if isinstance(node.op, ast.Invert):
            if isinstance(v, bool):
                return not v
            return Opaque('invert', v)
        raise Unsupported('unary')

    def e_BinOp(self, node, env):
        return self.binop(node.op, self.eval(node.left, env), self.eval(node.right, env))

    def binop(self, op, a, b):
        A = self.A
        if isinstance(a, Opaque) or isinstance(b, Opaque):
            return Opaque('binop', a, b)
        if isinstance(op, ast.Add) and isinstance(a, (list, tuple)) and \
                isinstance(b, (list, tuple)):
            return type(a)(list(a) + list(b))      # Python sequences concatenate
        if isinstance(op, ast.Mult):
            # Python sequence repetition: [x] * 3, 3 * (x,)
            for s_, k_ in ((a, b), (b, a)):
                if isinstance(s_, (list, tuple)) and isinstance(k_, int) and \
                        not isinstance(k_, bool):
                    return type(s_)(list(s_) * k_)
        if isinstance(a, (list, tuple, Rec)):
            a = self.to_array(a)
        if isinstance(b, (list, tuple, Rec)):
            b = self.to_array(b)
        pyn = lambda x: isinstance(x, (int, float)) and not isinstance(x, bool)
        if isinstance(op, ast.MatMult):
            return self.matmul(a, b)
        if isinstance(op, ast.Pow):
            e = b
            if isinstance(e, Rat) and A.is_const(e):
                e = A.const_of(e)
            if pyn(a) and pyn(e):
                return a ** e
            if isinstance(e, (int, float, Fraction)):
                e = frac(e)
                if e.denominator == 1:
                    return self.emap(lambda x: A.powi(x, int(e)), a)
                if e.denominator == 2:
                    k = int(e.numerator)
                    return self.emap(lambda x: A.powi(A.sqrt(x), k), a)
            raise Unsupported('power %r' % (b,))
        if pyn(a) and pyn(b):
            if isinstance(op, ast.Add):
                return a + b
            if isinstance(op, ast.Sub):
                return a - b
            if isinstance(op, ast.Mult):
                return a * b
            if isinstance(op, ast.Div):
                return self.A.div(self.rat(a), self.rat(b))
            if isinstance(op, ast.FloorDiv):
                return a // b
            if isinstance(op, ast.Mod):
                return a % b
        fn = {ast.Add: A.add, ast.Sub: A.sub, ast.Mult: A.mul, ast.Div: A.div}.get(type(op))
        if fn is None:
            raise Unsupported('operator %s' % type(op).__name__)
        return self.emap(fn, a, b)

    def e_Compare(self, node, env):
        if len(node.ops) != 1:
            raise Unsupported('chained comparison')
        a = self.eval(node.left, env)
        b = self.eval(node.comparators[0], env)
        op = node.ops[0]
        if self.hooks is not None and hasattr(self.hooks, 'compare'):
            r = self.hooks.compare(self, node, a, b)
            if r is not None:
                return r
        if isinstance(op, (ast.Is, ast.IsNot)):
            if a is None or b is None:
                r = (a is None and b is None)
                if (a is None) != (b is None) and (isinstance(a, Opaque) or isinstance(b, Opaque)):
                    return UNK
                return r if isinstance(op, ast.Is) else not r
            return UNK
        if isinstance(op, (ast.In, ast.NotIn)):
            if isinstance(b, (list, tuple)) and isinstance(a, (str, int)):
                r = a in b
                return r if isinstance(op, ast.In) else not r
            if isinstance(b, Rec) and isinstance(a, str):
                r = a in b.cols
                return r if isinstance(op, ast.In) else not r
            return UNK
        if isinstance(a, str) or isinstance(b, str):
            if isinstance(a, str) and isinstance(b, str):
                if isinstance(op, ast.Eq):
                    return a == b
                if isinstance(op, ast.NotEq):
                    return a != b
            return UNK
        try:
            ra, rb = self.rat(a), self.rat(b)
        except Unsupported:
            return UNK
        if self.A.is_const(ra) and self.A.is_const(rb):
            x, y = self.A.const_of(ra), self.A.const_of(rb)
            return {ast.Eq: x == y, ast.NotEq: x != y, ast.Lt: x < y, ast.LtE: x <= y,
                    ast.Gt: x > y, ast.GtE: x >= y}[type(op)]
        return UNK

    def e_BoolOp(self, node, env):
        vals = [self.truth(self.eval(v, env)) for v in node.values]
        if isinstance(node.op, ast.And):
            if any(v is False for v in vals):
                return False
            return True if all(v is True for v in vals) else UNK
        if any(v is True for v in vals):
            return True
        return False if all(v is False for v in vals) else UNK

    def e_IfExp(self, node, env):
        c = None
        if self.hooks is not None and hasattr(self.hooks, 'branch'):
            c = self.hooks.branch(self, node, env)
        if c is None:
            c = self.truth(self.eval(node.test, env))
        if c is True:
            return self.eval(node.body, env)
        if c is False:
            return self.eval(node.orelse, env)
        return self.join(self.eval(node.body, env), self.eval(node.orelse, env), node, 'ifexp')

    def _elts(self, node, env):
        out = []
        for e in node.elts:
            if isinstance(e, ast.Starred):
                v = self.eval(e.value, env)
                if isinstance(v, Opaque) and v.tag == 'ix':
                    # *np.ix_(rows, cols): the open-mesh parts, to be used side by side
                    out.extend(Opaque('ixpart', k_, p_) for k_, p_ in enumerate(v.parts))
                    continue
                if not isinstance(v, (list, tuple)):
                    raise Unsupported('star-unpacking of %r in a display' % (v,))
                out.extend(v)
            else:
                out.append(self.eval(e, env))
        return out

    def e_Tuple(self, node, env):
        return tuple(self._elts(node, env))

    def e_List(self, node, env):
        return self._elts(node, env)

    def e_ListComp(self, node, env):
        if len(node.generators) != 1 or node.generators[0].ifs:
            raise Unsupported('comprehension form')
        g = node.generators[0]
        it = self.eval(g.iter, env)
        if not isinstance(it, (list, tuple, range)):
            raise Unsupported('comprehension over %r' % (it,))
        out = []
        e2 = dict(env)
        for v in it:
            self.assign(g.target, v, e2, node)
            out.append(self.eval(node.elt, e2))
        return out

    e_GeneratorExp = e_ListComp

    def e_JoinedStr(self, node, env):
        # an f-string whose fields are all concrete strings / integers is that string
        parts = []
        for v in node.values:
            if isinstance(v, ast.Constant) and isinstance(v.value, str):
                parts.append(v.value)
                continue
            if isinstance(v, ast.FormattedValue) and v.format_spec is None and v.conversion == -1:
                try:
                    x = self.eval(v.value, env)
                except Unsupported:
                    return Opaque('fstring')
                if isinstance(x, (str, int)) and not isinstance(x, bool):
                    parts.append(str(x))
                    continue
            return Opaque('fstring')
        return ''.join(parts)

    def e_Subscript(self, node, env):
        base = self.eval(node.value, env)
        idx = self.eval_index(node.slice, env)
        if self.hooks is not None and hasattr(self.hooks, 'subscript'):
            v = self.hooks.subscript(self, base, idx, node, env)
            if v is not None:
                return v
        return self.index(base, idx, node)

    def eval_index(self, node, env):
        if isinstance(node, ast.Tuple):
            out_ = []
            for e in node.elts:
                if isinstance(e, ast.Starred):
                    out_.extend(self._elts(ast.Tuple(elts=[e], ctx=ast.Load()), env))
                else:
                    out_.append(self.eval_index(e, env))
            return tuple(out_)
        if isinstance(node, ast.Slice):
            def b(x):
                if x is None:
                    return None
                v = self.eval(x, env)
                if isinstance(v, Rat) and self.A.is_const(v):
                    v = int(self.A.const_of(v))
                return v
            return slice(b(node.lower), b(node.upper), b(node.step))
        v = self.eval(node, env)
        if isinstance(v, Rat) and self.A.is_const(v) and self.A.const_of(v).denominator == 1:
            return int(self.A.const_of(v))
        return v

    def _axis_sel(self, sel, dim):
        """-> (list of positions, keep_axis)"""
        if isinstance(sel, bool):
            raise Unsupported('bool index')
        if isinstance(sel, int):
            if sel < 0:
                sel += dim
            if not 0 <= sel < dim:
                raise RuntimeFailure('index %d is out of bounds for an axis of size %d'
                                     % (sel if sel < dim else sel, dim))
            return [sel], False
        if isinstance(sel, slice):
            if any(isinstance(x, (Rat, Opaque)) for x in (sel.start, sel.stop, sel.step)):
                raise Unsupported('symbolic slice')
            return list(range(dim))[sel], True
        if isinstance(sel, (list, tuple)) and all(isinstance(x, int) for x in sel):
            return list(sel), True
        raise Unsupported('index %r' % (sel,))

    def _split_index(self, arr, idx):
        if not isinstance(idx, tuple):
            idx = (idx,)
        outer = False
        if len(idx) == 1 and isinstance(idx[0], Opaque) and idx[0].tag == 'ix':
            idx = tuple(idx[0].parts)
            outer = True
        idx = list(idx)
        if any(isinstance(x, Opaque) and x.tag == 'ixpart' for x in idx):
            # (..., *np.ix_(rows, cols)): outer product of the index lists on those axes
            if any(isinstance(x, (list, tuple)) for x in idx):
                raise Unsupported('np.ix_ parts mixed with other index lists')
            idx = [list(x.parts[1]) if isinstance(x, Opaque) and x.tag == 'ixpart' else x
                   for x in idx]
            outer = True
        if any(x is Ellipsis for x in idx):
            k = [i for i, x in enumerate(idx) if x is Ellipsis]
            if len(k) > 1:
                raise Unsupported('two ellipses')
            total = len(arr.shape) + (1 if arr.sample else 0)
            fill = total - (len(idx) - 1)
            if fill < 0:
                raise Unsupported('too many indices')
            idx[k[0]:k[0] + 1] = [slice(None, None, None)] * fill
        if arr.sample:
            if not idx:
                raise Unsupported('empty index')
            first = idx.pop(0)
            consumed = True
            if isinstance(first, slice) and first == slice(None, None, None):
                keep_sample = True
            elif isinstance(first, int) and first == 0:
                keep_sample = False
            elif isinstance(first, Opaque):
                keep_sample = True
            elif isinstance(first, int) and first not in (0, -1) and \
                    getattr(arr, 'lead_one', False) and not self.stacked:
                raise RuntimeFailure('index %d is out of bounds for the leading axis of length 1'
                                     % first)
            else:
                raise Unsupported('index on sample axis: %r' % (first,))
        else:
            keep_sample = False
        if any(x is None for x in idx):
            raise Unsupported('np.newaxis / None in an index of an array')
        if len(idx) > len(arr.shape):
            raise RuntimeFailure('too many indices for an array of %d dimensions'
                                 % (len(arr.shape) + (1 if arr.sample else 0)))
        while len(idx) < len(arr.shape):
            idx.append(slice(None, None, None))
        sels = [self._axis_sel(s, d) for s, d in zip(idx, arr.shape)]
        n_lists = sum(1 for s in idx if isinstance(s, (list, tuple)))
        if n_lists > 1 and not outer:
            raise Unsupported('zipped advanced indexing')
        return sels, keep_sample

    def _zipped(self, arr, idx):
        """numpy 'zipped' advanced indexing: two or more ADJACENT integer lists of equal length
        k select k elements pairwise; the other axes take slices.  Returns (out_shape,
        [(out_index, src_index)], keep_sample) or None when idx is not of that kind."""
        if not isinstance(idx, tuple):
            return None
        idx = list(idx)
        if sum(1 for s in idx if isinstance(s, (list, tuple))) < 2:
            return None
        if any(x is Ellipsis for x in idx) or (len(idx) == 1 and isinstance(idx[0], Opaque)):
            return None
        if arr.sample:
            first = idx.pop(0)
            if not (isinstance(first, slice) and first == slice(None, None, None)):
                raise Unsupported('zipped advanced indexing with an index on the sample axis')
        while len(idx) < len(arr.shape):
            idx.append(slice(None, None, None))
        if len(idx) > len(arr.shape):
            raise Unsupported('too many indices')
        lists = [k for k, s_ in enumerate(idx) if isinstance(s_, (list, tuple))]
        if lists != list(range(lists[0], lists[0] + len(lists))):
            raise Unsupported('separated advanced indices')
        if any(not isinstance(s_, (slice, list, tuple)) for s_ in idx):
            raise Unsupported('integer mixed with zipped advanced indices')
        for k in lists:
            if not all(isinstance(x, int) and not isinstance(x, bool) for x in idx[k]):
                raise Unsupported('symbolic advanced index')
        if len({len(idx[k]) for k in lists}) != 1:
            raise RuntimeFailure('shape mismatch: indexing arrays of lengths %s cannot be '
                                 'broadcast together' % [len(idx[k]) for k in lists])
        n = len(idx[lists[0]])
        pos = {}
        for k, s_ in enumerate(idx):
            if k in lists:
                for x in s_:
                    if not -arr.shape[k] <= x < arr.shape[k]:
                        raise RuntimeFailure('index %d is out of bounds for axis %d with size %d'
                                             % (x, k, arr.shape[k]))
                pos[k] = [x % arr.shape[k] for x in s_]
            else:
                pos[k] = self._axis_sel(s_, arr.shape[k])[0]
        before = [k for k in range(len(idx)) if k < lists[0]]
        after = [k for k in range(len(idx)) if k > lists[-1]]
        shape = tuple(len(pos[k]) for k in before) + (n,) + tuple(len(pos[k]) for k in after)
        pairs = []
        for oidx in SArray(shape, {}).indices():
            src = [None] * len(idx)
            for c, k in enumerate(before):
                src[k] = pos[k][oidx[c]]
            z = oidx[len(before)]
            for k in lists:
                src[k] = pos[k][z]
            for c, k in enumerate(after):
                src[k] = pos[k][oidx[len(before) + 1 + c]]
            pairs.append((oidx, tuple(src)))
        return shape, pairs, arr.sample

    def index(self, base, idx, node=None):
        if isinstance(base, Bound) and isinstance(base.obj, Rec) and base.fn == 'loc' and \
                base.obj.kind == 'series' and (isinstance(idx, str) or (
                    isinstance(idx, (list, tuple)) and idx and
                    all(isinstance(x, str) for x in idx))):
            # label selection on a row: series.loc[labels] is series[labels]
            return self.index(base.obj, list(idx) if isinstance(idx, tuple) else idx, node)
        if isinstance(base, SArray) and base.sample and self.stacked and \
                not getattr(self, '_in_pick', False):
            first = idx[0] if isinstance(idx, tuple) and idx else idx
            if isinstance(first, int) and not isinstance(first, bool):
                # stacked form: a constant index on the sample axis is ONE PARTICULAR sample (the
                # first, the last), not the generic one the entries stand for: its values are the
                # same expressions over that sample's own inputs
                self._in_pick = True
                try:
                    picked = self.index(base, idx, node)
                finally:
                    self._in_pick = False
                return self._particular_sample(picked, first)
        if isinstance(base, SArray):
            z = self._zipped(base, idx)
            if z is not None:
                shape, pairs, keep = z
                out = SArray(shape, {}, None, keep)
                for oidx, src in pairs:
                    try:
                        out.entries[oidx] = base.get(src)
                    except Unsupported:
                        pass
                return out
            sels, keep_sample = self._split_index(base, idx)
            kept = [len(p) for p, k in sels if k]
            if not kept:
                return base.get(tuple(p[0] for p, _ in sels))
            out = SArray(tuple(kept), {}, None, keep_sample)
            for oidx in out.indices():
                src, c = [], 0
                for p, k in sels:
                    if k:
                        src.append(p[oidx[c]])
                        c += 1
                    else:
                        src.append(p[0])
                try:
                    out.entries[oidx] = base.get(tuple(src))
                except Unsupported:
                    pass
            return out
        if isinstance(base, PArr):
            if not isinstance(idx, tuple):
                idx = (idx,)
            row, rest = idx[0], idx[1:]
            rk = self.A.key(self.rat(row))
            for x_, d_ in zip(rest, base.trail):
                if isinstance(x_, int) and not isinstance(x_, bool) and not -d_ <= x_ < d_:
                    raise RuntimeFailure('index %d is out of bounds for an axis of size %d of %s'
                                         % (x_, d_, base.name))
            if len(rest) == len(base.trail):
                if not all(isinstance(x, int) for x in rest):
                    raise Unsupported('symbolic trailing index')
                base.load_log.append((rk, rest, node))
                base.events.append(('load', rk, tuple(rest), node))
                k = (rk,) + tuple(rest)
                if k in base.stores and not base.reload_atoms:
                    return base.stores[k]
                nm = '%s[%s]' % (base.name, ','.join([rk] + [str(x) for x in rest]))
                # an element stored more than once: the atom names the store it is read after
                # (unsuffixed = the first one), so that a rule cannot mistake a read taken
                # between two stores for a read of the final value
                n_st = sum(1 for r_, i_, _v, _n in base.store_log
                           if r_ == rk and tuple(i_) == tuple(rest))
                if n_st >= 2:
                    nm += '@%d' % n_st
                return self.A.sym(nm)
            if len(rest) == 0:
                out = SArray(base.trail, {})
                n_ev = len(base.events)
                for i in out.indices():
                    out.entries[i] = self.index(base, (row,) + i, node)
                # a whole-row view (possibly an output argument): not element reads
                base.events[n_ev:] = [('view',) + e[1:] for e in base.events[n_ev:]]
                out.parr = (base, row)
                return out
            raise Unsupported('partial index on parameter array')
        if isinstance(base, Rec):
            if isinstance(idx, str):
                if idx not in base.cols:
                    raise Unsupported('column %s missing' % idx)
                return base.cols[idx]
            if isinstance(idx, (list, tuple)) and all(isinstance(x, str) for x in idx):
                out = SArray((len(idx),), {}, None, base.kind == 'frame')
                for i, c in enumerate(idx):
                    if c not in base.cols:
                        raise Unsupported('column %s missing' % c)
                    out.entries[(i,)] = self.rat(base.cols[c])
                out.colnames = list(idx)
                return out
            raise Unsupported('record index %r' % (idx,))
        if isinstance(base, (list, tuple, str)):
            if isinstance(idx, int):
                if not -len(base) <= idx < len(base):
                    raise RuntimeFailure('index %d out of range for a sequence of length %d'
                                         % (idx, len(base)))
                return base[idx]
            if isinstance(idx, slice):
                return base[idx]
        if isinstance(base, dict):
            return base[idx]
        if isinstance(idx, bool) and isinstance(base, (Rat, int, float)):
            return base
        if isinstance(base, Rat) and isinstance(idx, tuple) and all(
                x is None or isinstance(x, (slice, int)) for x in idx):
            return base          # per-sample scalar viewed as a column / one of its rows
        if isinstance(base, Opaque):
            return Opaque('sub', base, idx)
        raise Unsupported('subscript of %r' % (base,))

    def store(self, base, idx, v, node=None):
        if isinstance(v, (list, tuple)):
            v = self.to_array(v)
        if isinstance(base, SArray) and hasattr(self.A, 'func') and (
                idx is UNK or (isinstance(idx, Opaque) and idx.tag in ('unknown', 'cmp', 'binop',
                                                                       'unop', 'compare'))):
            # a store selected by a condition the analysis does not decide (a boolean mask over
            # the samples): afterwards every entry is EITHER its old value or the stored one -
            # an uninterpreted function of the two, so that whatever is derived from it is no
            # longer recognised as the unmasked expression
            self._mask_id = getattr(self, '_mask_id', 0) + 1
            tag = self.A.const(self._mask_id)
            for i in list(base.indices()):
                try:
                    old_ = self.rat(base.get(i))
                except Unsupported:
                    continue
                new_ = self.rat(v.get(i[len(i) - len(v.shape):])) if isinstance(v, SArray) \
                    else self.rat(v)
                base.entries[i] = self.A.func('masked', tag, old_, new_)
            return
        if isinstance(base, SArray):
            if self.stacked and getattr(base, 'lead_one', False):
                # stacked form: an array allocated with leading length 1 cannot take one value
                # per sample (numpy raises a broadcasting error for n > 1)
                def per_sample(x):
                    if isinstance(x, SArray):
                        return x.sample or any(per_sample(y) for y in x.entries.values())
                    return isinstance(x, Rat) and not self.A.is_const(x)
                if per_sample(v):
                    raise Unsupported('shape mismatch: a per-sample value is stored into an array '
                                      'allocated with leading length 1 (stacked form)')
            z = self._zipped(base, idx)
            if z is not None:
                shape, pairs, _ = z
                for oidx, dst in pairs:
                    if isinstance(v, SArray):
                        if v.shape == shape:
                            val = v.get(oidx)
                        elif v.shape == shape[len(shape) - len(v.shape):]:
                            val = v.get(oidx[len(shape) - len(v.shape):])
                        elif all(isinstance(d, int) for d in v.shape + shape):
                            raise BroadcastError('could not broadcast input array from shape %s '
                                                 'into shape %s' % (v.shape, shape))
                        else:
                            raise Unsupported('store shape %s into %s' % (v.shape, shape))
                    else:
                        val = self.rat(v)
                    base.entries[dst] = val
                    if isinstance(v, SArray) and v.sample:
                        base.sample = True
                return
            sels, _ = self._split_index(base, idx)
            kept = [len(p) for p, k in sels if k]
            tgt = SArray(tuple(kept), {})
            for oidx in tgt.indices():
                dst, c = [], 0
                for p, k in sels:
                    if k:
                        dst.append(p[oidx[c]])
                        c += 1
                    else:
                        dst.append(p[0])
                if isinstance(v, SArray):
                    if v.shape == tgt.shape:
                        val = v.get(oidx)
                    elif v.shape == tgt.shape[len(tgt.shape) - len(v.shape):]:
                        val = v.get(oidx[len(tgt.shape) - len(v.shape):])
                    else:
                        if all(isinstance(d_, int) for d_ in v.shape + tgt.shape) and \
                                1 not in v.shape and len(v.shape) <= len(tgt.shape):
                            raise BroadcastError('could not broadcast input array from shape %s '
                                                 'into shape %s' % (v.shape, tgt.shape))
                        raise Unsupported('store shape %s into %s' % (v.shape, tgt.shape))
                else:
                    val = self.rat(v)
                base.entries[tuple(dst)] = val
            if hasattr(base, 'parr'):
                pa, row = base.parr
                for i in base.indices():
                    if i in base.entries:
                        self.store(pa, (row,) + i, base.entries[i], node)
            return
        if isinstance(base, PArr):
            if not isinstance(idx, tuple):
                idx = (idx,)
            row, rest = idx[0], idx[1:]
            rk = self.A.key(self.rat(row))
            for x_, d_ in zip(rest, base.trail):
                if isinstance(x_, int) and not isinstance(x_, bool) and not -d_ <= x_ < d_:
                    raise RuntimeFailure('index %d is out of bounds for an axis of size %d of %s'
                                         % (x_, d_, base.name))
            if len(rest) == len(base.trail) and all(isinstance(x, int) for x in rest):
                base.stores[(rk,) + tuple(rest)] = self.rat(v)
                base.store_log.append((rk, tuple(rest), self.rat(v), node))
                base.events.append(('store', rk, tuple(rest), node))
                return
            if len(rest) == 0 and isinstance(v, SArray) and v.shape == base.trail:
                for i in v.indices():
                    self.store(base, (row,) + i, v.get(i), node)
                return
            raise Unsupported('store on parameter array')
        if isinstance(base, Rec):
            if isinstance(idx, str):
                base.cols[idx] = v
                return
            if isinstance(idx, (list, tuple)) and isinstance(v, SArray):
                for i, c in enumerate(idx):
                    base.cols[c] = v.get((i,))
                return
        if isinstance(base, dict):
            base[idx] = v
            return
        if isinstance(base, list) and isinstance(idx, int):
            base[idx] = v
            return
        if isinstance(base, Opaque):
            if self.hooks is not None and hasattr(self.hooks, 'store'):
                self.hooks.store(self, base, idx, v, node)
            return
        raise Unsupported('store into %r' % (base,))

    # ------------------------------------------------------------------ calls
    def e_Call(self, node, env):
        fn = node.func
        args = []
        for a in node.args:
            if isinstance(a, ast.Starred):
                sv = self.eval(a.value, env)
                if not isinstance(sv, (list, tuple)):
                    raise Unsupported('starred argument')
                args.extend(sv)
                continue
            args.append(self.eval(a, env))
        kwargs = {k.arg: self.eval(k.value, env) for k in node.keywords if k.arg}
        q = self.cur.module.resolve(fn, set(env))
        if self.hooks is not None and hasattr(self.hooks, 'call'):
            r = self.hooks.call(self, q, node, args, kwargs, env)
            if r is not NotImplemented and r is not None:
                return r
        if q == 'pyins.util.to_180_range' and len(args) == 1 and not kwargs and \
                isinstance(args[0], (Rat, SArray, int, float)):
            SUMMARY_USED.add(q)
            if isinstance(args[0], SArray):
                return self.emap(lambda x: wrap180(self.A, self.rat(x)), args[0])
            return wrap180(self.A, self.rat(args[0]))
        if q is not None:
            tgt = self.repo.lookup(q) if q.startswith('pyins') else None
            if isinstance(tgt, FunctionInfo):
                return self.call_repo(tgt, args, kwargs, None, node)
            if isinstance(tgt, ClassInfo):
                return self.construct(tgt, args, kwargs)
            return self.call_ext(q, args, kwargs, node)
        callee = self.eval(fn, env)
        if isinstance(callee, Bound):
            if isinstance(callee.fn, FunctionInfo):
                return self.call_repo(callee.fn, args, kwargs, callee.obj, node)
            return self.call_method(callee.obj, callee.fn, args, kwargs, node)
        if isinstance(callee, FunctionInfo):
            return self.call_repo(callee, args, kwargs, None, node)
        if isinstance(callee, ClassInfo):
            return self.construct(callee, args, kwargs)
        if isinstance(callee, Opaque):
            return Opaque('call', callee, args)
        if callable(callee) and not isinstance(callee, (Rat, SArray)):
            return callee(*args, **kwargs)
        raise Unsupported('call of %r' % (callee,))

    def construct(self, cls, args, kwargs):
        o = Obj(cls)
        init = self.repo.class_member(cls, '__init__')
        if isinstance(init, FunctionInfo):
            self.call_function(init, args, kwargs, o)
        return o

    def call_repo(self, f, args, kwargs, self_obj, node):
        if self.names_as_atoms:
            inl = self.hooks is not None and hasattr(self.hooks, 'inline') and \
                self.hooks.inline(f)
            if not inl:
                an = 'call:%s' % norm_text(node)
                self.defs.setdefault(an, ('call', f, args, kwargs, self_obj))
                return self.A.call_atom(an)
        if f.fq in self.PURE_SUMMARIES and self.hooks is not None and \
                getattr(self.hooks, 'summaries', False):
            try:
                return self.call_function(f, args, kwargs, self_obj)
            except RuntimeFailure:
                raise
            except Unsupported as e:
                v = self._pure_summary(f, args, kwargs)
                if v is None:
                    raise
                self.trace.append(('summary', f.fq, str(e)))
                return v
        return self.call_function(f, args, kwargs, self_obj)

    # Routines whose numerics the generic evaluator cannot follow (gathers under data-dependent
    # masks) and which a rule that opts in (`hooks.summaries`) may read as an UNINTERPRETED PURE
    # FUNCTION of their argument: row-wise, k outputs from the k inputs of the same row. Sound for
    # equalities (same arguments, same atoms; C19 decides purity); an inequality against an
    # expected expression is the same incompleteness as for every other function atom.
    PURE_SUMMARIES = {'pyins.transform.ecef_to_lla': 3}

    def _pure_summary(self, f, args, kwargs):
        k = self.PURE_SUMMARIES[f.fq]
        if kwargs or len(args) != 1 or not isinstance(args[0], SArray) or \
                not hasattr(self.A, 'func'):
            return None
        a = args[0]
        if not a.shape or a.shape[-1] != k or len(a.shape) > 2:
            return None
        out = SArray(a.shape, {}, None, a.sample)
        rows = [()] if len(a.shape) == 1 else [(r,) for r in range(a.shape[0])]
        try:
            for r in rows:
                xs = [self.rat(a.get(r + (j,))) for j in range(k)]
                for j in range(k):
                    out.entries[r + (j,)] = self.A.func('%s_%d' % (f.name, j), *xs)
        except Unsupported:
            return None
        return out

    def scale_defs(self, small):
        """Replace the small parameter atoms by eps*atom in every definition."""
        for an, d in list(self.defs.items()):
            if isinstance(d, Rat):
                self.defs[an] = self.A.subst(d, small)

    def expand(self, v, stop=(), depth=40):
        """Substitute names-as-atoms definitions back into a value (closure), leaving
        the atoms in `stop` and calls symbolic."""
        if isinstance(v, SArray):
            out = SArray(v.shape, {}, v.default, v.sample)
            for i, x in v.entries.items():
                out.entries[i] = self.expand(x, stop, depth)
            return out
        v = self.rat(v)
        for _ in range(depth):
            mp = {}
            for a in self.A.atoms_of(v):
                if a in stop:
                    continue
                d = self.defs.get(a)
                if isinstance(d, Rat):
                    mp[a] = d
                elif isinstance(d, tuple) and d[0] == 'call':
                    sub = SymEval(self.repo, self.A, self.types, None, self.inline_depth)
                    args = [self.expand(x, stop, depth) if isinstance(x, (Rat, SArray))
                            else x for x in d[2]]
                    kw = {k: (self.expand(x, stop, depth) if isinstance(x, (Rat, SArray))
                              else x) for k, x in d[3].items()}
                    r = sub.call_function(d[1], args, kw, d[4])
                    if isinstance(r, Rat):
                        mp[a] = r
            # atoms hidden in the arguments of sin/cos/sqrt/inv/function atoms
            for a in self.A.atoms_of(v):
                for x in self.A._nested_atoms(a):
                    if x not in stop and x not in mp and isinstance(self.defs.get(x), Rat):
                        mp[x] = self.defs[x]
            if not mp:
                return v
            v = self.A.subst(v, mp)
        return v

    def call_method(self, obj, name, args, kwargs, node):
        if isinstance(obj, SArray):
            if name == 'transpose':
                return self.transpose(obj)
            if name == 'copy':
                return obj.copy()
            if name in ('to_numpy', 'astype') and set(kwargs) <= {'dtype', 'copy'}:
                # the values as a (new) float array; integer target types would truncate
                dt_ = kwargs.get('dtype', args[0] if args else None)
                if dt_ is None or dt_ is float or (isinstance(dt_, Opaque) and
                                                   'float' in repr(dt_.parts)) or \
                        (isinstance(dt_, str) and 'float' in dt_):
                    return obj.copy()
                raise Unsupported('%s to dtype %r' % (name, dt_))
            if name == 'dot':
                return self.matmul(obj, args[0])
            if name == 'sum':
                return self.call_ext('numpy.sum', [obj] + args, kwargs, node)
            if name == 'reshape':
                return self.reshape(obj, args[0] if len(args) == 1 and
                                    isinstance(args[0], (tuple, list)) else args)
        if isinstance(obj, Rec):
            if name == 'copy':
                return Rec(dict(obj.cols), obj.kind, obj.name, obj.index)
            if name == 'to_frame':
                r_ = Rec(obj.cols, 'frame', obj.name, obj.index)
                r_.one_row = True
                return r_
            if name == 'transpose':
                return obj
        if isinstance(obj, (Rat, int, float)) and name in ('copy', 'reshape'):
            return obj
        return Opaque('method', obj, name)

    KW_MODELLED = {'numpy.transpose': {'axes'}, 'numpy.stack': {'axis'},
                   'numpy.round': {'decimals'}, 'numpy.around': {'decimals'},
                   'builtins.round': {'ndigits'}}
    KW_GUARDED = {'numpy.cross', 'numpy.dot', 'numpy.sum', 'numpy.transpose', 'numpy.einsum',
                  'numpy.hstack', 'numpy.vstack', 'numpy.block', 'numpy.stack',
                  'numpy.column_stack', 'numpy.hypot', 'numpy.square', 'numpy.eye',
                  'numpy.identity', 'numpy.atleast_2d', 'numpy.arctan2', 'numpy.arcsin',
                  'numpy.arccos', 'numpy.arctan', 'numpy.round', 'numpy.around'}

    def call_ext(self, q, args, kwargs, node):
        A = self.A
        if q in self.KW_GUARDED or q in UFUNCS:
            extra = set(kwargs) - {'dtype'} - self.KW_MODELLED.get(q, set())
            if extra:
                # a keyword the model would silently ignore (axis=, out=, where=, ...)
                raise Unsupported('%s: keyword(s) %s not modelled' % (q, sorted(extra)))
        if q in UFUNCS:
            f = getattr(A, UFUNCS[q])
            return self.emap(f, args[0])
        if q in IDENT:
            v = args[0]
            if isinstance(v, Rec) and q != 'builtins.float':
                return self.to_array(v)
            if isinstance(v, (list, tuple)):
                try:
                    return self.to_array(v)
                except Unsupported:
                    return v
            return v
        if q == 'numpy.atleast_2d':
            v = args[0]
            if isinstance(v, (list, tuple)):
                v = self.to_array(v)
            if isinstance(v, SArray) and len(v.shape) == 1 and not v.sample:
                out = SArray(v.shape, v.entries, v.default, True)
                out.lead_one = True         # (k,) -> (1, k): the leading axis has length 1
                return out
            return v
        if q == 'numpy.square':
            return self.emap(lambda x: A.mul(x, x), args[0])
        if q in ('numpy.clip',) and len(args) == 3 and not kwargs:
            # clip(x, lo, hi) with constant bounds: the identity when [lo, hi] covers the
            # documented domain of x (a guard), otherwise a different function of x inside the
            # domain (an uninterpreted `clip` value: the rules will see the difference)
            lo_, hi_ = (self.rat(b_) if isinstance(b_, (Rat, int, float)) else None
                        for b_ in args[1:])

            def num(v_):
                """numeric value of a constant or of +- a named float constant of the source"""
                if v_ is None:
                    return None
                if A.is_const(v_):
                    return float(A.const_of(v_))
                ats = A.atoms_of(v_)
                if len(ats) == 1 and next(iter(ats)) in getattr(A, 'numeric', {}):
                    a_ = next(iter(ats))
                    for sg in (1, -1):
                        if A.eq(v_, A.mul(A.const(sg), A.sym(a_))):
                            return sg * A.numeric[a_]
                return None
            lo_c, hi_c = num(lo_), num(hi_)
            if lo_c is not None and hi_c is not None:

                def clip1(x):
                    x = self.rat(x)
                    ats = A.atoms_of(x)
                    if len(ats) == 1 and A.key(x) == A.key(A.sym(next(iter(ats)))):
                        dom = DOMAINS.get(next(iter(ats)))
                        if dom is not None:
                            if lo_c <= dom[0] and hi_c >= dom[1]:
                                return x
                            return A.func('clip', x, lo_, hi_)
                    raise Unsupported('np.clip of a quantity without a documented domain')
                if isinstance(args[0], SArray):
                    return self.emap(clip1, args[0])
                if isinstance(args[0], (Rat, int, float)):
                    return clip1(args[0])
        if q in ('numpy.nonzero', 'numpy.flatnonzero', 'numpy.argwhere') and len(args) == 1 and \
                not kwargs and isinstance(args[0], SArray) and not args[0].sample:
            # positions of the entries that are decidedly non-zero, in row-major order; an entry
            # whose being zero is not decided (by its constant value or by the rule's comparison
            # hook) ends the evaluation
            arr = args[0]
            keep = []
            cmp_node = ast.Compare(left=ast.Constant(0), ops=[ast.NotEq()],
                                   comparators=[ast.Constant(0)])
            for i in arr.indices():
                x = self.rat(arr.get(i))
                if A.is_const(x):
                    nz = A.const_of(x) != 0
                else:
                    nz = None
                    if self.hooks is not None and hasattr(self.hooks, 'compare'):
                        nz = self.hooks.compare(self, cmp_node, x, 0)
                    if nz is None:
                        raise Unsupported('np.nonzero of an entry whose being zero is undecided')
                if nz:
                    keep.append(i)
            if q == 'numpy.argwhere':
                return [list(i) for i in keep]
            if q == 'numpy.flatnonzero':
                strides = []
                for i in keep:
                    f_, m_ = 0, 1
                    for d_, k_ in zip(reversed(arr.shape), reversed(i)):
                        f_ += k_ * m_
                        m_ *= d_
                    strides.append(f_)
                return strides
            return tuple([i[ax] for i in keep] for ax in range(len(arr.shape)))
        if q == 'numpy.resize' and len(args) == 2 and not kwargs and \
                isinstance(args[0], (Rat, int, float)) and not isinstance(args[0], bool):
            shp = args[1] if isinstance(args[1], (tuple, list)) else (args[1],)
            if all(isinstance(d, int) and not isinstance(d, bool) for d in shp):
                out = SArray(tuple(shp), {})
                for i_ in out.indices():
                    out.entries[i_] = self.rat(args[0])     # a scalar repeated to fill the shape
                return out
        if q == 'numpy.full' and len(args) >= 2 and set(kwargs) <= {'dtype'}:
            # a scalar, or an array of the trailing dimensions, repeated to fill the shape
            shp = args[0] if isinstance(args[0], (tuple, list)) else (args[0],)
            shp = [int(self.A.const_of(d)) if isinstance(d, Rat) and self.A.is_const(d) else d
                   for d in shp]
            fill = args[1]
            if isinstance(fill, Rec):
                fill = self.to_array(fill)
            if all(isinstance(d, int) and not isinstance(d, bool) for d in shp):
                tot = 1
                for d in shp:
                    tot *= d
                if tot <= 400000:
                    out = SArray(tuple(shp), {})
                    if isinstance(fill, SArray) and not fill.sample and \
                            tuple(shp[len(shp) - len(fill.shape):]) == fill.shape:
                        k_ = len(shp) - len(fill.shape)
                        for i_ in out.indices():
                            out.entries[i_] = fill.get(i_[k_:])
                        return out
                    if isinstance(fill, (Rat, int, float)) and not isinstance(fill, bool):
                        v_ = self.rat(fill)
                        for i_ in out.indices():
                            out.entries[i_] = v_
                        return out
        if q in ('numpy.zeros', 'numpy.empty', 'numpy.ones'):
            return self.alloc(args[0], A.const(0) if q.endswith('zeros') else
                              (A.const(1) if q.endswith('ones') else None))
        if q in ('numpy.zeros_like', 'numpy.empty_like'):
            v = args[0]
            if isinstance(v, SArray):
                return SArray(v.shape, {}, A.const(0) if 'zeros' in q else None, v.sample)
            raise Unsupported('%s of %r' % (q, v))
        if q in ('numpy.eye', 'numpy.identity'):
            n = args[0]
            if isinstance(n, Rat) and A.is_const(n):
                n = int(A.const_of(n))
            if not isinstance(n, int):
                raise Unsupported('eye size')
            out = SArray((n, n), {}, A.const(0))
            for i in range(n):
                out.entries[(i, i)] = A.const(1)
            return out
        if q == 'numpy.diag' and len(args) == 1 and not kwargs:
            v = args[0]
            if isinstance(v, (list, tuple)):
                v = self.to_array(v)
            if isinstance(v, SArray) and len(v.shape) == 1 and not v.sample:
                n_ = v.shape[0]
                out = SArray((n_, n_), {}, A.const(0))
                for i in range(n_):
                    out.entries[(i, i)] = v.get((i,))
                return out
            if isinstance(v, SArray) and len(v.shape) == 2 and v.shape[0] == v.shape[1] and \
                    not v.sample:
                return SArray((v.shape[0],), {(i,): v.get((i, i)) for i in range(v.shape[0])})
            raise Unsupported('np.diag of %r' % (v,))
        if q == 'numpy.cross':
            return self.cross(args[0], args[1])
        if q == 'numpy.dot':
            r = self.matmul(args[0], args[1])
            if len(args) == 3:
                out = args[2]
                if isinstance(out, SArray):
                    if isinstance(r, SArray):
                        for i in r.indices():
                            out.entries[i] = r.get(i)
                        if hasattr(out, 'parr'):
                            pa, row = out.parr
                            for i in out.indices():
                                self.store(pa, (row,) + i, out.entries[i], node)
                    return out
                raise Unsupported('dot out=%r' % (out,))
            return r
        if q == 'numpy.sum':
            v = args[0]
            if isinstance(v, SArray) and not kwargs and len(args) == 1:
                s = A.const(0)
                for i in v.indices():
                    s = A.add(s, v.get(i))
                return s
            raise Unsupported('sum with axis')
        if q == 'numpy.transpose':
            axes = args[1] if len(args) > 1 else kwargs.get('axes')
            if axes is None:
                return self.transpose(args[0])
            return self.permute(args[0], axes)
        if q == 'numpy.swapaxes' and len(args) == 3 and not kwargs and \
                all(isinstance(x, int) and not isinstance(x, bool) for x in args[1:]):
            a_ = args[0]
            if not isinstance(a_, SArray):
                return a_
            nd = a_.ndim
            i_, j_ = (x + nd if x < 0 else x for x in args[1:])
            if not (0 <= i_ < nd and 0 <= j_ < nd):
                raise RuntimeFailure('np.swapaxes: axis out of range for %d dimensions' % nd)
            axes = list(range(nd))
            axes[i_], axes[j_] = axes[j_], axes[i_]
            return self.permute(a_, axes)
        if q == 'numpy.einsum' and isinstance(args[0], str) and len(args) == 3:
            if any(isinstance(x, Opaque) for x in args[1:]):
                return Opaque('einsum', *args)      # an operand the model does not look into
            return self.einsum(args[0], args[1], args[2])
        if q == 'numpy.ix_':
            return Opaque('ix', *args)
        if q == 'numpy.arange':
            return Opaque('arange', *args)
        if q == 'numpy.concatenate' and args and isinstance(args[0], (list, tuple)) and args[0] \
                and set(kwargs) <= {'axis'} and len(args) <= 2:
            # np.concatenate(seq, axis): the hstack / vstack it is for these operands
            ax_ = kwargs.get('axis', args[1] if len(args) > 1 else 0)
            seq_ = args[0]
            if all(isinstance(x, SArray) and len(x.shape) == 2 and not x.sample for x in seq_) \
                    and ax_ in (0, 1, -1):
                return self.call_ext('numpy.vstack' if ax_ == 0 else 'numpy.hstack', [seq_], {},
                                     node)
            if all((isinstance(x, SArray) and len(x.shape) == 1) or
                   (isinstance(x, (Rat, int, float)) and not isinstance(x, bool))
                   for x in seq_) and ax_ in (1, -1):
                # rows of the generic sample joined along the component axis
                return self.call_ext('numpy.hstack', [seq_], {}, node)
            if all(isinstance(x, SArray) and len(x.shape) == 1 and not x.sample
                   for x in seq_) and ax_ == 0:
                return self.call_ext('numpy.hstack', [seq_], {}, node)
            raise Unsupported('np.concatenate of these operands along axis %r' % (ax_,))
        if q in ('numpy.hstack', 'numpy.vstack', 'numpy.block') and \
                isinstance(args[0], (list, tuple)) and args[0] and \
                all(isinstance(x, SArray) and len(x.shape) == 2 for x in args[0]):
            seq = args[0]
            ax = 0 if q == 'numpy.vstack' else 1
            other = 1 - ax
            if len({x.shape[other] for x in seq}) != 1:
                raise Unsupported('stack of incompatible blocks')
            shape = [0, 0]
            shape[other] = seq[0].shape[other]
            shape[ax] = sum(x.shape[ax] for x in seq)
            out = SArray(tuple(shape), {})
            off = 0
            for x in seq:
                for i in x.indices():
                    j = list(i)
                    j[ax] += off
                    try:
                        out.entries[tuple(j)] = x.get(i)
                    except Unsupported:
                        pass
                off += x.shape[ax]
            return out
        if q in ('numpy.stack', 'numpy.column_stack') and isinstance(args[0], (list, tuple)) and \
                args[0] and all(isinstance(x, (Rat, int, float)) and not isinstance(x, bool)
                                for x in args[0]):
            ax = kwargs.get('axis', args[1] if len(args) > 1 else 0)
            if q == 'numpy.stack' and ax == 0 and 'axis' not in kwargs and len(args) == 1:
                # per-sample scalars along a NEW leading axis: (k, n), exactly np.vstack
                return self.call_ext('numpy.vstack', [args[0]], {}, node)
            if q == 'numpy.column_stack' or ax in (-1, 0, 1):
                # scalars of the generic sample stacked along the last (component) axis
                return SArray((len(args[0]),), {(i,): self.rat(x) for i, x in enumerate(args[0])})
        if q == 'numpy.hstack':
            seq = args[0]
            parts = []
            for x in seq:
                if isinstance(x, SArray) and len(x.shape) == 1:
                    parts += [x.get((i,)) for i in range(x.shape[0])]
                elif isinstance(x, (Rat, int, float)):
                    parts.append(self.rat(x))
                else:
                    raise Unsupported('hstack part')
            return SArray((len(parts),), {(i,): p for i, p in enumerate(parts)})
        if q in ('numpy.round', 'numpy.around', 'numpy.round_', 'numpy.rint', 'numpy.floor',
                 'numpy.ceil', 'numpy.trunc', 'numpy.fix', 'builtins.round') and args and \
                hasattr(A, 'func'):
            # quantisation is not the identity: an uninterpreted function of its argument
            name = q.split('.')[-1].rstrip('_')
            extra = [self.rat(x) for x in args[1:] if isinstance(x, (int, Rat))]
            extra += [self.rat(x) for x in kwargs.values() if isinstance(x, (int, Rat))]
            return self.emap(lambda x: A.func(name, x, *extra), args[0])
        if q == 'numpy.hypot':
            return self.emap(lambda x, y: A.sqrt(A.add(A.mul(x, x), A.mul(y, y))),
                             args[0], args[1])
        if q in ('numpy.arcsin', 'numpy.arccos', 'numpy.arctan', 'numpy.arctan2', 'numpy.exp',
                 'numpy.log'):
            name = q.split('.')[-1]
            if hasattr(A, 'func'):
                return self.emap(lambda *xs: A.func(name, *xs), *args)
            return self.emap(lambda *xs: A.call_atom('%s(%s)' % (name, ', '.join(
                A.key(x) for x in xs))), *args)
        if q == 'numpy.vstack' and isinstance(args[0], (list, tuple)) and \
                all(isinstance(x, (Rat, int, float)) for x in args[0]):
            # rows of per-sample scalars: (k, n) -> generic sample column
            out = SArray((len(args[0]),), {(i,): self.rat(x) for i, x in enumerate(args[0])},
                         None, True)
            out.stacked_rows = True
            return out
        if q == 'builtins.len':
            v = args[0]
            if isinstance(v, SArray):
                if v.sample:
                    return 1 if getattr(v, 'lead_one', False) else Opaque('len')
                return v.shape[0]
            if isinstance(v, (list, tuple, str, dict)):
                return len(v)
            if isinstance(v, PArr):
                return Opaque('len', v.name)
            if isinstance(v, Rec) and v.kind == 'frame':
                return Opaque('len')
            return Opaque('len')
        if q == 'builtins.range':
            vals = []
            for a in args:
                if isinstance(a, Rat) and A.is_const(a):
                    a = int(A.const_of(a))
                vals.append(a)
            if all(isinstance(a, int) for a in vals):
                return range(*vals)
            return Opaque('range-sym', *vals)
        if q == 'builtins.slice' and 1 <= len(args) <= 3 and not kwargs:
            vals = []
            for a in args:
                if isinstance(a, Rat) and A.is_const(a) and A.const_of(a).denominator == 1:
                    a = int(A.const_of(a))
                vals.append(a)
            if all(a is None or (isinstance(a, int) and not isinstance(a, bool)) for a in vals):
                return slice(*vals)
            return Opaque('slice', *vals)
        if q == 'numpy.diagonal' and args and isinstance(args[0], SArray):
            m_ = args[0]
            rank = len(m_.shape) + (1 if m_.sample else 0)
            ax1 = kwargs.get('axis1', args[2] if len(args) > 2 else 0)
            ax2 = kwargs.get('axis2', args[3] if len(args) > 3 else 1)
            off = kwargs.get('offset', args[1] if len(args) > 1 else 0)
            if not all(isinstance(v_, int) and not isinstance(v_, bool) for v_ in (ax1, ax2, off)):
                raise Unsupported('numpy.diagonal with symbolic axes')
            if off != 0 or set(kwargs) - {'axis1', 'axis2', 'offset'}:
                raise Unsupported('numpy.diagonal offset')
            for ax in (ax1, ax2):
                if not -rank <= ax < rank:
                    raise RuntimeFailure('numpy.diagonal: axis %d is out of bounds for an array of '
                                         'dimension %d' % (ax, rank))
            ax1, ax2 = ax1 % rank, ax2 % rank
            if ax1 == ax2:
                raise RuntimeFailure('numpy.diagonal: axis1 and axis2 cannot be the same')
            lead = 1 if m_.sample else 0
            if len(m_.shape) == 2 and {ax1, ax2} == {lead, lead + 1}:
                if m_.shape[0] != m_.shape[1]:
                    k_ = min(m_.shape)
                else:
                    k_ = m_.shape[0]
                out = SArray((k_,), {}, None, m_.sample)
                for i_ in range(k_):
                    out.entries[(i_,)] = m_.get((i_, i_))
                return out
            raise Unsupported('numpy.diagonal over axes (%d, %d) of a rank-%d array'
                              % (ax1, ax2, rank))
        if q == 'builtins.zip' and args and not kwargs:
            seqs = []
            for a in args:
                if isinstance(a, SArray) and len(a.shape) == 1 and not a.sample:
                    seqs.append([a.get((i,)) for i in range(a.shape[0])])
                elif isinstance(a, (list, tuple)):
                    seqs.append(list(a))
                else:
                    seqs = None
                    break
            if seqs is not None:
                if len({len(x) for x in seqs}) != 1:
                    # zip truncates silently: not modelled (a length disagreement is usually
                    # what the analysed code guards against)
                    raise Unsupported('zip of sequences of different lengths')
                return [tuple(t) for t in zip(*seqs)]
        if q == 'builtins.reversed':
            return list(reversed(list(args[0])))
        if q == 'builtins.enumerate' and args and isinstance(args[0], (list, tuple)) and \
                set(kwargs) <= {'start'} and len(args) <= 2:
            st_ = kwargs.get('start', args[1] if len(args) > 1 else 0)
            if isinstance(st_, int) and not isinstance(st_, bool):
                return [(st_ + k_, x_) for k_, x_ in enumerate(args[0])]
        if q == 'builtins.isinstance':
            return self.isinstance_(args[0], node.args[1])
        if q == 'builtins.abs':
            return Opaque('abs', args[0])
        if q in ('builtins.min', 'builtins.max', 'numpy.maximum', 'numpy.minimum', 'numpy.fmax',
                 'numpy.fmin') and len(args) == 2 and not kwargs:
            v = self._bound_by_const(q, args)
            if v is not None:
                return v
            return Opaque(q, *args)
        if q in ('builtins.min', 'builtins.max'):
            return Opaque(q, *args)
        if q == 'builtins.all' or q == 'builtins.any':
            v = args[0] if args else None
            if isinstance(v, (list, tuple)):
                ts = [self.truth(x) for x in v]
                if all(t is not None for t in ts):
                    return all(ts) if q.endswith('all') else any(ts)
            return UNK
        if q == 'numpy.reshape' and len(args) == 2 and not kwargs and \
                isinstance(args[0], (list, tuple)) and args[0] and \
                all(isinstance(x, (Rat, int, float)) and not isinstance(x, bool) for x in args[0]) \
                and isinstance(args[1], (list, tuple)) and len(args[1]) == 2:
            # np.reshape([a, b, ...], (n, k)) of k per-sample scalars.  One sample: a (1, k) row.
            # A stack: the list is a (k, n) array, and re-reading it row-major as (n, k) puts
            # values of OTHER samples into row i (a transpose was meant) - the entries are then
            # uninterpreted atoms, equal to nothing the scalar form produces
            k = len(args[0])
            d0, d1 = args[1]
            c0 = int(self.A.const_of(d0)) if isinstance(d0, Rat) and self.A.is_const(d0) else d0
            c1 = int(self.A.const_of(d1)) if isinstance(d1, Rat) and self.A.is_const(d1) else d1
            if c1 == k and c0 == 1 and not self.stacked:
                # the leading axis of length one is the (implicit) sample axis
                return SArray((k,), {(j,): self.rat(x) for j, x in enumerate(args[0])}, None, True)
            if c1 == k and self.stacked and not isinstance(c0, int):
                if k == 1:
                    return SArray((1,), {(0,): self.rat(args[0][0])}, None, True)
                self._scr = getattr(self, '_scr', 0) + 1
                return SArray((k,), {(j,): self.A.call_atom(
                    'rows_mixed_by_reshape(%d,%d@%d)' % (self._scr, j, getattr(node, 'lineno', 0)))
                    for j in range(k)}, None, True)
        if q in ('numpy.all', 'numpy.any') and len(args) == 1 and not kwargs and \
                isinstance(args[0], (SArray, list, tuple)):
            # element-wise truth: numeric constants decide, generic symbols do not
            v = args[0]
            items = [v.get(i) for i in v.indices()] if isinstance(v, SArray) else list(v)
            # a generic symbol stands for a generic real number: not zero.  The special points
            # (a component that is exactly zero) are separate configurations of the rules that
            # care (e.g. the partially zero lever arm of H-JACOBIAN)
            ts = [self.truth(x) if not (isinstance(x, Rat) and not self.A.is_const(x))
                  else (False if self.A.is_zero(x) else True) for x in items]
            if q.endswith('all'):
                if any(t is False for t in ts):
                    return False
                return True if all(t is True for t in ts) else UNK
            if any(t is True for t in ts):
                return True
            return False if all(t is False for t in ts) else UNK
        if q == 'builtins.bool':
            return self.truth(args[0])
        if q == 'numpy.where' and len(args) == 3 and not kwargs and hasattr(A, 'func') and \
                isinstance(args[0], Opaque) and \
                all(isinstance(x, (SArray, Rat, int, float)) and not isinstance(x, bool)
                    for x in args[1:]) and any(isinstance(x, SArray) for x in args[1:]):
            # selection by a condition the analysis does not decide: every element is EITHER the
            # one or the other - the uninterpreted `masked` function of the two (see store)
            self._mask_id = getattr(self, '_mask_id', 0) + 1
            tag = A.const(self._mask_id)
            return self.emap(lambda x, y: x if A.eq(x, y) else A.func('masked', tag, y, x),
                             args[1], args[2])
        return Opaque('extcall', q, args, kwargs)

    def _particular_sample(self, v, k):
        """the value v (of the generic sample) re-expressed for sample number k: every atom that
        is not a numeric constant of the package is renamed `<atom>@row<k>`"""
        A = self.A

        def one(x):
            if not isinstance(x, Rat):
                return x
            mp = {}
            for a in A.atoms_of(x):
                for b in [a] + list(A._nested_atoms(a)):
                    if b in getattr(A, 'numeric', {}) or '@row' in b:
                        continue
                    if b in A.sin_arg or b in A.cos_arg or b in A.sqrt_of or \
                            b in getattr(A, 'inv_of', {}) or b in getattr(A, 'func_arg', {}) or \
                            b.startswith('inv('):
                        continue          # structured atoms are rebuilt from their arguments
                    mp[b] = A.sym('%s@row%d' % (b, k))
            return A.subst(x, mp) if mp else x
        if isinstance(v, SArray):
            out = SArray(v.shape, {}, v.default, v.sample)
            for i, x in v.entries.items():
                out.entries[i] = one(x)
            return out
        return one(v)

    def _domain_of(self, at):
        """documented domain of a leaf atom: a state component by name, or the latitude /
        longitude element of a position row (`lla[<row>,0]`, `lla[<row>,1]`)"""
        if at in DOMAINS:
            return DOMAINS[at]
        m = re.match(r'^(\w*lla\w*)\[[^\],]*,\s*([01])\](@\d+)?$', at)
        if m:
            return DOMAINS['lat' if m.group(2) == '0' else 'lon']
        return None

    def _bound_by_const(self, q, args):
        """max(x, c) / min(x, c) with a numeric bound c.  A guard that never engages on the
        documented domain of x would be the identity, but proving that needs interval reasoning
        this evaluator does not have; what it CAN do soundly is exhibit a point of the documented
        domain where the bound engages (x < c for max, x > c for min): then the call is a
        different function of x inside the domain, and it is carried as an uninterpreted
        function atom so that the rules see the difference.  No witness -> None (the caller
        keeps the opaque value and the analysis ends without a verdict)."""
        A = self.A
        want_max = q.endswith(('max', 'maximum', 'fmax'))
        if any(isinstance(x, SArray) for x in args) and q.startswith('numpy.'):
            # elementwise, with broadcasting of a scalar operand
            arr = next(x for x in args if isinstance(x, SArray))
            out = SArray(arr.shape, {}, None, arr.sample)
            for i in arr.indices():
                pair = [x.get(i) if isinstance(x, SArray) else x for x in args]
                r_ = self._bound_by_const(q, pair)
                if r_ is None:
                    return None
                out.entries[i] = r_
            return out

        def cnum(v_):
            if isinstance(v_, bool):
                return None
            if isinstance(v_, (int, float, Fraction)):
                return Fraction(v_) if not isinstance(v_, float) else Fraction(repr(v_))
            if isinstance(v_, Rat) and A.is_const(v_):
                return A.const_of(v_)
            return None
        c0, c1 = cnum(args[0]), cnum(args[1])
        if c0 is not None and c1 is not None:
            return A.const(max(c0, c1) if want_max else min(c0, c1))

        def num(v_):
            if isinstance(v_, bool):
                return None
            if isinstance(v_, (int, float)):
                return float(v_)
            if isinstance(v_, Rat) and A.is_const(v_):
                return float(A.const_of(v_))
            return None
        if isinstance(args[0], Rat) and isinstance(args[1], Rat) and \
                not A.is_const(args[0]) and not A.is_const(args[1]):
            # max(x, y) / min(x, y) of two expressions: a genuinely two-armed function when the
            # documented domain holds a point with x < y AND one with x > y
            d_ = A.sub(args[0], args[1])
            lo_w = self._witness(d_, below=True)
            hi_w = self._witness(d_, below=False)
            if lo_w is not None and hi_w is not None:
                return A.func('max' if want_max else 'min', args[0], args[1])
            return None
        for x, c in ((args[0], args[1]), (args[1], args[0])):
            cv = num(c)
            if cv is None or not isinstance(x, Rat) or A.is_const(x):
                continue
            xe = x
            if self.names_as_atoms:
                try:
                    xe = self.expand(x)
                except Unsupported:
                    xe = x

            def witness(x=xe):
                import itertools
                leaves = set()

                def probe(at):
                    leaves.add(at)
                    return 0.3
                try:
                    A.numeval(x, probe)
                except (ValueError, OverflowError, ZeroDivisionError):
                    pass
                doms = {}
                fixed = {}
                import math as _m
                for at in leaves:
                    if at == A.D2R:
                        fixed[at] = _m.pi / 180
                        continue
                    if at in getattr(A, 'numeric', {}):
                        fixed[at] = float(A.numeric[at])
                        continue
                    d = self._domain_of(at)
                    if d is None:
                        return None
                    doms[at] = d
                if not doms or len(doms) > 2:
                    return None
                names = sorted(doms)
                axes = []
                for at in names:
                    lo, hi = doms[at]
                    # interior points only: the ends of a documented domain may be singular
                    axes.append([lo + (hi - lo) * k / 40.0 for k in range(1, 40)] +
                                [lo + (hi - lo) * f_ for f_ in (0.005, 0.995)])
                for pt in itertools.product(*axes):
                    env_ = dict(zip(names, pt))
                    env_.update(fixed)
                    try:
                        val = A.numeval(x, lambda at: env_[at])[0]
                    except (ValueError, OverflowError, ZeroDivisionError, KeyError):
                        continue
                    if (want_max and val < cv - 1e-9 * max(1.0, abs(cv))) or \
                            (not want_max and val > cv + 1e-9 * max(1.0, abs(cv))):
                        return env_
                return None
            w = witness()
            if w is None:
                return None
            return A.func('max' if want_max else 'min', x, self.rat(c))
        return None

    def _witness(self, d, below):
        """a point of the documented domain of the atoms of d where d < 0 (below) / d > 0; None
        when some atom has no documented domain or no point of the grid qualifies"""
        import itertools
        import math as _m
        A = self.A
        if self.names_as_atoms:
            try:
                d = self.expand(d)
            except Unsupported:
                pass
        leaves = set()
        try:
            A.numeval(d, lambda at: (leaves.add(at), 0.3)[1])
        except (ValueError, OverflowError, ZeroDivisionError):
            pass
        doms, fixed = {}, {}
        for at in leaves:
            if at == A.D2R:
                fixed[at] = _m.pi / 180
            elif at in getattr(A, 'numeric', {}):
                fixed[at] = float(A.numeric[at])
            else:
                dm = self._domain_of(at)
                if dm is None:
                    return None
                doms[at] = dm
        if not doms or len(doms) > 3:
            return None
        names = sorted(doms)
        axes = [[lo + (hi - lo) * f_ for f_ in (0.005, 0.03, 0.25, 0.5, 0.75, 0.97, 0.995)]
                for lo, hi in (doms[n_] for n_ in names)]
        for pt in itertools.product(*axes):
            env_ = dict(zip(names, pt))
            env_.update(fixed)
            try:
                val, mag = A.numeval(d, lambda at: env_[at])
            except (ValueError, OverflowError, ZeroDivisionError, KeyError):
                continue
            if (below and val < -1e-9 * max(1.0, mag)) or (not below and val > 1e-9 * max(1.0, mag)):
                return env_
        return None

    def isinstance_(self, v, tnode):
        names = []
        for n in (tnode.elts if isinstance(tnode, ast.Tuple) else [tnode]):
            names.append(self.cur.module.resolve(n) or '')
        is_series = isinstance(v, Rec) and v.kind == 'series'
        is_frame = isinstance(v, Rec) and v.kind == 'frame'
        if isinstance(v, Rat) and getattr(self, 'columns_are_series', False):
            is_series = True       # table form: a per-sample scalar is a column of the table
        r = False
        for q in names:
            if q.endswith('pandas.Series') and is_series:
                r = True
            elif q.endswith('pandas.DataFrame') and is_frame:
                r = True
        if isinstance(v, Opaque):
            return UNK
        return r

    def alloc(self, shape, default):
        if isinstance(shape, (int, Rat, Opaque)):
            shape = (shape,)
        dims = []
        for d in shape:
            if isinstance(d, Rat) and self.A.is_const(d):
                d = int(self.A.const_of(d))
            dims.append(d)
        sample = False
        if len(dims) >= 2 and not isinstance(dims[-1], int) and \
                all(isinstance(d, int) for d in dims[:-1]):
            # (k, n): component axis first, sample axis last ("stacked rows"); .T restores (n, k)
            out = SArray(tuple(dims[:-1]), {}, default, False)
            out.stacked_rows = True
            out.from_empty = default is None
            return out
        lead_one = False
        if len(dims) >= 2 and (dims[0] == 1 or not isinstance(dims[0], int)):
            sample = True
            lead_one = dims[0] == 1
            dims = dims[1:]
        if len(dims) == 1 and not isinstance(dims[0], int):
            # one value per sample: evaluated for the generic sample
            return default if default is not None else Opaque('uninit')
        if not all(isinstance(d, int) for d in dims):
            raise Unsupported('symbolic shape %r' % (shape,))
        out = SArray(tuple(dims), {}, default, sample)
        out.lead_one = lead_one
        out.from_empty = default is None
        return out
