"""Program-model normalisation: private helpers that did not exist on the pinned tree are inlined.

"Extract a helper" is the most common refactoring there is, and a rule that reads the shape of a
function (which statement guards which, what is returned, where a buffer is written) must see
through it.  The rules anchor on the functions of the pinned tree, public and private
(`PINNED_PRIVATE`); any OTHER private function or method of a module is a helper somebody
introduced later, and a call to it is read as its body:

  * an expression helper (`def _h(a, b): return <e>`) is substituted wherever it is called;
  * a call that is a whole statement, the whole right-hand side of an assignment, or a whole
    returned value is replaced by the helper's statements (locals renamed apart, a final
    `return <e>` becoming the assignment / the return; a leading `if c: return` guard of a
    procedure wraps the rest in `if not c:`).

Only calls whose arguments bind positionally / by keyword to plain parameters are inlined (no
star-arguments, no *args / **kwargs in the helper, no recursion, no generators, no nested
functions).  Anything else is left as a call - the rules then see a call to an unknown private
function, exactly as before.  The helper definitions themselves stay in the module.
"""
import ast
import copy

PINNED_PRIVATE = {
    '_apply_smoothing', '_compute_error_propagation_matrices', '_compute_feedforward_result',
    '_compute_increment_readings', '_compute_sd', '_correct_increments', '_has_rph',
    '_initialize_covariance', '_integrate', '_interpolate_pva', '_phi_to_delta_rph',
    '_transform_3d_2d', '_transform_to_output_3d', '_verify_param', '_verify_parameter',
}
_OK_DECORATORS = {'njit', 'jit', 'staticmethod'}


def _decorator_names(fn):
    out = set()
    for d in fn.decorator_list:
        e = d.func if isinstance(d, ast.Call) else d
        out.add(e.attr if isinstance(e, ast.Attribute) else getattr(e, 'id', '?'))
    return out


def _strip_doc(body):
    return [st for i, st in enumerate(body)
            if not (i == 0 and isinstance(st, ast.Expr) and isinstance(st.value, ast.Constant)
                    and isinstance(st.value.value, str))]


class _Helper:
    def __init__(self, fn, is_method):
        self.fn, self.is_method = fn, is_method
        a = fn.args
        self.params = [x.arg for x in a.posonlyargs + a.args]
        self.kwonly = [x.arg for x in a.kwonlyargs]
        self.defaults = dict(zip(self.params[len(self.params) - len(a.defaults):], a.defaults))
        self.defaults.update({k.arg: d for k, d in zip(a.kwonlyargs, a.kw_defaults)
                              if d is not None})
        self.static = 'staticmethod' in _decorator_names(fn)

    @property
    def body(self):
        # read from the definition each time: the helper's own body may have been normalised
        # (helpers inlined into it) since this object was made
        return _strip_doc(self.fn.body)

    def usable(self):
        fn = self.fn
        if fn.args.vararg or fn.args.kwarg:
            return False
        if not _decorator_names(fn) <= _OK_DECORATORS:
            return False
        for n in ast.walk(fn):
            if n is not fn and isinstance(n, (ast.FunctionDef, ast.AsyncFunctionDef, ast.Lambda,
                                              ast.ClassDef, ast.Yield, ast.YieldFrom, ast.Global,
                                              ast.Nonlocal, ast.Await)):
                return False
            if isinstance(n, ast.Call):
                f = n.func
                nm = f.attr if isinstance(f, ast.Attribute) else getattr(f, 'id', None)
                if nm == fn.name:
                    return False          # recursion
        return bool(self.body)

    def expression(self):
        """the returned expression of a helper that is nothing but `return <e>`"""
        if len(self.body) == 1 and isinstance(self.body[0], ast.Return) and \
                self.body[0].value is not None:
            return self.body[0].value
        return None

    def returns(self):
        return [n for st in self.body for n in ast.walk(st) if isinstance(n, ast.Return)]


def _bind(h, call, receiver_is_self):
    """parameter -> argument expression, or None when the call does not bind plainly"""
    if any(isinstance(a, ast.Starred) for a in call.args) or any(k.arg is None
                                                                 for k in call.keywords):
        return None
    params = list(h.params)
    bind = {}
    if h.is_method and not h.static:
        if not params:
            return None
        bind[params[0]] = ast.Name('self', ast.Load()) if receiver_is_self else None
        if bind[params[0]] is None:
            return None
        params = params[1:]
    if len(call.args) > len(params):
        return None
    for p, a in zip(params, call.args):
        bind[p] = a
    for k in call.keywords:
        if k.arg in bind or k.arg not in params + h.kwonly:
            return None
        bind[k.arg] = k.value
    for p in params + h.kwonly:
        if p not in bind:
            if p not in h.defaults:
                return None
            bind[p] = h.defaults[p]
    return bind


def _simple(e):
    return isinstance(e, (ast.Name, ast.Constant)) or (
        isinstance(e, ast.Attribute) and isinstance(e.value, ast.Name)) or (
        isinstance(e, ast.UnaryOp) and isinstance(e.operand, ast.Constant))


class _Subst(ast.NodeTransformer):
    def __init__(self, mapping, rename):
        self.mapping, self.rename = mapping, rename

    def visit_Name(self, node):
        if node.id in self.mapping and isinstance(node.ctx, ast.Load):
            return ast.copy_location(copy.deepcopy(self.mapping[node.id]), node)
        if node.id in self.rename:
            return ast.copy_location(ast.Name(self.rename[node.id], node.ctx), node)
        return node


def _assign(targets, value):
    """`a, b = (x, y)` as two assignments when no target is read on the right-hand side (the
    rules bind single names more readily than tuple patterns)"""
    if len(targets) == 1 and isinstance(targets[0], ast.Tuple) and \
            isinstance(value, ast.Tuple) and len(targets[0].elts) == len(value.elts) and \
            all(isinstance(t, ast.Name) for t in targets[0].elts):
        names = {t.id for t in targets[0].elts}
        used = {n.id for n in ast.walk(value) if isinstance(n, ast.Name)}
        if not (names & used):
            return [ast.Assign(targets=[copy.deepcopy(t)], value=v)
                    for t, v in zip(targets[0].elts, value.elts)]
    return [ast.Assign(targets=copy.deepcopy(targets), value=value)]


class _Inliner:
    def __init__(self, tree):
        self.tree = tree
        self.counter = 0
        self.module_helpers = {}
        self.class_helpers = {}          # class name -> {method: helper}
        for st in tree.body:
            if isinstance(st, ast.FunctionDef) and self._candidate(st.name):
                h = _Helper(st, False)
                if h.usable():
                    self.module_helpers[st.name] = h
            if isinstance(st, ast.ClassDef):
                hs = {}
                for m in st.body:
                    if isinstance(m, ast.FunctionDef) and self._candidate(m.name):
                        h = _Helper(m, True)
                        if h.usable() and 'classmethod' not in _decorator_names(m):
                            hs[m.name] = h
                self.class_helpers[st.name] = hs

    @staticmethod
    def _candidate(name):
        return name.startswith('_') and not name.startswith('__') and name not in PINNED_PRIVATE

    def any(self):
        return bool(self.module_helpers) or any(self.class_helpers.values())

    # ------------------------------------------------------------------ lookup
    def _helper_of(self, call, cls):
        f = call.func
        if isinstance(f, ast.Name) and f.id in self.module_helpers:
            return self.module_helpers[f.id], False
        if isinstance(f, ast.Attribute) and isinstance(f.value, ast.Name) and cls is not None:
            hs = self.class_helpers.get(cls, {})
            if f.attr in hs and f.value.id in ('self', cls):
                h = hs[f.attr]
                if f.value.id == cls and not h.static:
                    return None, False
                return h, f.value.id == 'self' or h.static
        return None, False

    # ------------------------------------------------------- expression helpers
    def _expr_pass(self, node, cls, owner):
        """substitute calls to expression helpers inside `node`; -> changed?"""
        changed = False
        inl = self

        class T(ast.NodeTransformer):
            def visit_Call(self, call):
                nonlocal changed
                self.generic_visit(call)
                h, recv = inl._helper_of(call, cls)
                if h is None or h.fn is owner:
                    return call
                e = h.expression()
                if e is None:
                    return call
                bind = _bind(h, call, recv)
                if bind is None:
                    return call
                # every parameter is used at most once, or its argument is simple
                uses = {}
                for n in ast.walk(e):
                    if isinstance(n, ast.Name):
                        uses[n.id] = uses.get(n.id, 0) + 1
                if any(uses.get(p, 0) > 1 and not _simple(a) for p, a in bind.items()):
                    return call
                # comprehension variables of the helper must not capture argument names
                stored = {n.id for n in ast.walk(e) if isinstance(n, ast.Name) and
                          isinstance(n.ctx, ast.Store)}
                free = {n.id for a in bind.values() for n in ast.walk(a)
                        if isinstance(n, ast.Name)}
                if stored & (free | set(bind)):
                    return call
                changed = True
                return ast.copy_location(_Subst(bind, {}).visit(copy.deepcopy(e)), call)
        T().visit(node)
        return changed

    # -------------------------------------------------------- statement helpers
    def _expand_stmt(self, st, cls, owner):
        """-> list of statements replacing st, or None"""
        call, kind = None, None
        if isinstance(st, ast.Expr) and isinstance(st.value, ast.Call):
            call, kind = st.value, 'proc'
        elif isinstance(st, ast.Assign) and isinstance(st.value, ast.Call):
            call, kind = st.value, 'assign'
        elif isinstance(st, ast.Return) and isinstance(st.value, ast.Call):
            call, kind = st.value, 'return'
        if call is None or self._helper_of(call, cls)[0] is None:
            # a statement helper called inside a larger expression: evaluate it first into a
            # fresh local (its arguments are plain names, so nothing is reordered that could
            # observe the difference) and expand that assignment
            if isinstance(st, (ast.Assign, ast.AugAssign, ast.Return, ast.Expr)) and \
                    getattr(st, 'value', None) is not None:
                for n in ast.walk(st.value):
                    if isinstance(n, ast.Call) and n is not st.value:
                        h2, recv2 = self._helper_of(n, cls)
                        if h2 is not None and h2.fn is not owner and h2.expression() is None \
                                and all(_simple(a) for a in n.args) and \
                                all(_simple(k.value) for k in n.keywords):
                            self.counter += 1
                            tmp = '%s_value%d' % (h2.fn.name.strip('_'), self.counter)
                            pre_st = ast.copy_location(ast.Assign(
                                targets=[ast.Name(tmp, ast.Store())], value=copy.deepcopy(n)), st)
                            rep = self._expand_stmt(pre_st, cls, owner)
                            if rep is None:
                                return None

                            class R(ast.NodeTransformer):
                                def visit_Call(self, c):
                                    if c is n:
                                        return ast.copy_location(ast.Name(tmp, ast.Load()), c)
                                    self.generic_visit(c)
                                    return c
                            st.value = R().visit(st.value)
                            return rep + [st]
            return None
        h, recv = self._helper_of(call, cls)
        if h is None or h.fn is owner or h.expression() is not None:
            return None
        bind = _bind(h, call, recv)
        if bind is None:
            return None
        body = h.body
        rets = h.returns()
        guard = None
        multi = False
        if kind == 'proc':
            # allowed: no return at all; a trailing bare `return`; one leading `if c: return`
            if body and isinstance(body[0], ast.If) and not body[0].orelse and \
                    len(body[0].body) == 1 and isinstance(body[0].body[0], ast.Return) and \
                    body[0].body[0].value is None:
                guard, body = body[0].test, body[1:]
            if body and isinstance(body[-1], ast.Return) and body[-1].value is None:
                body = body[:-1]
            if any(isinstance(n, ast.Return) for s_ in body for n in ast.walk(s_)):
                return None
            final = None
        elif kind == 'return':
            # the call is a whole returned value: every `return <e>` of the helper is a return
            # of the caller
            if any(r.value is None for r in rets) or not rets or \
                    not isinstance(body[-1], ast.Return):
                return None
            final = None
        else:
            if not (body and isinstance(body[-1], ast.Return) and body[-1].value is not None):
                return None
            if len(rets) == 1:
                final, body = body[-1].value, body[:-1]
            else:
                # early returns at the top level: `if c: ...; return a` / `...; return b`
                # becomes `if c: ...; x = a` / `else: ...; x = b` (after the helper's locals
                # have been renamed apart - the caller's targets are not the helper's names)
                if self._returns_to_assign(body, st.targets) is None:
                    return None
                multi = True
                final = None
        self.counter += 1
        tag = '__%s%d' % (h.fn.name.strip('_'), self.counter)
        stored = {n.id for s_ in h.body for n in ast.walk(s_)
                  if isinstance(n, ast.Name) and isinstance(n.ctx, ast.Store)}
        pre = []
        mapping = {}
        for p, a in bind.items():
            if p in stored or not _simple(a):
                # a parameter the helper re-binds, or an argument that is not a plain name:
                # evaluate once into a fresh local
                t = p + tag
                pre.append(ast.Assign(targets=[ast.Name(t, ast.Store())], value=copy.deepcopy(a)))
                mapping[p] = ast.Name(t, ast.Load())
            else:
                mapping[p] = a
        rename = {nm: nm + tag for nm in stored if nm not in bind}
        for p in bind:
            if p in stored:
                rename[p] = p + tag
        sub = _Subst({k: v for k, v in mapping.items() if k not in rename}, rename)
        new_body = [sub.visit(copy.deepcopy(s_)) for s_ in body]
        if multi:
            new_body = self._returns_to_assign(new_body, st.targets)
        out = list(pre)
        if guard is not None:
            g = sub.visit(copy.deepcopy(guard))
            out.append(ast.If(test=ast.UnaryOp(op=ast.Not(), operand=g),
                              body=new_body or [ast.Pass()], orelse=[]))
        else:
            out.extend(new_body)
        if final is not None:
            fe = sub.visit(copy.deepcopy(final))
            if kind == 'assign':
                out.extend(_assign(st.targets, fe))
            else:
                out.append(ast.Return(value=fe))
        for n in out:
            ast.copy_location(n, st)
            for x in ast.walk(n):
                if not hasattr(x, 'lineno'):
                    ast.copy_location(x, st)
        return out or [ast.copy_location(ast.Pass(), st)]

    def _returns_to_assign(self, body, targets):
        def conv(stmts):
            if not stmts:
                return None
            out = []
            for k, s_ in enumerate(stmts):
                last = k == len(stmts) - 1
                if isinstance(s_, ast.Return):
                    if not last or s_.value is None:
                        return None
                    out.extend(_assign(targets, s_.value))
                    return out
                if isinstance(s_, ast.If) and any(isinstance(n, ast.Return)
                                                  for n in ast.walk(s_)):
                    a = conv(s_.body)
                    if a is None or not isinstance(s_.body[-1], ast.Return):
                        return None
                    rest = s_.orelse if s_.orelse else stmts[k + 1:]
                    if s_.orelse and not last:
                        return None
                    b = conv(rest)
                    if b is None:
                        return None
                    out.append(ast.If(test=s_.test, body=a, orelse=b))
                    return out
                if any(isinstance(n, ast.Return) for n in ast.walk(s_)):
                    return None
                out.append(s_)
            return None          # fell off the end without a return
        return conv(body)

    def _blocks(self, fn):
        for node in ast.walk(fn):
            for fld in ('body', 'orelse', 'finalbody'):
                blk = getattr(node, fld, None)
                if isinstance(blk, list) and blk and isinstance(blk[0], ast.stmt):
                    yield blk
            if isinstance(node, ast.Try):
                for hd in node.handlers:
                    yield hd.body

    def _function(self, fn, cls):
        changed = False
        for _ in range(4):
            again = False
            for blk in list(self._blocks(fn)):
                i = 0
                while i < len(blk):
                    rep = self._expand_stmt(blk[i], cls, fn)
                    if rep is not None:
                        blk[i:i + 1] = rep
                        again = True
                        i += len(rep)
                    else:
                        i += 1
            if self._expr_pass(fn, cls, fn):
                again = True
            changed = changed or again
            if not again:
                break
        if changed:
            fn._inlined_helpers = True
        return changed

    def run(self):
        changed = False
        for st in self.tree.body:
            if isinstance(st, ast.FunctionDef):
                changed = self._function(st, None) or changed
            elif isinstance(st, ast.ClassDef):
                for m in st.body:
                    if isinstance(m, ast.FunctionDef):
                        changed = self._function(m, st.name) or changed
        if changed:
            ast.fix_missing_locations(self.tree)
        return self.tree


def inline_new_helpers(tree):
    inl = _Inliner(tree)
    if not inl.any():
        return tree
    return inl.run()
