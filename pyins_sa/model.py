"""E0 - program model of /repo/pyins built from the syntax tree only.

Nothing here imports or executes pyins.  The model gives: modules, import
resolution to qualified names, module/class constants with constant folding,
classes with bases and methods, functions with numpydoc parameter kinds, the
public surface, and light local type inference (which local holds an instance
of which repository class).
"""
import ast
import os
import re
import warnings
from fractions import Fraction

PKG = 'pyins'
PUBLIC_MODULES = ['earth', 'error_model', 'filters', 'inertial_sensor', 'kalman',
                  'measurements', 'sim', 'strapdown', 'transform', 'util']


class NPArray(list):
    """A folded `np.array(<literal>)` constant."""


class AnalysisError(Exception):
    """Anchor vanished / model cannot be built: exit code 2, never a verdict."""


def norm_text(node):
    """Normalised source text of a node: stable under reformatting."""
    return ast.unparse(node)


class FunctionInfo:
    def __init__(self, module, qualname, node, cls=None):
        self.module = module
        self.qualname = qualname          # 'Integrator._integrate' or 'gravity'
        self.node = node
        self.cls = cls
        self.name = node.name
        a = node.args
        self.params = [x.arg for x in a.posonlyargs + a.args]
        self.kwonly = [x.arg for x in a.kwonlyargs]
        self.vararg = a.vararg.arg if a.vararg else None
        self.kwarg = a.kwarg.arg if a.kwarg else None
        n_def = len(a.defaults)
        self.defaults = {}
        for p, d in zip(self.params[len(self.params) - n_def:], a.defaults):
            self.defaults[p] = d
        for p, d in zip(self.kwonly, a.kw_defaults):
            if d is not None:
                self.defaults[p] = d
        self.decorators = [module.resolve(d.func if isinstance(d, ast.Call) else d)
                           for d in node.decorator_list]
        self.is_static = 'staticmethod' in self.decorators
        self.is_classmethod = 'classmethod' in self.decorators
        self.is_property = 'property' in self.decorators
        self._locals = None
        self._doc = None

    @property
    def fq(self):
        return self.module.name + '.' + self.qualname

    @property
    def file(self):
        return self.module.relpath

    def local_names(self):
        """Names bound inside the function (parameters and stores)."""
        if self._locals is None:
            s = set(self.params) | set(self.kwonly)
            if self.vararg:
                s.add(self.vararg)
            if self.kwarg:
                s.add(self.kwarg)
            for n in ast.walk(self.node):
                if isinstance(n, ast.Name) and isinstance(n.ctx, (ast.Store, ast.Del)):
                    s.add(n.id)
                elif isinstance(n, (ast.FunctionDef, ast.ClassDef)) and n is not self.node:
                    s.add(n.name)
                elif isinstance(n, ast.arg):
                    s.add(n.arg)
            self._locals = s
        return self._locals

    def doc_kinds(self):
        """numpydoc 'Parameters' section -> {param: type text}."""
        if self._doc is None:
            doc = ast.get_docstring(self.node) or ''
            if self.cls is not None and self.name == '__init__':
                doc = ast.get_docstring(self.cls.node) or ''
            self._doc = parse_numpydoc(doc)
        return self._doc

    def is_public(self):
        if self.cls is not None:
            if self.cls.name.startswith('_'):
                return False
            return (not self.name.startswith('_')) or self.name == '__init__'
        return not self.name.startswith('_')

    def __repr__(self):
        return '<fn %s>' % self.fq


def parse_numpydoc(doc):
    res = {'params': {}, 'returns': []}
    lines = doc.splitlines()
    sect = None
    i = 0
    while i < len(lines):
        ln = lines[i]
        if i + 1 < len(lines) and re.fullmatch(r'\s*-{3,}\s*', lines[i + 1]):
            sect = ln.strip().lower()
            i += 2
            continue
        m = re.match(r'^(\s*)([A-Za-z_][\w, ]*?)\s*:\s*(.+)$', ln)
        if sect == 'parameters' and m and len(m.group(1)) == 0:
            for nm in m.group(2).split(','):
                res['params'][nm.strip()] = m.group(3).strip()
        elif sect == 'returns' and ln and not ln.startswith(' '):
            m2 = re.match(r'^([A-Za-z_]\w*)\s*:\s*(.+)$', ln)
            if m2:
                res['returns'].append((m2.group(1), m2.group(2).strip()))
            else:
                res['returns'].append((None, ln.strip()))
        i += 1
    return res


class ClassInfo:
    def __init__(self, module, node):
        self.module = module
        self.node = node
        self.name = node.name
        self.bases = [module.resolve(b) for b in node.bases]
        self.methods = {}
        self.consts = {}          # name -> value node
        self.const_order = []
        for st in node.body:
            if isinstance(st, ast.FunctionDef):
                self.methods[st.name] = FunctionInfo(module, node.name + '.' + st.name,
                                                     st, self)
            elif isinstance(st, ast.Assign) and len(st.targets) == 1 and \
                    isinstance(st.targets[0], ast.Name):
                self.consts[st.targets[0].id] = st.value
                self.const_order.append(st.targets[0].id)

    @property
    def fq(self):
        return self.module.name + '.' + self.name


def positional_layout(repo, module, local_names, call):
    """Positions of the positional arguments of a call, with star-unpacking resolved where the
    length of the unpacked sequence is known (a tuple / list display, or a call to a package
    function whose only return is one).  -> list of (position or None, argument node); a
    position is None from the first starred argument of unknown length on."""
    out, pos = [], 0
    for a in call.args:
        if isinstance(a, ast.Starred):
            n = None
            v = a.value
            if isinstance(v, (ast.Tuple, ast.List)):
                n = len(v.elts)
            elif isinstance(v, ast.Call):
                q = module.resolve(v.func, local_names) if module is not None else None
                tgt = repo.lookup(q) if q and q.startswith('pyins') else None
                if tgt is None and isinstance(v.func, ast.Attribute) and \
                        isinstance(v.func.value, ast.Name) and v.func.value.id == 'self':
                    # a method of the enclosing class
                    for ci in getattr(module, 'classes', {}).values():
                        m_ = ci.methods.get(v.func.attr)
                        if m_ is not None:
                            tgt = m_ if tgt is None else False
                if tgt not in (None, False) and hasattr(tgt, 'node'):
                    rets = [r for r in ast.walk(tgt.node) if isinstance(r, ast.Return)]
                    if len(rets) == 1 and isinstance(rets[0].value, (ast.Tuple, ast.List)):
                        n = len(rets[0].value.elts)
            out.append((None, a))
            pos = None if n is None or pos is None else pos + n
            continue
        out.append((pos, a))
        if pos is not None:
            pos += 1
    return out


def _fold_return_temporaries(tree):
    """Program-model normalisation (copy propagation of one shape): `t = <e>; return t`, with t a
    plain local all of whose occurrences are such pairs, is read as `return <e>`.  The rules
    that inspect what a function returns then see the expression, however it was spelled."""
    for fn in ast.walk(tree):
        if not isinstance(fn, (ast.FunctionDef, ast.AsyncFunctionDef)):
            continue
        counts = {}
        for n in ast.walk(fn):
            if isinstance(n, ast.Name):
                counts[n.id] = counts.get(n.id, 0) + 1
        params = {a.arg for a in fn.args.posonlyargs + fn.args.args + fn.args.kwonlyargs}
        blocks = []
        for node in ast.walk(fn):
            for fld in ('body', 'orelse', 'finalbody'):
                blk = getattr(node, fld, None)
                if isinstance(blk, list) and blk and isinstance(blk[0], ast.stmt):
                    blocks.append(blk)
            if isinstance(node, ast.Try):
                for h in node.handlers:
                    blocks.append(h.body)

        def pair(a, b):
            return isinstance(a, ast.Assign) and len(a.targets) == 1 and \
                isinstance(a.targets[0], ast.Name) and isinstance(b, ast.Return) and \
                isinstance(b.value, ast.Name) and b.value.id == a.targets[0].id and \
                b.value.id not in params
        pairs = {}
        for body in blocks:
            for a, b in zip(body, body[1:]):
                if pair(a, b):
                    pairs[b.value.id] = pairs.get(b.value.id, 0) + 1
        ok = {nm for nm, k in pairs.items() if counts.get(nm) == 2 * k}
        for body in blocks:
            i = 0
            while i + 1 < len(body):
                a, b = body[i], body[i + 1]
                if pair(a, b) and b.value.id in ok:
                    b.value = a.value
                    del body[i]
                    continue
                i += 1
    return tree


def _fold_negated_membership(tree):
    """`not (a in b)` is `a not in b` (and the three siblings with `is` / `not in` / `is not`):
    exact for every operand, unlike the ordering comparisons"""
    flip = {ast.In: ast.NotIn, ast.NotIn: ast.In, ast.Is: ast.IsNot, ast.IsNot: ast.Is}

    class T(ast.NodeTransformer):
        def visit_UnaryOp(self, node):
            self.generic_visit(node)
            if isinstance(node.op, ast.Not) and isinstance(node.operand, ast.Compare) and \
                    len(node.operand.ops) == 1 and type(node.operand.ops[0]) in flip:
                c = node.operand
                return ast.copy_location(ast.Compare(
                    left=c.left, ops=[flip[type(c.ops[0])]()], comparators=c.comparators), node)
            return node
    return ast.fix_missing_locations(T().visit(tree))


def _inline_tuple_getters(tree):
    """Program-model normalisation: `f(..., *self.m(), ...)` where the method m of the same class
    is nothing but `return (<expressions over self>)` is read with the elements in place of the
    star-unpacking (the positions of the other arguments are then known to every rule)."""
    import copy
    for cls in ast.walk(tree):
        if not isinstance(cls, ast.ClassDef):
            continue
        getters = {}
        for m in cls.body:
            if not isinstance(m, ast.FunctionDef) or len(m.args.args) != 1 or m.args.vararg or \
                    m.args.kwarg or m.args.kwonlyargs or m.decorator_list:
                continue
            body = [st for st in m.body if not (isinstance(st, ast.Expr) and
                                                isinstance(st.value, ast.Constant))]
            if len(body) == 1 and isinstance(body[0], ast.Return) and \
                    isinstance(body[0].value, (ast.Tuple, ast.List)) and \
                    m.args.args[0].arg == 'self' and not any(
                        isinstance(n, (ast.Call, ast.Lambda, ast.Starred))
                        for n in ast.walk(body[0].value)):
                getters[m.name] = body[0].value
        if not getters:
            continue
        for call in ast.walk(cls):
            if not isinstance(call, ast.Call):
                continue
            new_args, changed = [], False
            for a in call.args:
                v = a.value if isinstance(a, ast.Starred) else None
                if isinstance(v, ast.Call) and not v.args and not v.keywords and \
                        isinstance(v.func, ast.Attribute) and isinstance(v.func.value, ast.Name) \
                        and v.func.value.id == 'self' and v.func.attr in getters:
                    for e in getters[v.func.attr].elts:
                        new_args.append(ast.copy_location(copy.deepcopy(e), a))
                    changed = True
                else:
                    new_args.append(a)
            if changed:
                call.args = new_args
    return ast.fix_missing_locations(tree)


class Module:
    def __init__(self, repo, name, path, relpath):
        self.repo = repo
        self.name = name                  # 'pyins.util'
        self.path = path
        self.relpath = relpath            # 'pyins/util.py'
        with open(path, encoding='utf-8') as f:
            self.source = f.read()
        with warnings.catch_warnings():
            warnings.simplefilter('ignore')
            from .inline import inline_new_helpers
            self.tree = _fold_negated_membership(_fold_return_temporaries(inline_new_helpers(
                _inline_tuple_getters(_fold_return_temporaries(
                    ast.parse(self.source, filename=path))))))
        self.imports = {}
        self.consts = {}
        self.functions = {}
        self.classes = {}
        self._scan_imports()
        for st in self.tree.body:
            if isinstance(st, ast.FunctionDef):
                self.functions[st.name] = FunctionInfo(self, st.name, st)
            elif isinstance(st, ast.ClassDef):
                self.classes[st.name] = ClassInfo(self, st)
            elif isinstance(st, ast.Assign) and len(st.targets) == 1 and \
                    isinstance(st.targets[0], ast.Name):
                self.consts[st.targets[0].id] = st.value

    def _scan_imports(self):
        pkg = self.name.rsplit('.', 1)[0]
        for st in ast.walk(self.tree):
            if isinstance(st, ast.Import):
                for al in st.names:
                    self.imports[al.asname or al.name.split('.')[0]] = \
                        al.name if al.asname else al.name.split('.')[0]
            elif isinstance(st, ast.ImportFrom):
                base = st.module or ''
                if st.level:
                    parts = self.name.split('.')
                    if self.path.endswith('__init__.py'):
                        parts = parts + ['__init__']
                    up = parts[:len(parts) - st.level]
                    base = '.'.join(up + ([st.module] if st.module else []))
                for al in st.names:
                    self.imports[al.asname or al.name] = \
                        (base + '.' + al.name) if base else al.name

    def toplevel(self, name):
        if name in self.functions or name in self.classes or name in self.consts:
            return self.name + '.' + name
        if name in self.imports:
            return self.imports[name]
        return None

    def resolve(self, node, local=frozenset()):
        """Qualified dotted name for a Name/Attribute chain, or None."""
        if isinstance(node, ast.Name):
            if node.id in local:
                return None
            q = self.toplevel(node.id)
            if q is None and node.id in ('staticmethod', 'classmethod', 'property',
                                         'len', 'range', 'min', 'max', 'abs', 'all',
                                         'any', 'isinstance', 'zip', 'round', 'map',
                                         'list', 'reversed', 'bool', 'super', 'float',
                                         'int', 'sum', 'sorted', 'tuple', 'dict',
                                         'enumerate', 'set', 'str', 'type', 'print',
                                         'getattr', 'setattr', 'hasattr', 'id', 'hash',
                                         'iter', 'next', 'open', 'input', 'divmod',
                                         'pow', 'slice', 'frozenset', 'repr'):
                return 'builtins.' + node.id if node.id not in (
                    'staticmethod', 'classmethod', 'property') else node.id
            return q
        if isinstance(node, ast.Attribute):
            b = self.resolve(node.value, local)
            if b is None:
                return None
            return b + '.' + node.attr
        return None

    def all_functions(self):
        for f in self.functions.values():
            yield f
        for c in self.classes.values():
            for m in c.methods.values():
                yield m


class Repo:
    def __init__(self, root='/repo'):
        self.root = root
        pkgdir = os.path.join(root, PKG)
        if not os.path.isdir(pkgdir):
            raise AnalysisError('package directory %s not found' % pkgdir)
        self.modules = {}
        for fn in sorted(os.listdir(pkgdir)):
            if not fn.endswith('.py'):
                continue
            mname = PKG if fn == '__init__.py' else PKG + '.' + fn[:-3]
            try:
                self.modules[mname] = Module(self, mname, os.path.join(pkgdir, fn),
                                             PKG + '/' + fn)
            except SyntaxError as e:
                raise AnalysisError('cannot parse %s: %s' % (fn, e))
        self._fold_cache = {}

    # ------------------------------------------------------------------ lookup
    def module(self, short):
        m = self.modules.get(PKG + '.' + short if not short.startswith(PKG) else short)
        if m is None:
            raise AnalysisError('anchor module %s not found' % short)
        return m

    def lookup(self, fq):
        """Qualified name -> FunctionInfo | ClassInfo | ('const', module/class, node)."""
        parts = fq.split('.')
        for k in range(len(parts), 0, -1):
            mname = '.'.join(parts[:k])
            if mname in self.modules:
                m = self.modules[mname]
                rest = parts[k:]
                if not rest:
                    return m
                if len(rest) == 1:
                    n = rest[0]
                    if n in m.functions:
                        return m.functions[n]
                    if n in m.classes:
                        return m.classes[n]
                    if n in m.consts:
                        return ('const', m, m.consts[n])
                    if n in m.imports:
                        return self.lookup(m.imports[n])
                    return None
                if len(rest) == 2 and rest[0] in m.classes:
                    c = m.classes[rest[0]]
                    return self.class_member(c, rest[1])
                if rest[0] in m.imports:
                    return self.lookup(m.imports[rest[0]] + '.' + '.'.join(rest[1:]))
                return None
        return None

    def class_member(self, c, name):
        seen = set()
        while c is not None and c.fq not in seen:
            seen.add(c.fq)
            if name in c.methods:
                return c.methods[name]
            if name in c.consts:
                return ('const', c, c.consts[name])
            nxt = None
            for b in c.bases:
                t = self.lookup(b) if b else None
                if isinstance(t, ClassInfo):
                    nxt = t
                    break
            c = nxt
        return None

    def function(self, fq):
        f = self.lookup(PKG + '.' + fq if not fq.startswith(PKG + '.') else fq)
        if not isinstance(f, FunctionInfo):
            raise AnalysisError('anchor function %s not found' % fq)
        return f

    def klass(self, fq):
        c = self.lookup(PKG + '.' + fq if not fq.startswith(PKG + '.') else fq)
        if not isinstance(c, ClassInfo):
            raise AnalysisError('anchor class %s not found' % fq)
        return c

    def subclasses(self, cls):
        out = []
        for m in self.modules.values():
            for c in m.classes.values():
                cur, seen = c, set()
                while cur is not None and cur.fq not in seen:
                    seen.add(cur.fq)
                    nxt = None
                    for b in cur.bases:
                        t = self.lookup(b) if b else None
                        if isinstance(t, ClassInfo):
                            if t is cls:
                                out.append(c)
                                nxt = None
                                break
                            nxt = t
                    cur = nxt
        return out

    def all_functions(self, include_init_module=False):
        for mn, m in sorted(self.modules.items()):
            for f in m.all_functions():
                yield f

    def public_surface(self):
        """Public callables of the ten modules imported by pyins/__init__.py."""
        init = self.modules.get(PKG)
        if init is None:
            raise AnalysisError('pyins/__init__.py not found')
        mods = [q for q in init.imports.values() if q in self.modules]
        if len(mods) < 8:
            raise AnalysisError('public module list could not be read from __init__')
        out = []
        for q in sorted(mods):
            m = self.modules[q]
            for f in m.functions.values():
                if f.is_public():
                    out.append(f)
            for c in m.classes.values():
                if c.name.startswith('_'):
                    continue
                for f in c.methods.values():
                    if f.is_public():
                        out.append(f)
        return out

    # -------------------------------------------------------- constant folding
    def fold(self, node, module, cls=None, depth=0):
        """Fold a constant expression to a Python value (numbers as Fraction/float,
        lists, dicts, strings).  Raises ValueError when not a constant."""
        if depth > 30:
            raise ValueError('too deep')
        if isinstance(node, ast.Constant):
            return node.value
        if isinstance(node, (ast.List, ast.Tuple)):
            v = [self.fold(e, module, cls, depth + 1) for e in node.elts]
            return v if isinstance(node, ast.List) else tuple(v)
        if isinstance(node, ast.Dict):
            return {self.fold(k, module, cls, depth + 1):
                    self.fold(v, module, cls, depth + 1)
                    for k, v in zip(node.keys, node.values)}
        if isinstance(node, ast.UnaryOp) and isinstance(node.op, (ast.USub, ast.UAdd)):
            v = self.fold(node.operand, module, cls, depth + 1)
            return -v if isinstance(node.op, ast.USub) else v
        if isinstance(node, ast.BinOp):
            a = self.fold(node.left, module, cls, depth + 1)
            b = self.fold(node.right, module, cls, depth + 1)
            if isinstance(node.op, ast.Add):
                return a + b
            if isinstance(node.op, ast.Sub):
                return a - b
            if isinstance(node.op, ast.Mult):
                return a * b
            if isinstance(node.op, ast.Div):
                return a / b
            if isinstance(node.op, ast.Pow):
                return a ** b
            raise ValueError('operator')
        if isinstance(node, ast.Name):
            if cls is not None and node.id in cls.consts:
                return self.fold(cls.consts[node.id], module, cls, depth + 1)
            if node.id in module.consts:
                return self.fold(module.consts[node.id], module, None, depth + 1)
            q = module.imports.get(node.id)
            if q:
                return self.fold_fq(q, depth + 1)
            raise ValueError('name ' + node.id)
        if isinstance(node, ast.Attribute):
            q = module.resolve(node)
            if q:
                return self.fold_fq(q, depth + 1)
            raise ValueError('attribute')
        if isinstance(node, ast.Call):
            q = module.resolve(node.func)
            if q in ('numpy.array', 'numpy.asarray') and node.args:
                return NPArray(self.fold(node.args[0], module, cls, depth + 1))
            raise ValueError('call')
        raise ValueError(type(node).__name__)

    def fold_fq(self, fq, depth=0):
        if fq == 'numpy.pi':
            import math
            return math.pi
        if fq == 'numpy.inf':
            return float('inf')
        t = self.lookup(fq)
        if isinstance(t, tuple) and t[0] == 'const':
            owner = t[1]
            if isinstance(owner, ClassInfo):
                return self.fold(t[2], owner.module, owner, depth + 1)
            return self.fold(t[2], owner, None, depth + 1)
        raise ValueError('not a constant: ' + fq)

    def const(self, fq):
        if not fq.startswith(PKG):
            fq = PKG + '.' + fq
        try:
            return self.fold_fq(fq)
        except ValueError as e:
            raise AnalysisError('constant %s cannot be folded: %s' % (fq, e))


# ------------------------------------------------------------------ utilities
def iter_calls(node):
    for n in ast.walk(node):
        if isinstance(n, ast.Call):
            yield n


def stmt_of(func_node):
    """Map every ast node inside a function to its enclosing statement."""
    m = {}

    def rec(st):
        for n in ast.walk(st):
            if n not in m or isinstance(n, ast.stmt) is False:
                m.setdefault(n, st)
    for st in ast.walk(func_node):
        if isinstance(st, ast.stmt) and st is not func_node:
            for ch in ast.iter_child_nodes(st):
                if not isinstance(ch, ast.stmt):
                    for n in ast.walk(ch):
                        m[n] = st
    return m


def parent_map(root):
    p = {}
    for n in ast.walk(root):
        for c in ast.iter_child_nodes(n):
            p[c] = n
    return p


class TypeEnv:
    """Which repository class a local variable / parameter holds an instance of.

    Sources: constructor calls, `self`/`cls`, numpydoc kinds that name a class, and
    propagation through calls to repository functions (argument -> parameter)."""

    def __init__(self, repo):
        self.repo = repo
        self.types = {}      # (function fq, var) -> class fq
        self._build()

    def _doc_class(self, f, text):
        for mname, m in self.repo.modules.items():
            for c in m.classes.values():
                if re.search(r'(?<![A-Za-z_])%s(?![A-Za-z_])' % re.escape(c.name), text):
                    return c.fq
        return None

    def _build(self):
        repo = self.repo
        funcs = list(repo.all_functions())
        for f in funcs:
            if f.cls is not None and f.params and not f.is_static:
                self.types[(f.fq, f.params[0])] = f.cls.fq
            for p, txt in f.doc_kinds()['params'].items():
                if (p in f.params or p in f.kwonly) and 'list of' not in txt:
                    c = self._doc_class(f, txt)
                    if c:
                        self.types[(f.fq, p)] = c
        # overriding methods inherit the documented kinds of the base method
        for f in funcs:
            if f.cls is None:
                continue
            for b in f.cls.bases:
                t = repo.lookup(b) if b else None
                if isinstance(t, ClassInfo):
                    bm = repo.class_member(t, f.name)
                    if isinstance(bm, FunctionInfo):
                        for p in f.params[1:]:
                            if (f.fq, p) not in self.types and (bm.fq, p) in self.types:
                                self.types[(f.fq, p)] = self.types[(bm.fq, p)]
        changed = True
        rounds = 0
        while changed and rounds < 6:
            changed = False
            rounds += 1
            for f in funcs:
                loc = f.local_names()
                for n in ast.walk(f.node):
                    if isinstance(n, ast.Assign) and len(n.targets) == 1 and \
                            isinstance(n.targets[0], ast.Name):
                        t = self.expr_type(f, n.value)
                        if t and self.types.get((f.fq, n.targets[0].id)) != t:
                            self.types[(f.fq, n.targets[0].id)] = t
                            changed = True
                    elif isinstance(n, ast.For) and isinstance(n.target, ast.Name):
                        t = self.elem_type(f, n.iter)
                        if t and self.types.get((f.fq, n.target.id)) != t:
                            self.types[(f.fq, n.target.id)] = t
                            changed = True
                    if isinstance(n, ast.Call):
                        g = self.callee(f, n)
                        if isinstance(g, FunctionInfo):
                            params = g.params
                            off = 1 if (g.cls is not None and not g.is_static and
                                        isinstance(n.func, ast.Attribute)) else 0
                            if g.name == '__init__':
                                off = 1
                            for i, a in enumerate(n.args):
                                if i + off < len(params):
                                    t = self.expr_type(f, a)
                                    key = (g.fq, params[i + off])
                                    if t and key not in self.types:
                                        self.types[key] = t
                                        changed = True
                            for kw in n.keywords:
                                if kw.arg in params:
                                    t = self.expr_type(f, kw.value)
                                    key = (g.fq, kw.arg)
                                    if t and key not in self.types:
                                        self.types[key] = t
                                        changed = True

    def elem_type(self, f, node):
        # `for measurement in measurements` : documented 'list of Measurement'
        if isinstance(node, ast.Name):
            txt = f.doc_kinds()['params'].get(node.id, '')
            if 'list of' in txt:
                return self._doc_class(f, txt)
        return None

    def expr_type(self, f, node):
        if isinstance(node, ast.Name):
            return self.types.get((f.fq, node.id))
        if isinstance(node, ast.Call):
            q = f.module.resolve(node.func, f.local_names())
            if q:
                t = self.repo.lookup(q)
                if isinstance(t, ClassInfo):
                    return t.fq
            if isinstance(node.func, ast.Name) and node.func.id == 'cls' and f.cls:
                return f.cls.fq
        return None

    def callee(self, f, call):
        """Resolve a call to FunctionInfo | ClassInfo-constructor | qualified str | None.
        Dynamic dispatch on a base class is resolved by callers through
        repo.subclasses()."""
        fn = call.func
        loc = f.local_names()
        q = f.module.resolve(fn, loc)
        if q:
            t = self.repo.lookup(q)
            if isinstance(t, FunctionInfo):
                return t
            if isinstance(t, ClassInfo):
                init = self.repo.class_member(t, '__init__')
                return init if init else t
            return q
        if isinstance(fn, ast.Attribute):
            bt = self.expr_type(f, fn.value)
            if isinstance(fn.value, ast.Call) and isinstance(fn.value.func, ast.Name) \
                    and fn.value.func.id == 'super' and f.cls:
                for b in f.cls.bases:
                    t = self.repo.lookup(b) if b else None
                    if isinstance(t, ClassInfo):
                        mm = self.repo.class_member(t, fn.attr)
                        if mm:
                            return mm
            if bt:
                c = self.repo.lookup(bt)
                if isinstance(c, ClassInfo):
                    mm = self.repo.class_member(c, fn.attr)
                    if isinstance(mm, FunctionInfo):
                        return mm
        if isinstance(fn, ast.Name) and fn.id == 'cls' and f.cls:
            return self.repo.class_member(f.cls, '__init__')
        return None
