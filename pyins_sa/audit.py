"""Behaviour-preserving source transformations used to audit the robustness of the rules
(thorough tier: every transformed copy must give exactly the verdict of the untransformed tree).

  rename:<file>:<function>@<line>  every local variable of one function gets the suffix `_q`
  unparse:<file>                   the module is re-emitted by ast.unparse
  transpose / sqrtform / ifinvert / commute:<file>
                                   X.T -> X.transpose(); np.sqrt(x) -> x ** 0.5 and x ** 2 -> x * x;
                                   two-armed ifs inverted; operands of + and * exchanged
  extract / inline / dotform / retvar:<file>
                                   a temporary introduced / removed; a.dot(b), np.dot(a, b) -> a @ b;
                                   return <e> -> _ret = <e>; return _ret
"""
import ast
import os
import warnings

warnings.filterwarnings('ignore', category=SyntaxWarning)


class Renamer(ast.NodeTransformer):
    def __init__(self, names):
        self.names = names

    def visit_Name(self, node):
        if node.id in self.names:
            node.id = node.id + '_q'
        return node

    def visit_FunctionDef(self, node):
        # do not descend into nested functions with their own scope
        if getattr(node, '_root', False):
            self.generic_visit(node)
        return node

    visit_Lambda = lambda self, node: node


def locals_of(fn):
    params = {a.arg for a in fn.args.posonlyargs + fn.args.args + fn.args.kwonlyargs}
    if fn.args.vararg:
        params.add(fn.args.vararg.arg)
    if fn.args.kwarg:
        params.add(fn.args.kwarg.arg)
    stored, nested_used = set(), set()
    for n in ast.walk(fn):
        if isinstance(n, (ast.FunctionDef, ast.Lambda)) and n is not fn:
            for m in ast.walk(n):
                if isinstance(m, ast.Name):
                    nested_used.add(m.id)
        if isinstance(n, ast.Name) and isinstance(n.ctx, ast.Store):
            stored.add(n.id)
    # comprehension variables are fine to rename as well (same function scope in walk)
    return {x for x in stored if x not in params and x not in nested_used and x != '_'}


class TtoTranspose(ast.NodeTransformer):
    def visit_Attribute(self, node):
        self.generic_visit(node)
        if node.attr == 'T' and isinstance(node.ctx, ast.Load):
            return ast.Call(func=ast.Attribute(value=node.value, attr='transpose', ctx=ast.Load()),
                            args=[], keywords=[])
        return node


class SqrtForm(ast.NodeTransformer):
    def visit_Call(self, node):
        self.generic_visit(node)
        if isinstance(node.func, ast.Attribute) and node.func.attr == 'sqrt' and \
                isinstance(node.func.value, ast.Name) and node.func.value.id == 'np' and \
                len(node.args) == 1:
            return ast.BinOp(left=node.args[0], op=ast.Pow(), right=ast.Constant(0.5))
        return node

    def visit_BinOp(self, node):
        self.generic_visit(node)
        if isinstance(node.op, ast.Pow) and isinstance(node.right, ast.Constant) and \
                node.right.value == 2 and isinstance(node.left, ast.Name):
            return ast.BinOp(left=node.left, op=ast.Mult(), right=ast.Name(node.left.id, ast.Load()))
        return node


class IfInvert(ast.NodeTransformer):
    def visit_If(self, node):
        self.generic_visit(node)
        if node.orelse and not (len(node.orelse) == 1 and isinstance(node.orelse[0], ast.If)) \
                and not any(isinstance(x, ast.If) for x in node.body[:0]):
            t = node.test
            if isinstance(t, ast.UnaryOp) and isinstance(t.op, ast.Not):
                nt = t.operand
            else:
                nt = ast.UnaryOp(op=ast.Not(), operand=t)
            return ast.If(test=nt, body=node.orelse, orelse=node.body)
        return node


class Commute(ast.NodeTransformer):
    """a + b -> b + a, a * b -> b * a for numeric operands (not lists, tuples, strings, shapes)"""
    def visit_BinOp(self, node):
        self.generic_visit(node)
        if not isinstance(node.op, (ast.Add, ast.Mult)):
            return node

        def seq_like(e):
            if isinstance(e, (ast.List, ast.Tuple, ast.ListComp, ast.JoinedStr, ast.Dict)):
                return True
            if isinstance(e, ast.Constant) and isinstance(e.value, (str, bytes)):
                return True
            return any(isinstance(x, ast.Attribute) and x.attr in ('shape', 'columns', 'states')
                       for x in ast.walk(e)) or \
                any(isinstance(x, ast.Name) and x.id.isupper() and x.id.endswith('_COLS')
                    for x in ast.walk(e)) or \
                any(isinstance(x, ast.Call) and isinstance(x.func, ast.Name) and
                    x.func.id in ('list', 'tuple', 'str') for x in ast.walk(e))
        if seq_like(node.left) or seq_like(node.right):
            return node
        return ast.BinOp(left=node.right, op=node.op, right=node.left)


def _pure(e):
    """an expression without calls, comprehensions, lambdas: no side effects, no evaluation-order
    issues when it is moved"""
    return not any(isinstance(n, (ast.Call, ast.ListComp, ast.GeneratorExp, ast.DictComp,
                                  ast.SetComp, ast.Lambda, ast.Await, ast.Yield, ast.NamedExpr,
                                  ast.Starred))
                   for n in ast.walk(e))


class ExtractTemp(ast.NodeTransformer):
    """y = <a> OP <b>  ->  _tmpK = <b>; y = <a> OP _tmpK   (pure operands only)"""
    def __init__(self):
        self.k = 0

    def _block(self, body):
        out = []
        for st in body:
            st = self.visit(st)
            if isinstance(st, ast.Assign) and len(st.targets) == 1 and \
                    isinstance(st.targets[0], ast.Name) and isinstance(st.value, ast.BinOp) and \
                    isinstance(st.value.right, (ast.BinOp, ast.Subscript, ast.Attribute)) and \
                    _pure(st.value) and not isinstance(st.value.op, ast.MatMult):
                self.k += 1
                t = '_tmp%d' % self.k
                out.append(ast.Assign(targets=[ast.Name(t, ast.Store())], value=st.value.right))
                st = ast.Assign(targets=st.targets, value=ast.BinOp(
                    left=st.value.left, op=st.value.op, right=ast.Name(t, ast.Load())))
            out.append(st)
        return out

    def generic_visit(self, node):
        node = super().generic_visit(node)
        for fld in ('body', 'orelse', 'finalbody'):
            b = getattr(node, fld, None)
            if isinstance(b, list) and b and isinstance(b[0], ast.stmt) and \
                    not isinstance(node, ast.ClassDef):
                setattr(node, fld, self._block(b))
        return node


class InlineTemp(ast.NodeTransformer):
    """t = <pure e>; <next statement uses t once, nowhere else>  ->  e substituted"""

    def _uses(self, node, name):
        return [n for n in ast.walk(node) if isinstance(n, ast.Name) and n.id == name]

    def _block(self, body, scope):
        out = []
        i = 0
        while i < len(body):
            st = body[i]
            nxt = body[i + 1] if i + 1 < len(body) else None
            if isinstance(st, ast.Assign) and len(st.targets) == 1 and \
                    isinstance(st.targets[0], ast.Name) and _pure(st.value) and \
                    isinstance(st.value, (ast.BinOp, ast.Subscript, ast.Attribute)) and \
                    nxt is not None and isinstance(nxt, (ast.Assign, ast.AugAssign, ast.Return)) \
                    and not isinstance(nxt, (ast.For, ast.While, ast.If)):
                t = st.targets[0].id
                all_uses = self._uses(scope, t)
                uses_next = [n for n in self._uses(nxt, t) if isinstance(n.ctx, ast.Load)]
                free = {n.id for n in ast.walk(st.value) if isinstance(n, ast.Name)}
                stored_next = {n.id for n in ast.walk(nxt) if isinstance(n, ast.Name) and
                               isinstance(n.ctx, ast.Store)}
                if len(all_uses) == 2 and len(uses_next) == 1 and not (free & stored_next) and \
                        t not in stored_next:
                    val = st.value

                    class R(ast.NodeTransformer):
                        def visit_Name(self, n):
                            if n.id == t and isinstance(n.ctx, ast.Load):
                                return val
                            return n
                    out.append(R().visit(nxt))
                    i += 2
                    continue
            out.append(st)
            i += 1
        return out

    def visit_FunctionDef(self, node):
        self.generic_visit(node)
        node.body = self._block(node.body, node)
        return node


class DotForm(ast.NodeTransformer):
    """a.dot(b) -> a @ b and np.dot(a, b) -> a @ b (two operands, no out=): the same product for
    the 1-D / 2-D operands the package uses"""
    def visit_Call(self, node):
        self.generic_visit(node)
        if node.keywords:
            return node
        if isinstance(node.func, ast.Attribute) and node.func.attr == 'dot' and \
                len(node.args) == 1 and not (isinstance(node.func.value, ast.Name) and
                                             node.func.value.id == 'np'):
            return ast.BinOp(left=node.func.value, op=ast.MatMult(), right=node.args[0])
        if isinstance(node.func, ast.Attribute) and node.func.attr == 'dot' and \
                isinstance(node.func.value, ast.Name) and node.func.value.id == 'np' and \
                len(node.args) == 2:
            return ast.BinOp(left=node.args[0], op=ast.MatMult(), right=node.args[1])
        return node


class RetVar(ast.NodeTransformer):
    """return <expression>  ->  _ret = <expression>; return _ret   (functions without nested
    scopes reading `_ret`; generators untouched)"""
    def _block(self, body):
        out = []
        for st in body:
            if isinstance(st, ast.Return) and st.value is not None and \
                    not isinstance(st.value, (ast.Name, ast.Constant)):
                out.append(ast.Assign(targets=[ast.Name('_ret', ast.Store())], value=st.value))
                out.append(ast.Return(value=ast.Name('_ret', ast.Load())))
            else:
                out.append(st)
        return out

    def generic_visit(self, node):
        node = super().generic_visit(node)
        for fld in ('body', 'orelse', 'finalbody'):
            b = getattr(node, fld, None)
            if isinstance(b, list) and b and isinstance(b[0], ast.stmt) and \
                    not isinstance(node, ast.ClassDef):
                setattr(node, fld, self._block(b))
        return node

    def visit_Lambda(self, node):
        return node


class Annotate(ast.NodeTransformer):
    """type annotations on every parameter and return, an annotated first assignment, and a
    leading `assert` in every function: no behaviour, only syntax the rules must look through"""
    def visit_FunctionDef(self, node):
        self.generic_visit(node)
        for a in node.args.posonlyargs + node.args.args + node.args.kwonlyargs:
            if a.arg not in ('self', 'cls') and a.annotation is None:
                a.annotation = ast.Name('object', ast.Load())
        if node.returns is None and node.name != '__init__':
            node.returns = ast.Name('object', ast.Load())
        k = 1 if node.body and isinstance(node.body[0], ast.Expr) and \
            isinstance(node.body[0].value, ast.Constant) and \
            isinstance(node.body[0].value.value, str) else 0
        if not any(d for d in node.decorator_list):
            node.body.insert(k, ast.Assert(test=ast.Constant(True), msg=None))
        return node


MODULE_TRANSFORMS = {'annotate': Annotate, 'transpose': TtoTranspose, 'sqrtform': SqrtForm, 'ifinvert': IfInvert,
                     'commute': Commute, 'extract': ExtractTemp, 'inline': InlineTemp,
                     'dotform': DotForm, 'retvar': RetVar}


def transforms(root):
    out = []
    pk = os.path.join(root, 'pyins')
    for fn in sorted(os.listdir(pk)):
        if not fn.endswith('.py') or fn == '__init__.py':
            continue
        src = open(os.path.join(pk, fn)).read()
        tree = ast.parse(src)
        out.append(('unparse:' + fn, fn, None))
        for k in MODULE_TRANSFORMS:
            out.append(('%s:%s' % (k, fn), fn, k))
        for node in ast.walk(tree):
            if isinstance(node, ast.FunctionDef):
                loc = locals_of(node)
                if loc:
                    out.append(('rename:%s:%s@%d' % (fn, node.name, node.lineno), fn,
                                (node.name, node.lineno)))
    return out


def apply(tr, dst):
    name, fn, target = tr
    p = os.path.join(dst, 'pyins', fn)
    src = open(p).read()
    tree = ast.parse(src)
    if isinstance(target, str):
        tree = ast.fix_missing_locations(MODULE_TRANSFORMS[target]().visit(tree))
    elif target is not None:
        for node in ast.walk(tree):
            if isinstance(node, ast.FunctionDef) and (node.name, node.lineno) == target:
                node._root = True
                Renamer(locals_of(node)).visit(node)
    open(p, 'w').write(ast.unparse(tree) + '\n')


