"""FRAME-SUFFIX - reference-frame discipline from the repository's documented naming
convention (pyins/__init__.py: `vec_a` is expressed in frame a, `mat_ab` projects from
frame b to frame a).  Contradiction-only: a name without a frame suffix is unknown and
unifies with anything; a violation needs two known frames that disagree.

Covers every util.mv_prod / util.mm_prod call, `@`, `.dot`, `.T` / `.transpose()`,
np.cross, + and -, and the assignment of the result to a suffixed name, in all modules.
"""
import ast
import re

from ..model import norm_text

FRAMES = 'einbgtp'
ALIAS = {'g': 'n', 't': 'n', 'p': 'n'}
VEC_RE = re.compile(r'^[A-Za-z0-9_]*?_([einbgtp])$')
MAT_RE = re.compile(r'^(?:mat|rot)_([einbgtp])([einbgtp])$')
SPLINE_RE = re.compile(r'^[A-Za-z0-9]*_([einbgtp])_spline$')
MSPLINE_RE = re.compile(r'^(?:mat|rot)_([einbgtp])([einbgtp])_spline$')

FUNC_FRAMES = {
    'pyins.transform.mat_from_rph': ('M', 'n', 'b'),
    'pyins.transform.mat_en_from_ll': ('M', 'e', 'n'),
    'pyins.transform.lla_to_ecef': ('V', 'e'),
    'pyins.earth.gravitation_ecef': ('V', 'e'),
    'pyins.earth.rate_n': ('V', 'n'),
    'pyins.earth.gravity_n': ('V', 'n'),
    'pyins.earth.curvature_matrix': ('M', 'n', 'n'),
}
COL_FRAMES = {'VEL_COLS': 'n', 'NED_COLS': 'n', 'RATE_COLS': 'b', 'GYRO_COLS': 'b',
              'ACCEL_COLS': 'b', 'THETA_COLS': 'b', 'DV_COLS': 'b'}


def _scalar_locals(fnode):
    """locals every definition of which is a scalar: an element taken with a constant index, a
    number, or arithmetic / an elementary function of such (a component named `v_e` is the east
    component, not a vector in the ECEF frame - the suffix convention is about vectors)"""
    defs = {}
    for n in ast.walk(fnode):
        if isinstance(n, ast.Assign) and len(n.targets) == 1:
            t = n.targets[0]
            if isinstance(t, ast.Name):
                defs.setdefault(t.id, []).append(n.value)
            elif isinstance(t, ast.Tuple) and isinstance(n.value, ast.Tuple) and \
                    len(t.elts) == len(n.value.elts):
                for a, b in zip(t.elts, n.value.elts):
                    if isinstance(a, ast.Name):
                        defs.setdefault(a.id, []).append(b)
            elif isinstance(t, ast.Tuple):
                for a in t.elts:
                    if isinstance(a, ast.Name):
                        defs.setdefault(a.id, []).append(None)
        elif isinstance(n, (ast.AugAssign, ast.For, ast.With, ast.NamedExpr)):
            for x in ast.walk(n.target if hasattr(n, 'target') else n):
                if isinstance(x, ast.Name) and isinstance(x.ctx, ast.Store):
                    defs.setdefault(x.id, []).append(None)
    scal = set()

    def is_scalar(e):
        if e is None:
            return False
        if isinstance(e, ast.Constant):
            return isinstance(e.value, (int, float)) and not isinstance(e.value, bool)
        if isinstance(e, ast.Name):
            return e.id in scal or (e.id.isupper() and e.id not in defs)
        if isinstance(e, ast.Attribute) and e.attr.isupper() and isinstance(e.value, ast.Name):
            return True          # a module constant (earth.RATE, transform.DEG_TO_RAD)
        if isinstance(e, ast.Subscript):
            sl = e.slice
            last = sl.elts[-1] if isinstance(sl, ast.Tuple) and sl.elts else sl
            allc = sl.elts if isinstance(sl, ast.Tuple) else [sl]
            return isinstance(last, ast.Constant) and isinstance(last.value, int) and \
                not any(isinstance(x, ast.Slice) for x in allc) and \
                (len(allc) >= 2 or isinstance(e.value, ast.Name))
        if isinstance(e, ast.UnaryOp):
            return is_scalar(e.operand)
        if isinstance(e, ast.BinOp) and not isinstance(e.op, ast.MatMult):
            return is_scalar(e.left) and is_scalar(e.right)
        if isinstance(e, ast.Call) and isinstance(e.func, ast.Attribute) and \
                e.func.attr in ('sin', 'cos', 'tan', 'sqrt', 'deg2rad', 'rad2deg', 'abs',
                                'hypot', 'arctan2', 'arcsin') and e.args:
            return all(is_scalar(a) for a in e.args)
        return False
    for _ in range(200):
        new = {nm for nm, vs in defs.items() if vs and all(is_scalar(v) for v in vs)}
        if new == scal:
            break
        scal = new
    return scal


class _Typer:
    def __init__(self, ctx, f, alias):
        self.ctx, self.f, self.alias = ctx, f, alias
        self.n_def = 0
        self.scalars = _scalar_locals(f.node)

    def canon(self, fr):
        fr = ALIAS.get(fr, fr)
        return self.alias.get(fr, fr)

    def name_type(self, name):
        if name in self.scalars:
            return None
        m = MAT_RE.match(name) or MSPLINE_RE.match(name)
        if m:
            return ('M', self.canon(m.group(1)), self.canon(m.group(2)))
        m = SPLINE_RE.match(name)
        if m:
            return ('V', self.canon(m.group(1)))
        if name.startswith(('mat_', 'rot_', 'n_', 'is_', 'has_', 'axis_')):
            return None
        m = re.match(r'^([A-Za-z0-9_]+)_([einbgtp])$', name)
        if m and len(m.group(1)) >= 1 and m.group(1) not in ('axis', 'index', 'lat', 'lon'):
            return ('V', self.canon(m.group(2)))
        return None

    def ob(self, ok, node, what, why):
        self.n_def += 1
        self.ctx.ob('FRAME-SUFFIX', ok, None, what, f=self.f, node=node, why=why)

    def typ(self, n):
        """-> ('V', a) | ('M', a, b) | None"""
        f = self.f
        if isinstance(n, ast.Name):
            return self.name_type(n.id)
        if isinstance(n, ast.Attribute):
            if n.attr == 'T':
                t = self.typ(n.value)
                return ('M', t[2], t[1]) if t and t[0] == 'M' else t
            if n.attr in ('values',):
                return self.typ(n.value)
            if isinstance(n.value, ast.Name) and n.value.id in ('self',):
                return self.name_type(n.attr)
            return None
        if isinstance(n, ast.Subscript):
            sl = n.slice
            if isinstance(sl, ast.Name) and sl.id in COL_FRAMES:
                return ('V', self.canon(COL_FRAMES[sl.id]))
            if isinstance(sl, ast.List) and all(isinstance(e, ast.Constant) for e in sl.elts):
                vals = [e.value for e in sl.elts]
                if vals == ['VX', 'VY', 'VZ']:
                    return ('V', 'b')
                return None
            if isinstance(sl, (ast.Slice,)) or (isinstance(sl, ast.UnaryOp)):
                return self.typ(n.value)
            if isinstance(sl, ast.Constant) and isinstance(sl.value, int):
                return None      # one element / row: not a full vector any more
            return None
        if isinstance(n, ast.UnaryOp) and isinstance(n.op, ast.USub):
            return self.typ(n.operand)
        if isinstance(n, ast.BinOp):
            if isinstance(n.op, ast.MatMult):
                return self.product(self.typ(n.left), self.typ(n.right), n)
            if isinstance(n.op, (ast.Add, ast.Sub)):
                a, b = self.typ(n.left), self.typ(n.right)
                if a and b and a[0] == b[0]:
                    self.ob(a == b, n, 'sum of terms in the same frame: %s' % (a,),
                            '`%s` adds %s and %s: operands are expressed in different frames'
                            % (norm_text(n)[:90], a[1:], b[1:]))
                return a or b
            if isinstance(n.op, (ast.Mult, ast.Div)):
                a, b = self.typ(n.left), self.typ(n.right)
                return a or b if not (a and b) else None
            return None
        if isinstance(n, ast.Call):
            q = f.module.resolve(n.func, f.local_names())
            if q in FUNC_FRAMES:
                t = FUNC_FRAMES[q]
                return (t[0],) + tuple(self.canon(x) for x in t[1:])
            if q == 'pyins.util.skew_matrix' and n.args:
                t = self.typ(n.args[0])
                return ('M', t[1], t[1]) if t and t[0] == 'V' else None
            if q == 'numpy.cross' and len(n.args) >= 2:
                a, b = self.typ(n.args[0]), self.typ(n.args[1])
                if a and b and a[0] == b[0] == 'V':
                    self.ob(a == b, n, 'cross product of vectors in the same frame %s' % (a,),
                            '`%s` crosses a vector in frame %s with one in frame %s'
                            % (norm_text(n)[:90], a[1], b[1]))
                return a or b
            if q in ('pyins.util.mv_prod', 'pyins.util.mm_prod') and len(n.args) >= 2:
                flags = {'at': False, 'bt': False}
                names = ['at', 'bt'] if q.endswith('mm_prod') else ['at']
                for i, a in enumerate(n.args[2:]):
                    if i < len(names):
                        flags[names[i]] = self._flag(a)
                for kw in n.keywords:
                    if kw.arg in flags:
                        flags[kw.arg] = self._flag(kw.value)
                A_, B_ = self.typ(n.args[0]), self.typ(n.args[1])
                if flags['at'] is None or flags['bt'] is None:
                    return None
                if A_ and A_[0] == 'M' and flags['at']:
                    A_ = ('M', A_[2], A_[1])
                if B_ and B_[0] == 'M' and flags['bt']:
                    B_ = ('M', B_[2], B_[1])
                return self.product(A_, B_, n)
            if isinstance(n.func, ast.Attribute) and n.func.attr == 'dot' and q is None \
                    and n.args:
                return self.product(self.typ(n.func.value), self.typ(n.args[0]), n)
            if isinstance(n.func, ast.Attribute) and n.func.attr == 'transpose' and q is None:
                t = self.typ(n.func.value)
                return ('M', t[2], t[1]) if t and t[0] == 'M' else t
            if isinstance(n.func, ast.Attribute) and n.func.attr in ('copy', 'as_matrix') \
                    and q is None:
                return self.typ(n.func.value)
            if isinstance(n.func, ast.Name):
                # spline evaluation  v_i_spline(time, 1)
                return self.name_type(n.func.id)
            if q in ('numpy.asarray', 'numpy.atleast_2d', 'numpy.diff') and n.args:
                return self.typ(n.args[0])
            return None
        return None

    def _flag(self, node):
        if isinstance(node, ast.Constant) and isinstance(node.value, bool):
            return node.value
        return None

    def product(self, a, b, node):
        if not a or not b or a[0] != 'M':
            return None
        inner = a[2]
        outer = b[1]
        self.ob(inner == outer, node,
                'product %s . %s: inner frames agree' % (a[1:], b[1:]),
                '`%s` multiplies a matrix projecting from frame %s with a %s given in frame %s: '
                'a transposition flag or the operand order is wrong'
                % (norm_text(node)[:100], inner, 'vector' if b[0] == 'V' else 'matrix', outer))
        if b[0] == 'V':
            return ('V', a[1])
        return ('M', a[1], b[2])


def frame_suffix(ctx, modules=None):
    ctx.rule('FRAME-SUFFIX', 'frame suffixes (vec_a, mat_ab) are consistent through every '
             'product, transpose, cross product, sum and assignment')
    total = 0
    from ..inline import PINNED_PRIVATE
    for f in ctx.repo.all_functions():
        short = f.module.name.split('.')[-1]
        if modules and short not in modules:
            continue
        if f.name.startswith('_') and not f.name.startswith('__') and \
                f.name not in PINNED_PRIVATE:
            continue          # a helper introduced later: judged where it is inlined
        # recorded exception: generate_imu evaluates ECEF formulas at the inertially advanced
        # longitude, so inside it the ECEF frame plays the role of the inertial frame
        alias = {'e': 'i'} if f.name == 'generate_imu' else {}
        T = _Typer(ctx, f, alias)
        for st in ast.walk(f.node):
            if isinstance(st, ast.Assign) and len(st.targets) == 1:
                t = T.typ(st.value)
                tg = st.targets[0]
                tn = None
                if isinstance(tg, ast.Name):
                    tn = T.name_type(tg.id)
                if t and tn and t[0] == tn[0]:
                    T.ob(t == tn, st, 'assignment %s <- %s' % (norm_text(tg), t[1:]),
                         '`%s` stores a quantity in frame(s) %s under a name that says %s'
                         % (norm_text(st)[:100], t[1:], tn[1:]))
            elif isinstance(st, ast.AugAssign):
                t = T.typ(st.value)
                tg = T.typ(st.target) if isinstance(st.target, (ast.Name, ast.Subscript)) else None
                if t and tg and t[0] == tg[0]:
                    T.ob(t == tg, st, 'update %s with %s' % (norm_text(st.target), t[1:]),
                         '`%s` updates a quantity in frame %s with one in frame %s'
                         % (norm_text(st)[:100], tg[1:], t[1:]))
            elif isinstance(st, (ast.Return, ast.Expr)) and st.value is not None:
                T.typ(st.value)
        total += T.n_def
    return total
