"""Rules on the compiled mechanisation kernel (C01, C16, C13 share the evaluation).

SIB-GRAV      compiled gravity copy == earth.gravity (N1 equality, all inputs)
KER-CONSIST   the one-step map is first-order consistent with the NED navigation
              equations assembled from the repository's own earth/transform/util
              functions (position: transform.perturb_lla; velocity: -(2*Omega+rho) x V
              + gravity_n with earth.rate_n, earth.curvature_matrix, earth.gravity_n;
              attitude: C + C*skew(theta) - dt*skew(Omega+rho)*C with util.skew_matrix)
KER-SKEW      the dt-proportional velocity terms are genuine cross products
ROW-REC       recurrence shape: reads at row j (= i + offset), writes at row j + 1
"""
import ast

from ..expr import SymEval, SArray, PArr, Unsupported, Rec
from ..model import AnalysisError, norm_text
from ..nf import Rat

KROLES = [('dt', ()), ('lla', (3,)), ('vel', (3,)), ('mat', (3, 3)), ('theta', (3,)),
          ('dv', (3,))]


class _KH:
    def inline(self, f):
        return f.name != 'gravity' and f.module.name.endswith('_numba_integrate')


def kernel_eval(ctx, with_altitude):
    key = ('kernel', with_altitude)
    if key in ctx.cache:
        return ctx.cache[key]
    f = ctx.repo.function('_numba_integrate.integrate')
    ctx.need(len(f.params) == 8, 'kernel signature changed: %s' % f.params)
    ev = SymEval(ctx.repo, names_as_atoms=True, hooks=_KH())
    pa = {}
    args = []
    for (role, trail), pname in zip(KROLES, f.params):
        p = PArr(pname, trail)
        p.reload_atoms = True
        pa[role] = p
        args.append(p)
    args.append(ev.A.sym(f.params[6]))
    args.append(with_altitude)
    try:
        ev.call_function(f, args)
    except Unsupported as e:
        from ..expr import RuntimeFailure
        if isinstance(e, RuntimeFailure) and not ctx.cache.get('ker-bounds-reported'):
            # an index outside a fixed-size axis: the compiled kernel has no bounds check, so
            # this is a silent out-of-bounds read or write, not an exception
            ctx.cache['ker-bounds-reported'] = True
            ctx.rule('KER-BOUNDS', 'the kernel indexes its arrays inside their fixed trailing '
                     'dimensions (numba does not check bounds)')
            wf, wst = getattr(e, 'where', None) or getattr(ev, 'last_stmt', (f, None))
            ctx.ob('KER-BOUNDS', False, None, 'kernel indexing', f=wf or f, node=wst,
                   key='bounds', why='the compiled kernel evaluates `%s`: %s%s'
                                     % (norm_text(wst)[:80] if wst is not None else '?', e,
                                        ' - without bounds checking this reads or overwrites '
                                        'neighbouring memory' if 'out of bounds' in str(e) else ''))
        raise AnalysisError('kernel cannot be evaluated symbolically: %s' % e)
    res = (f, ev, pa)
    ctx.cache[key] = res
    return res


def earth_oracle(ctx, A, lat, alt, lon=None):
    key = ('earth', id(A), A.key(lat), A.key(alt))
    if key in ctx.cache:
        return ctx.cache[key]
    ev = SymEval(ctx.repo, A)
    r = ctx.repo
    try:
        o = {
            'radii': ev.call_function(r.function('earth.principal_radii'), [lat, alt]),
            'rate': ev.call_function(r.function('earth.rate_n'), [lat]),
            'curv': ev.call_function(r.function('earth.curvature_matrix'), [lat, alt]),
            'g_n': ev.call_function(r.function('earth.gravity_n'), [lat, alt]),
            'g': ev.call_function(r.function('earth.gravity'), [lat, alt]),
        }
    except Unsupported as e:
        raise AnalysisError('earth functions cannot be evaluated symbolically: %s' % e)
    ctx.cache[key] = o
    return o


def sib_grav(ctx):
    ctx.rule('SIB-GRAV', 'compiled gravity copy equals earth.gravity for all inputs')
    r = ctx.repo
    f1 = r.function('_numba_integrate.gravity')
    f2 = r.function('earth.gravity')
    ev = SymEval(r)
    A = ev.A
    lat, alt = A.sym('lat'), A.sym('alt')
    try:
        g1 = ev.call_function(f1, [lat, alt])
        g2 = ev.call_function(f2, [lat, alt])
    except Unsupported as e:
        raise AnalysisError('gravity functions cannot be evaluated: %s' % e)
    ctx.touch(f2)
    ok = isinstance(g1, Rat) and isinstance(g2, Rat) and A.eq(g1, g2)
    ctx.ob('SIB-GRAV', ok, None, '_numba_integrate.gravity(lat, alt) == earth.gravity(lat, alt)',
           f=f1, node=f1.node.body[-1], key='gravity-return',
           why='compiled gravity copy differs from earth.gravity as a function of (lat, alt)')


def _small_subst(A, pa, eps):
    """Scale the small quantities (dt, dv[i], theta[i]) by eps."""
    mp = {}
    e = A.sym(eps)
    return e



def _singular(ctx, f, node, what, key, e):
    """A kernel update whose expansion in the step has a pole (the small quantities dt, dv, theta
    appear in a denominator) does not tend to the previous state as the step shrinks: a
    consistency violation, not a limit of the analysis.  Returns True when reported."""
    t = str(e)
    if 'occurs inside inv(' in t or 'division by zero' in t:
        ctx.ob('KER-CONSIST', False, None, '%s is regular in the step' % what, f=f, node=node,
               key=key,
               why='the %s divides by a quantity that vanishes with the step (%s): it does not '
                   'tend to the previous state as dt -> 0' % (what, t[:100]))
        return True
    return False

def ker_consist(ctx):
    ctx.rule('KER-CONSIST', 'one-step map is first-order consistent with the navigation '
             'equations built from earth.*, transform.perturb_lla, util.skew_matrix')
    f, ev, pa = kernel_eval(ctx, True)
    A = ev.A
    rowj = None
    # row keys used for stores
    store_rows = {k[0] for k in pa['vel'].stores}
    ctx.need(len(store_rows) == 1, 'kernel writes velocity at %d different rows' % len(store_rows))
    rk1 = next(iter(store_rows))
    # current row = rows loaded from lla
    load_rows = {rk for rk, _, _ in pa['lla'].load_log if rk != rk1}
    ctx.need(len(load_rows) == 1, 'kernel reads lla at rows %s' % sorted(load_rows))
    rk0 = next(iter(load_rows))

    def cur(role, *idx):
        return A.sym('%s[%s]' % (pa[role].name, ','.join([rk0] + [str(i) for i in idx])))

    def nxt(role, *idx):
        return A.sym('%s[%s]' % (pa[role].name, ','.join([rk1] + [str(i) for i in idx])))

    lat, lon, alt = cur('lla', 0), cur('lla', 1), cur('lla', 2)
    V = [cur('vel', k) for k in range(3)]
    C = SArray((3, 3), {(a, b): cur('mat', a, b) for a in range(3) for b in range(3)})
    # increments row key: loads of theta
    inc_rows = {rk for rk, _, _ in pa['theta'].load_log}
    ctx.need(len(inc_rows) == 1, 'kernel reads theta at rows %s' % sorted(inc_rows))
    ri = next(iter(inc_rows))
    theta = [A.sym('%s[%s,%d]' % (pa['theta'].name, ri, k)) for k in range(3)]
    dv = [A.sym('%s[%s,%d]' % (pa['dv'].name, ri, k)) for k in range(3)]
    dt_loads = {rk for rk, _, _ in pa['dt'].load_log}
    ctx.need(len(dt_loads) == 1, 'kernel reads dt at rows %s' % sorted(dt_loads))
    dt = A.sym('%s[%s]' % (pa['dt'].name, next(iter(dt_loads))))
    eps = A.sym('@eps')
    small = {}
    for s in theta + dv + [dt]:
        (m, _), = s.n.t.items()
        small[m[0][0]] = A.mul(eps, s)
    # next-row velocity atoms (reload) -> their stored expressions
    nxt_v = {}
    for k in range(3):
        (m, _), = nxt('vel', k).n.t.items()
        nxt_v[m[0][0]] = k

    E = earth_oracle(ctx, A, lat, alt)
    ev2 = SymEval(ctx.repo, A)
    vec = lambda xs: SArray((3,), {(i,): x for i, x in enumerate(xs)})
    Vv = vec(V)
    rho = ev2.matmul(E['curv'], Vv)
    Om = E['rate']
    w2 = ev2.emap(A.add, ev2.emap(A.add, Om, Om), rho)          # 2*Omega + rho
    win = ev2.emap(A.add, Om, rho)                              # Omega + rho
    dvn = ev2.matmul(C, vec(dv))
    cor = ev2.cross(w2, Vv)
    g_n = E['g_n']
    exp_v1 = [A.add(dvn.get((k,)), A.mul(dt, A.sub(g_n.get((k,)), cor.get((k,)))))
              for k in range(3)]

    A.trunc = ('@eps', 1)
    sdefs = {an: (A.subst(d, small) if isinstance(d, Rat) else d)
             for an, d in ev.defs.items()}
    vel_next = {}

    def expand_eps(evx, defs, val):
        old = evx.defs
        evx.defs = defs
        try:
            return evx.expand(A.subst(val, small))
        finally:
            evx.defs = old

    def first_order(val, evx=ev, defs=sdefs, pax=pa):
        full = expand_eps(evx, defs, val)
        for _ in range(2):
            mp = {}
            for a in A.atoms_of(full):
                base_, _, ver_ = a.partition('@')
                if base_ in nxt_v:
                    k_ = nxt_v[base_]
                    ver_ = int(ver_) if ver_ else 1
                    if (id(pax), k_, ver_) not in vel_next:
                        # the value of the store the element was read after (see PArr loads)
                        vals_ = [v_ for r_, i_, v_, _n in pax['vel'].store_log
                                 if r_ == rk1 and tuple(i_) == (k_,)]
                        vel_next[(id(pax), k_, ver_)] = expand_eps(evx, defs, vals_[ver_ - 1])
                    mp[a] = vel_next[(id(pax), k_, ver_)]
            if not mp:
                break
            full = A.subst(full, mp)
        return A.series1(full, '@eps')

    names = ['north', 'east', 'down']
    # ---- velocity
    act_v = {}
    for k in range(3):
        st = pa['vel'].stores.get((rk1, k))
        ctx.need(st is not None, 'kernel does not write velocity component %d' % k)
        node = [n for rk, idx, v, n in pa['vel'].store_log if idx == (k,)][-1]
        try:
            c0, c1 = first_order(st)
        except (Unsupported, ZeroDivisionError, ValueError) as e:
            if _singular(ctx, f, node, 'velocity %s update' % names[k], 'vel[%d]' % k, e):
                continue
            raise AnalysisError('velocity update not analysable: %s' % e)
        act_v[k] = (c0, c1)
        ok0 = A.eq(c0, V[k])
        ok1 = A.eq(c1, exp_v1[k])
        ctx.ob('KER-CONSIST', ok0 and ok1, None,
               'velocity %s: V + C*dv + dt*(gravity_n - (2*Omega+rho) x V) to first order'
               % names[k], f=f, node=node, key='vel[%d]' % k,
               why='first-order part of the %s velocity update differs from the navigation '
                   'equation assembled from earth.rate_n/curvature_matrix/gravity_n '
                   '(zeroth order ok: %s); if a GEO-* rule fails as well, the earth function '
                   'named there is the deviating side, otherwise the kernel' % (names[k], ok0))
    # ---- position: sibling transform.perturb_lla(lla, V*dt)
    pl = ctx.repo.function('transform.perturb_lla')
    try:
        exp_lla = ev2.call_function(pl, [vec([lat, lon, alt]),
                                         vec([A.mul(v, dt) for v in V])])
    except Unsupported as e:
        raise AnalysisError('perturb_lla cannot be evaluated: %s' % e)
    ctx.touch(pl)
    for k in range(3):
        st = pa['lla'].stores.get((rk1, k))
        ctx.need(st is not None, 'kernel does not write lla component %d' % k)
        node = [n for rk, idx, v, n in pa['lla'].store_log if idx == (k,)][-1]
        try:
            c0, c1 = first_order(st)
            ref = exp_lla.get((k,))
            if k == 1:
                # a modulo-360 reduction of the reference longitude does not move the point:
                # the kernel is compared with the unreduced value (GEO-ROUNDTRIP judges whether
                # the reduction is shared by the difference maps)
                from ..expr import strip_wraps
                ref = strip_wraps(A, ref)
            e0, e1 = A.series1(A.subst(ref, small), '@eps')
        except (Unsupported, ZeroDivisionError, ValueError) as e:
            if _singular(ctx, f, node, 'position update (component %d)' % k, 'lla[%d]' % k, e):
                continue
            raise AnalysisError('position update not analysable: %s' % e)
        ok = A.eq(c0, e0) and A.eq(c1, e1)
        ctx.ob('KER-CONSIST', ok, None,
               'position %s: equals transform.perturb_lla(lla, V*dt) to first order'
               % ['lat', 'lon', 'alt'][k], f=f, node=node, key='lla[%d]' % k,
               why='first-order %s update differs from transform.perturb_lla(lla, V*dt)'
                   % ['latitude', 'longitude', 'altitude'][k])
    # ---- attitude: C + C skew(theta) - dt skew(Omega + rho) C
    sk = ctx.repo.function('util.skew_matrix')
    try:
        S_th = ev2.call_function(sk, [vec(theta)])
        S_w = ev2.call_function(sk, [win])
    except Unsupported as e:
        raise AnalysisError('skew_matrix cannot be evaluated: %s' % e)
    ctx.touch(sk)
    exp_c1 = ev2.emap(A.sub, ev2.matmul(C, S_th),
                      ev2.emap(lambda x: A.mul(dt, x), ev2.matmul(S_w, C)))
    # Taylor arm of the rotation exponential is a polynomial: evaluate kernel again with
    # that arm selected (ROT-SERIES proves both arms agree)
    fa, eva, paa = _kernel_taylor(ctx)
    sdefs_a = {an: (A.subst(d, small) if isinstance(d, Rat) else d)
               for an, d in eva.defs.items()}
    n_att = 0
    for a in range(3):
        for b in range(3):
            st = paa['mat'].stores.get((rk1, a, b))
            ctx.need(st is not None, 'kernel does not write mat_nb[%d,%d]' % (a, b))
            node = [n for rk, idx, v, n in paa['mat'].store_log if idx == (a, b)][-1]
            try:
                c0, c1 = first_order(st, eva, sdefs_a, paa)
            except (Unsupported, ZeroDivisionError, ValueError) as e:
                if _singular(ctx, f, node, 'attitude update [%d,%d]' % (a, b),
                             'att[%d,%d]' % (a, b), e):
                    continue
                raise AnalysisError('attitude update not analysable: %s' % e)
            ok = eva.A.eq(c0, C.get((a, b))) and eva.A.eq(c1, exp_c1.get((a, b)))
            n_att += 1
            ctx.ob('KER-CONSIST', ok, None,
                   'attitude [%d,%d]: C + C*skew(theta) - dt*skew(Omega+rho)*C to first order'
                   % (a, b), f=f, node=node, key='mat[%d,%d]' % (a, b),
                   why='first-order attitude update differs from C*skew(theta) - '
                       'dt*skew(earth rate + transport rate)*C')
    ctx.floor('KER-CONSIST', n_att, 9, 'attitude entries')
    A.trunc = None


class _KHT(_KH):
    """Select the series arm of the rotation-vector routine (polynomial)."""

    def branch(self, ev, node, env):
        if ev.cur.name != 'integrate' and isinstance(node, ast.If):
            # the arm that does not call sin/cos is the series arm
            def trig(body):
                for st in body:
                    for n in ast.walk(st):
                        if isinstance(n, ast.Call) and isinstance(n.func, ast.Attribute) \
                                and n.func.attr in ('sin', 'cos'):
                            return True
                return False
            tb, te = trig(node.body), trig(node.orelse)
            if tb and not te:
                return False
            if te and not tb:
                return True
        return None


def _kernel_taylor(ctx):
    key = ('kernel-taylor',)
    if key in ctx.cache:
        return ctx.cache[key]
    f0, ev0, pa0 = kernel_eval(ctx, True)
    f = ctx.repo.function('_numba_integrate.integrate')
    ev = SymEval(ctx.repo, ev0.A, names_as_atoms=True, hooks=_KHT())
    pa = {}
    args = []
    for (role, trail), pname in zip(KROLES, f.params):
        p = PArr(pname, trail)
        p.reload_atoms = True
        pa[role] = p
        args.append(p)
    args.append(ev.A.sym(f.params[6]))
    args.append(True)
    try:
        ev.call_function(f, args)
    except Unsupported as e:
        raise AnalysisError('kernel (series arm) cannot be evaluated: %s' % e)
    ctx.cache[key] = (f, ev, pa)
    return f, ev, pa


def ker_skew(ctx):
    ctx.rule('KER-SKEW', 'dt-proportional velocity terms are cross products: coefficient '
             'matrices of V and of dv are antisymmetric')
    f, ev, pa = kernel_eval(ctx, True)
    A = ev.A
    rk1 = next(iter({k[0] for k in pa['vel'].stores}))
    rows = {rk for rk, _, _ in pa['lla'].load_log if rk != rk1}
    ctx.need(len(rows) == 1, 'kernel reads lla at rows %s' % sorted(rows))
    rk0 = next(iter(rows))
    # atoms standing for V_k and dv_k: by definition, not by name
    vat, dvat = {}, {}
    dvn_exp = None
    for an, d in ev.defs.items():
        if not isinstance(d, Rat):
            continue
        for k in range(3):
            if A.eq(d, A.sym('%s[%s,%d]' % (pa['vel'].name, rk0, k))):
                vat.setdefault(k, an)
    # dv_n components: defs that are linear forms in dv[i] atoms with mat coefficients
    C = lambda a, b: A.sym('%s[%s,%d,%d]' % (pa['mat'].name, rk0, a, b))
    inc = {rk for rk, _, _ in pa['dv'].load_log}
    ri = next(iter(inc))
    dvs = [A.sym('%s[%s,%d]' % (pa['dv'].name, ri, k)) for k in range(3)]
    for k in range(3):
        want = A.const(0)
        for m in range(3):
            want = A.add(want, A.mul(C(k, m), dvs[m]))
        for an, d in ev.defs.items():
            if isinstance(d, Rat) and A.eq(d, want):
                dvat.setdefault(k, an)
    ctx.need(len(vat) == 3 and len(dvat) == 3,
             'kernel locals holding V (found %s) and C*dv (found %s) not identified'
             % (sorted(vat.values()), sorted(dvat.values())))
    dt_atoms = [an for an, d in ev.defs.items() if isinstance(d, Rat) and
                A.atoms_of(d) and all(x.startswith(pa['dt'].name + '[') for x in A.atoms_of(d))
                and len(d.n.t) == 1]
    ctx.need(len(dt_atoms) >= 1, 'kernel local holding dt not identified')
    dta = dt_atoms[0]
    n = 0
    for label, atoms in (('V', vat), ('dv', dvat)):
        M = {}
        for i in range(3):
            st = pa['vel'].stores[(rk1, i)]
            part = A.degree_split(st, dta).get(1, A.const(0))
            for k in range(3):
                M[(i, k)] = A.coeff(part, atoms[k])
        for i in range(3):
            for k in range(i, 3):
                s = A.add(M[(i, k)], M[(k, i)])
                node = [nn for rk, idx, v, nn in pa['vel'].store_log if idx == (i,)][-1]
                ok = A.is_zero(s)
                n += 1
                ctx.ob('KER-SKEW', ok, None,
                       'coefficient of %s[%d] in velocity[%d] + coefficient of %s[%d] in '
                       'velocity[%d] == 0' % (label, k, i, label, i, k), f=f, node=node,
                       key='skew-%s-%d-%d' % (label, i, k),
                       why='dt-term of the velocity update is not a cross product in %s '
                           '(entries (%d,%d)/(%d,%d) do not cancel)' % (label, i, k, k, i))
    ctx.floor('KER-SKEW', n, 12, 'coefficient pairs')


def row_rec(ctx):
    ctx.rule('ROW-REC', 'kernel reads state at row j = i + offset and writes row j + 1; '
             'increments are read at row i')
    for wa in (True, False):
        f, ev, pa = kernel_eval(ctx, wa)
        A = ev.A
        i_at = None
        # loop variable: the only For in the kernel
        loops = [n for n in ast.walk(f.node) if isinstance(n, ast.For)]
        ctx.need(len(loops) == 1 and isinstance(loops[0].target, ast.Name),
                 'kernel loop structure changed')
        ivar = loops[0].target.id
        off = f.params[6]
        jkey = A.key(ev.expand(A.add(A.sym(ivar), A.sym(off))))
        j1key = A.key(ev.expand(A.add(A.add(A.sym(ivar), A.sym(off)), A.const(1))))
        ikey = A.key(A.sym(ivar))

        cands_j = {A.key(A.sym(a)) for a, d in ev.defs.items()
                   if isinstance(d, Rat) and A.atoms_of(d) <= {ivar, off} and
                   A.eq(d, A.add(A.sym(ivar), A.sym(off)))} | {jkey}
        cands_j1 = set()
        for a, d in ev.defs.items():
            if isinstance(d, Rat) and A.key(A.sym(a)) in cands_j:
                cands_j1.add(A.key(A.add(A.sym(a), A.const(1))))
        cands_j1.add(j1key)
        # row variables under any name: a local whose definition, over the loop variable, the
        # offset and row variables already known, equals i + offset (+ 1)
        want_j = A.add(A.sym(ivar), A.sym(off))
        want_j1 = A.add(want_j, A.const(1))
        rowvars = {}
        for _ in range(4):
            grew = False
            for a, d in ev.defs.items():
                if a in rowvars or not isinstance(d, Rat):
                    continue
                if not A.atoms_of(d) <= ({ivar, off} | set(rowvars)):
                    continue
                full = A.subst(d, dict(rowvars)) if rowvars else d
                if A.eq(full, want_j) or A.eq(full, want_j1):
                    rowvars[a] = full
                    grew = True
            if not grew:
                break
        for a, full in rowvars.items():
            if A.eq(full, want_j):
                cands_j.add(A.key(A.sym(a)))
                cands_j1.add(A.key(A.add(A.sym(a), A.const(1))))
            else:
                cands_j1.add(A.key(A.sym(a)))
        for role in ('lla', 'vel', 'mat'):
            p = pa[role]
            for rk, idx, v, node in p.store_log:
                ctx.ob('ROW-REC', rk in cands_j1, None,
                       'store to %s at row j+1' % p.name, f=f, node=node,
                       key='store-%s-%s-%s' % (role, idx, wa),
                       why='kernel writes %s at row [%s], expected row i + offset + 1'
                           % (p.name, rk))
            stored = set()
            for kind, rk, idx, node in p.events:
                if kind == 'store':
                    stored.add((rk, idx))
                    continue
                if kind == 'view':
                    ok = rk in cands_j or rk in cands_j1
                else:
                    ok = rk in cands_j or (rk in cands_j1 and (rk, idx) in stored)
                ctx.ob('ROW-REC', ok, None, 'load from %s at row j or j+1' % p.name, f=f,
                       node=node, key='load-%s-%s-%s' % (role, idx, wa),
                       why='kernel reads %s at row [%s], expected i + offset (or the row '
                           'just written)' % (p.name, rk))
        for role in ('theta', 'dv', 'dt'):
            p = pa[role]
            ctx.need(p.load_log, 'kernel never reads %s' % p.name)
            for rk, idx, node in p.load_log:
                ctx.ob('ROW-REC', rk == ikey, None, 'load from %s at row i' % p.name, f=f,
                       node=node, key='load-%s-%s-%s' % (role, idx, wa),
                       why='kernel reads %s at row [%s], expected the loop index'
                           % (p.name, rk))
            ctx.ob('ROW-REC', not p.store_log, None, '%s is read-only in the kernel' % p.name,
                   f=f, key='ro-%s-%s' % (role, wa),
                   why='kernel writes into the increments array %s' % p.name)
        # the loop runs over all increments: range(len(theta))
        it = loops[0].iter
        ok = (isinstance(it, ast.Call) and norm_text(it.func) == 'range' and len(it.args) == 1
              and isinstance(it.args[0], ast.Call) and norm_text(it.args[0].func) == 'len'
              and norm_text(it.args[0].args[0]) in (f.params[4], f.params[5], f.params[0]))
        ctx.ob('ROW-REC', ok, None, 'loop covers every increment exactly once', f=f,
               node=loops[0], key='loop-range-%s' % wa,
               why='kernel loop is not `for i in range(len(<increments>))`')
