"""C03 - IMU synthesiser.

SIM-INC    closed-form increment readings: gyro increments = integral of the body rate
           w = th' - 1/2 th x th' + 1/6 th x (th x th') of the cubic rotation-vector
           polynomial th(t) = a t + b t^2 + c t^3, accelerometer increments = integral of
           (I - [th x] + 1/2 [th x]^2)(d + e t); all coefficients derived here by vector
           polynomial arithmetic and compared with the code for every power of dt
SIM-COEF   spline coefficient roles: a, b, c = linear, quadratic, cubic PPoly coefficients
SIM-DUP    increment type duplicates the first sample of both sensors; outputs carry the
           documented Trajectory / Imu columns and a common time index
"""
import ast

from ..expr import SymEval, SArray, Unsupported
from ..model import AnalysisError, norm_text
from ..nf import Alg


def _vpoly_cross(ev, p, q):
    A = ev.A
    out = {}
    for i, u in p.items():
        for j, v in q.items():
            c = ev.cross(u, v)
            out[i + j] = c if i + j not in out else ev.emap(A.add, out[i + j], c)
    return out


def _vpoly_add(ev, p, q, scale=1):
    A = ev.A
    out = dict(p)
    for k, v in q.items():
        sv = ev.emap(lambda x: A.mul(A.const(scale), x), v)
        out[k] = sv if k not in out else ev.emap(A.add, out[k], sv)
    return out


def _vpoly_int(ev, p, T):
    """integral from 0 to T of a vector polynomial {power: vec}"""
    A = ev.A
    out = None
    for k, v in p.items():
        coef = A.div(A.powi(T, k + 1), A.const(k + 1))
        term = ev.emap(lambda x: A.mul(coef, x), v)
        out = term if out is None else ev.emap(A.add, out, term)
    return out


def sim_inc(ctx):
    ctx.rule('SIM-INC', 'closed-form increment readings equal the integrals of the second-order '
             'rotation-vector kinematics of the spline polynomials (all powers of dt)')
    repo = ctx.repo
    f = repo.function('sim._compute_increment_readings')
    ctx.need(len(f.params) == 6, '_compute_increment_readings signature changed')
    ev = SymEval(repo, Alg())
    A = ev.A
    vec = lambda n: SArray((3,), {(i,): A.sym('%s%d' % (n, i)) for i in range(3)})
    a, b, c, d, e = (vec(n) for n in 'abcde')
    dt = A.sym('dt')
    try:
        res = ev.call_function(f, [dt, a, b, c, d, e])
    except Unsupported as ex:
        raise AnalysisError('_compute_increment_readings not analysable: %s' % ex)
    ctx.need(isinstance(res, tuple) and len(res) == 2 and
             all(isinstance(x, SArray) and x.shape == (3,) for x in res),
             'increment readings result not recognised')
    gy, ac = res
    th = {1: a, 2: b, 3: c}
    two = lambda v, k: ev.emap(lambda x: A.mul(A.const(k), x), v)
    thd = {0: a, 1: two(b, 2), 2: two(c, 3)}
    x1 = _vpoly_cross(ev, th, thd)
    x2 = _vpoly_cross(ev, th, x1)
    w = dict(thd)
    w = _vpoly_add(ev, w, x1, scale=A.const(-1).n.const_value() / 2)
    w = _vpoly_add(ev, w, x2, scale=A.const(1).n.const_value() / 6)
    want_g = _vpoly_int(ev, w, dt)
    F = {0: d, 1: e}
    y1 = _vpoly_cross(ev, th, F)
    y2 = _vpoly_cross(ev, th, y1)
    fb = dict(F)
    fb = _vpoly_add(ev, fb, y1, scale=-1)
    fb = _vpoly_add(ev, fb, y2, scale=A.const(1).n.const_value() / 2)
    want_a = _vpoly_int(ev, fb, dt)
    for name, got, want, what in (('gyro', gy, want_g, "th' - th x th'/2 + th x (th x th')/6"),
                                  ('accel', ac, want_a, '(I - [th x] + [th x]^2/2)(d + e t)')):
        for k in range(3):
            # compare power by power for a diagnosable report
            try:
                pg = A.degree_split(got.get((k,)), 'dt')
                pw = A.degree_split(want.get((k,)), 'dt')
            except ValueError as ex:
                raise AnalysisError(str(ex))
            bad = [p for p in sorted(set(pg) | set(pw))
                   if not A.eq(pg.get(p, A.const(0)), pw.get(p, A.const(0)))]
            ctx.ob('SIM-INC', not bad, None,
                   '%s increment, axis %s: integral of %s for every power of dt'
                   % (name, 'xyz'[k], what), f=f, key='%s-%d' % (name, k),
                   why='%s increment reading, axis %s: coefficient(s) of dt^%s differ from the '
                       'integral of %s' % (name, 'xyz'[k], bad, what))


def sim_struct(ctx):
    ctx.rule('SIM-COEF', 'increment branch: the rotation-vector coefficients passed are the linear, '
             'quadratic and cubic PPoly coefficients (c[2], c[1], c[0]) of the rotation spline; '
             'the specific-force coefficients are (acceleration - gravitation) coefficient-wise, '
             'rotated by the transposed start-of-interval attitude; dt = diff(time)')
    ctx.rule('SIM-DUP', 'increment type: first sample of both sensors duplicated; tables pair '
             'data blocks with their documented column groups on one time index')
    from ..flow import Closure
    repo = ctx.repo
    f = repo.function('sim.generate_imu')
    res = lambda n: f.module.resolve(n, f.local_names())
    from ..flow import const_arms
    arm = const_arms(f.node, ('increment',)).get('increment')
    ctx.need(arm, "generate_imu: 'increment' branch not found")
    inc = ast.If(test=ast.Constant(True), body=arm, orelse=[])
    calls = [n for n in ast.walk(inc) if isinstance(n, ast.Call) and
             res(n.func) == 'pyins.sim._compute_increment_readings']
    ctx.need(len(calls) == 1 and len(calls[0].args) == 6, 'call of _compute_increment_readings '
             'not found in the increment branch')
    call = calls[0]
    st_call = [s_ for s_ in inc.body if any(x is call for x in ast.walk(s_))][0]
    # role variables
    rotspl = grav = accspl = matib = None
    for n in ast.walk(f.node):
        if isinstance(n, ast.Assign) and isinstance(n.targets[0], ast.Name) and \
                isinstance(n.value, ast.Call):
            q = res(n.value.func)
            if q == 'scipy.spatial.transform.RotationSpline':
                rotspl = n.targets[0].id
                a1 = n.value.args[1] if len(n.value.args) > 1 else None
                if isinstance(a1, ast.Call) and a1.args and isinstance(a1.args[0], ast.Name):
                    matib = a1.args[0].id
            elif q == 'pyins.earth.gravitation_ecef':
                grav = n.targets[0].id
    # the inertial velocity spline: the callable evaluated with order 1 in the rate branch
    for n in ast.walk(f.node):
        if isinstance(n, ast.Call) and isinstance(n.func, ast.Name) and len(n.args) == 2 and \
                norm_text(n.args[1]) == '1' and n.func.id != rotspl:
            accspl = n.func.id
    ctx.need(all([rotspl, grav, accspl, matib]), 'generate_imu: spline / gravitation / attitude '
             'variables not identified (%s)' % [rotspl, grav, accspl, matib])
    clo = Closure(f, stop={rotspl, grav, accspl, matib, f.params[0]})
    texts = [clo.text(a, st_call, depth=4) for a in call.args]
    tname = f.params[0]
    ok = texts[0] in ('np.diff(%s)[:, None]' % tname, 'np.diff(%s).reshape(-1, 1)' % tname)
    ctx.ob('SIM-COEF', ok, None, 'interval lengths = diff(time) as a column', f=f, node=call,
           key='dt', why='interval lengths passed are `%s`' % texts[0])
    for i, k, nm in ((1, 2, 'linear'), (2, 1, 'quadratic'), (3, 0, 'cubic')):
        ok = texts[i] == '%s.interpolator.c[%d]' % (rotspl, k)
        ctx.ob('SIM-COEF', ok, None, 'argument %d = %s rotation-vector coefficient c[%d]'
               % (i + 1, nm, k), f=f, node=call, key='coef-%d' % i,
               why='argument %d of the increment formula is `%s`; PPoly stores the coefficient of '
                   '(t - t_i)^(3-k) in c[k], so the %s coefficient is %s.interpolator.c[%d]'
                   % (i + 1, texts[i], nm, rotspl, k))
    want_d = 'util.mv_prod(%s[:-1], %s.derivative().c[1] - %s[:-1], at=True)' % (matib, accspl, grav)
    want_e = ('util.mv_prod(%s[:-1], %s.derivative().c[0] - np.diff(%s, axis=0) / %s, at=True)'
              % (matib, accspl, grav, texts[0]))
    for i, want, nm in ((4, want_d, 'constant'), (5, want_e, 'linear')):
        got = texts[i].replace(', True)', ', at=True)')
        ctx.ob('SIM-COEF', got == want, None, '%s specific-force coefficient = (acceleration - '
               'gravitation) rotated by the transposed start-of-interval attitude' % nm, f=f,
               node=call, key='force-%d' % i,
               why='%s specific-force coefficient is `%s`, expected `%s`' % (nm, got, want))
    # outputs of the call and duplication of the first sample
    tg = st_call.targets[0] if isinstance(st_call, ast.Assign) else None
    outs = [norm_text(e) for e in tg.elts] if isinstance(tg, ast.Tuple) else []
    dups = {}
    for st in inc.body:
        if isinstance(st, ast.Assign) and isinstance(st.value, ast.Call) and \
                res(st.value.func) == 'numpy.insert' and isinstance(st.targets[0], ast.Name):
            a_ = [norm_text(x) for x in st.value.args[:3]]
            t = st.targets[0].id
            dups[t] = a_ == [t, '0', t + '[0]'] and any(
                k.arg == 'axis' and norm_text(k.value) == '0' for k in st.value.keywords)
    ok = len(outs) == 2 and all(dups.get(o) for o in outs)
    ctx.ob('SIM-DUP', ok, None, 'first increment sample duplicated for both outputs %s' % outs, f=f,
           node=st_call, key='dup',
           why='increment-type readings %s are not both padded with a duplicate first sample '
               '(%s)' % (outs, dups))
    # returned tables: (trajectory, imu)
    ret = [n for n in ast.walk(f.node) if isinstance(n, ast.Return)]
    ok = False
    why = 'returned tables not recognised'
    if ret and isinstance(ret[-1].value, ast.Tuple) and len(ret[-1].value.elts) == 2:
        t0, t1 = ret[-1].value.elts
        def parts(t):
            if not (isinstance(t, ast.Call) and res(t.func) == 'pandas.DataFrame'):
                return None
            data = t.args[0] if t.args else [k.value for k in t.keywords if k.arg == 'data'][0]
            cols = [k.value for k in t.keywords if k.arg == 'columns']
            idx = [k.value for k in t.keywords if k.arg == 'index']
            blocks = None
            if isinstance(data, ast.Call) and res(data.func) == 'numpy.hstack' and \
                    isinstance(data.args[0], (ast.List, ast.Tuple)):
                blocks = [norm_text(e) for e in data.args[0].elts]
            try:
                cv = list(ctx.repo.fold(cols[0], f.module)) if cols else None
            except (ValueError, TypeError):
                cv = None
            return blocks, cv, (norm_text(idx[0]) if idx else None)
        p0, p1 = parts(t0), parts(t1)
        if p0 and p1 and p0[0] is not None and p1[0] is not None:
            gy, ac = (outs + [None, None])[:2]
            ok = p0[0] == [f.params[1], f.params[3], f.params[2]] and \
                p0[1] == list(ctx.repo.const('util.TRAJECTORY_COLS')) and \
                p1[1] == list(ctx.repo.const('util.GYRO_COLS')) + \
                list(ctx.repo.const('util.ACCEL_COLS')) and \
                p1[0] == [gy, ac] and p0[2] == p1[2] and p0[2] is not None
            why = 'trajectory table %s, imu table %s' % (p0, p1)
    # a form this rule does not read is not a finding
    ctx.need(why != 'returned tables not recognised',
             'generate_imu: the returned pair of tables is not built as two pd.DataFrame(np.hstack('
             '[...]), index=..., columns=...) calls')
    ctx.ob('SIM-DUP', ok, None, 'trajectory = [lla, velocity_n, rph], imu = [gyro, accel] on one '
           'time index', f=f, node=(ret[-1] if ret else f.node), key='tables', why=why)


def sim_spline_bc(ctx):
    """The rules idealise the splines of generate_imu as exact derivative / antiderivative
    operators; that is what interpolation with the default (not-a-knot) end conditions
    approximates to full order at every sample.  Any other end condition ASSUMES something about
    the motion at the ends of the record ('natural': zero second derivative, 'clamped': zero
    first derivative, 'periodic') and is only second-order accurate there when it is not true."""
    ctx.rule('SIM-SPLINE', 'the splines of generate_imu use the default not-a-knot end conditions '
             '(no assumption about the motion at the ends of the record) and no extrapolation mode')
    f = ctx.repo.function('sim.generate_imu')
    ctx.touch(f)
    n = 0
    for c in ast.walk(f.node):
        if not isinstance(c, ast.Call):
            continue
        q = f.module.resolve(c.func, f.local_names()) or ''
        if q not in ('scipy.interpolate.CubicSpline', 'scipy.interpolate.CubicHermiteSpline',
                     'scipy.interpolate.make_interp_spline', 'scipy.interpolate.Akima1DInterpolator',
                     'scipy.interpolate.PchipInterpolator'):
            continue
        n += 1
        ok, why = True, ''
        if q.endswith(('Akima1DInterpolator', 'PchipInterpolator')):
            ok, why = False, '%s is a lower-order, shape-preserving interpolant' % q.split('.')[-1]
        for kw in c.keywords:
            if kw.arg == 'bc_type':
                try:
                    v = ctx.repo.fold(kw.value, f.module)
                except ValueError:
                    v = None
                if v != 'not-a-knot':
                    ok, why = False, 'end condition bc_type=%s' % norm_text(kw.value)
        if len(c.args) >= 4 and q.endswith('CubicSpline'):
            ok, why = False, 'positional end condition / axis arguments `%s`' % norm_text(c)[:60]
        ctx.ob('SIM-SPLINE', ok, None, '`%s` uses the default end conditions' % norm_text(c)[:60],
               f=f, node=c, key='bc-%d' % n,
               why='`%s`: %s - it assumes a property of the motion at the ends of the record; '
                   'where the motion does not have it the interpolated positions / velocities are '
                   'only second-order consistent near the ends, which the 6/dt amplification of '
                   'the spline accelerations turns into a specific-force error in the first and '
                   'last samples' % (norm_text(c)[:70], why))
    ctx.floor('SIM-SPLINE', n, 3, 'spline constructions in generate_imu')


# ----------------------------------------------------------------------- SIM-KIN
from ..rotmodel import RotHooks, RotObj     # noqa: E402
from ..nf import Rat                        # noqa: E402


class _Kin:
    """formal time derivative: every trajectory atom q has derivative atoms q', q''."""

    def __init__(self, A, names, t='t'):
        self.A = A
        self.deps = {t: A.const(1)}
        for n in names:
            self.deps[n] = A.sym(n + "'")
            self.deps[n + "'"] = A.sym(n + "''")
            self.deps[n + "''"] = A.sym(n + "'''")

    def D(self, v):
        A = self.A
        if isinstance(v, SArray):
            out = SArray(v.shape, {}, None, v.sample)
            for i in v.indices():
                out.entries[i] = self.D(v.get(i))
            return out
        out = A.const(0)
        atoms = set()
        for a in A.atoms_of(v):
            atoms.add(a)
            atoms |= A._nested_atoms(a)
        for q, dq in self.deps.items():
            if q in atoms:
                out = A.add(out, A.mul(A.diff(v, q), dq))
        return out


class _Spl:
    def __init__(self, kin, y, d1=None):
        self.kin, self.y, self.d1 = kin, y, d1

    def derivative(self):
        return _Spl(self.kin, self.d1 if self.d1 is not None else self.kin.D(self.y))

    def __call__(self, time, nu=0):
        v = self.y
        for k in range(int(nu)):
            v = self.d1 if (k == 0 and self.d1 is not None) else self.kin.D(v)
        return v


class _RotSpl:
    def __init__(self, kin, ev, mat):
        self.kin, self.ev, self.mat = kin, ev, mat

    def __call__(self, time, order=0):
        if order != 1:
            raise Unsupported('rotation spline order %r' % (order,))
        ev = self.ev
        S = ev.matmul(ev.transpose(self.mat), self.kin.D(self.mat))
        out = SArray((3,), {(0,): S.get((2, 1)), (1,): S.get((0, 2)), (2,): S.get((1, 0))},
                     None, True)
        self.skew = S
        return out


class _KH(RotHooks):
    def __init__(self, kin):
        self.kin = kin
        self.rotspl = None

    def call(self, ev, q, node, args, kwargs, env):
        r = RotHooks.call(self, ev, q, node, args, kwargs, env)
        if r is not NotImplemented:
            return r
        if q == 'scipy.interpolate.CubicSpline':
            return _Spl(self.kin, args[1])
        if q == 'scipy.interpolate.CubicHermiteSpline':
            return _Spl(self.kin, args[1], d1=args[2])
        if q == 'scipy.spatial.transform.RotationSpline':
            ctx_mat = args[1].mat if isinstance(args[1], RotObj) else None
            if ctx_mat is None:
                raise Unsupported('RotationSpline argument')
            self.rotspl = _RotSpl(self.kin, ev, ctx_mat)
            return self.rotspl
        if q == 'pandas.DataFrame' or q == 'pandas.Index':
            from ..expr import Opaque
            return Opaque('pandas')
        return NotImplemented

    def attr(self, ev, base, a, node):
        if isinstance(base, _Spl) and a == 'derivative':
            return base.derivative
        return RotHooks.attr(self, ev, base, a, node)


def _output_names(f):
    """(gyro, accel, velocity) locals: the blocks of the two returned tables."""
    ret = [n for n in ast.walk(f.node) if isinstance(n, ast.Return)]
    if not ret or not isinstance(ret[-1].value, ast.Tuple) or len(ret[-1].value.elts) != 2:
        return None
    out = []
    for t in ret[-1].value.elts:
        blocks = None
        for n in ast.walk(t):
            if isinstance(n, ast.Call) and norm_text(n.func).endswith('hstack') and n.args and \
                    isinstance(n.args[0], (ast.List, ast.Tuple)):
                blocks = [norm_text(e) for e in n.args[0].elts]
        out.append(blocks)
    if not out[0] or not out[1] or len(out[0]) != 3 or len(out[1]) != 2:
        return None
    return out[1][0], out[1][1], out[0][1]


def sim_kin(ctx):
    ctx.rule('SIM-KIN', 'rate-type readings of generate_imu satisfy, for an arbitrary smooth '
             'trajectory (splines idealised as exact derivatives), the navigation equations built '
             'from earth.*: V = metric * d(lla)/dt, f_b = C_nb^T (dV/dt + (2W + rho) x V - g_n), '
             'w_b = C_nb^T (W + rho) + vee(C_nb^T dC_nb/dt)')
    repo = ctx.repo
    f = repo.function('sim.generate_imu')
    for form in ('position', 'position+velocity'):
        A = Alg()
        names = ['lat', 'lon', 'alt', 'roll', 'pitch', 'heading', 'VN', 'VE', 'VD']
        kin = _Kin(A, names)
        ev = SymEval(repo, A, hooks=_KH(kin))
        row = lambda ns: SArray((3,), {(i,): A.sym(n) for i, n in enumerate(ns)}, None, True)
        lla, rph = row(['lat', 'lon', 'alt']), row(['roll', 'pitch', 'heading'])
        vel = row(['VN', 'VE', 'VD']) if form != 'position' else None
        try:
            ev.call_function(f, [A.sym('t'), lla, rph, vel, 'rate'])
        except Unsupported as e:
            raise AnalysisError('generate_imu (%s form) not analysable: %s' % (form, e))
        env = ev.last_env
        names = _output_names(f)
        ctx.need(names is not None, 'generate_imu: returned tables not recognised')
        gyro, accel, vn = env.get(names[0]), env.get(names[1]), env.get(names[2])
        ctx.need(all(isinstance(x, SArray) and x.shape == (3,) for x in (gyro, accel, vn)),
                 'generate_imu locals gyro/accel/velocity_n not recognised')
        ev2 = SymEval(repo, A, hooks=_KH(kin))
        lat, alt = A.sym('lat'), A.sym('alt')
        rn, re, rp = ev2.call_function(repo.function('earth.principal_radii'), [lat, alt])
        d2r = A.sym(A.D2R)
        vec = lambda xs: SArray((3,), {(i,): x for i, x in enumerate(xs)})
        Vkin = vec([A.mul(A.mul(d2r, rn), A.sym("lat'")), A.mul(A.mul(d2r, rp), A.sym("lon'")),
                    A.neg(A.sym("alt'"))])
        sub = {}
        if form == 'position':
            V = Vkin
            ok = all(A.eq(vn.get((k,)), V.get((k,))) for k in range(3))
            ctx.ob('SIM-KIN', ok, None, 'position form: returned velocity_n == (rn*dlat, rp*dlon, '
                   '-dalt)/dt', f=f, key='vel-' + form,
                   why='NED velocity derived from the position spline is not the metric of '
                       'principal_radii times the geodetic rates')
            dV = kin.D(V)
        else:
            V = vec([A.sym('VN'), A.sym('VE'), A.sym('VD')])
            # inputs are consistent: geodetic rates follow from the supplied velocity
            r2d = A.sym(A.R2D)
            l1 = A.div(A.mul(r2d, A.sym('VN')), rn)
            o1 = A.div(A.mul(r2d, A.sym('VE')), rp)
            h1 = A.neg(A.sym('VD'))
            sub = {"lat'": l1, "lon'": o1, "alt'": h1}
            dV = vec([A.sym("VN'"), A.sym("VE'"), A.sym("VD'")])
        Om = ev2.call_function(repo.function('earth.rate_n'), [lat])
        Fc = ev2.call_function(repo.function('earth.curvature_matrix'), [lat, alt])
        gn = ev2.call_function(repo.function('earth.gravity_n'), [lat, alt])
        C = ev2.call_function(repo.function('transform.mat_from_rph'),
                              [vec([A.sym('roll'), A.sym('pitch'), A.sym('heading')])])
        rho = ev2.matmul(Fc, V)
        w2 = ev2.emap(A.add, ev2.emap(A.add, Om, Om), rho)
        rhs = ev2.emap(A.sub, ev2.emap(A.add, dV, ev2.cross(w2, V)), gn)
        want_f = ev2.matmul(ev2.transpose(C), rhs)
        bad = []
        for k in range(3):
            got = accel.get((k,))
            if sub:
                got = A.subst(got, sub)
                # second derivatives of the geodetic coordinates follow as well
                got = A.subst(got, {"lat''": A.subst(kin.D(l1), sub),
                                    "lon''": A.subst(kin.D(o1), sub),
                                    "alt''": A.subst(kin.D(h1), sub)})
            if not A.eq(got, want_f.get((k,))):
                bad.append('xyz'[k])
        ctx.ob('SIM-KIN', not bad, None,
               '%s form: accel == C_nb^T (dV/dt + (2W + rho) x V - g_n)' % form, f=f,
               key='accel-' + form,
               why='%s form: synthesised specific force (axes %s) does not satisfy the navigation '
                   'equation assembled from earth.rate_n / curvature_matrix / gravity_n: the '
                   'synthesiser does not invert the strapdown mechanisation' % (form, bad))
        S = ev2.matmul(ev2.transpose(C), kin.D(C))
        wnb = vec([S.get((2, 1)), S.get((0, 2)), S.get((1, 0))])
        want_w = ev2.emap(A.add, ev2.matmul(ev2.transpose(C), ev2.emap(A.add, Om, rho)), wnb)
        bad = []
        for k in range(3):
            got = gyro.get((k,))
            if sub:
                got = A.subst(got, sub)
            if not A.eq(got, want_w.get((k,))):
                bad.append('xyz'[k])
        ctx.ob('SIM-KIN', not bad, None,
               '%s form: gyro == C_nb^T (W + rho) + body rate relative to NED' % form, f=f,
               key='gyro-' + form,
               why='%s form: synthesised angular rate (axes %s) is not Earth rate + transport '
                   'rate + attitude rate resolved in the body frame' % (form, bad))
        # a body at rest senses Earth rate and the reaction to gravity
        rest = {"lat'": A.const(0), "lon'": A.const(0), "alt'": A.const(0),
                "lat''": A.const(0), "lon''": A.const(0), "alt''": A.const(0),
                "roll'": A.const(0), "pitch'": A.const(0), "heading'": A.const(0),
                'VN': A.const(0), 'VE': A.const(0), 'VD': A.const(0),
                "VN'": A.const(0), "VE'": A.const(0), "VD'": A.const(0)}
        wr = ev2.matmul(ev2.transpose(C), Om)
        fr = ev2.emap(A.neg, ev2.matmul(ev2.transpose(C), gn))
        ok = all(A.eq(A.subst(gyro.get((k,)), rest), wr.get((k,))) and
                 A.eq(A.subst(accel.get((k,)), rest), fr.get((k,))) for k in range(3))
        ctx.ob('SIM-KIN', ok, None, '%s form: at rest gyro == C^T rate_n, accel == -C^T gravity_n'
               % form, f=f, key='rest-' + form,
               why='%s form: a body at rest does not sense exactly Earth rate and the reaction '
                   'to gravity' % form)


# ------------------------------------------------------------------- SIM-INTEG
class _StopEval(Exception):
    pass


class _IH(_KH):
    """initial-position form: antiderivative() of an (idealised) spline is a formal integral -
    a fresh atom whose time derivative is the integrand and whose initial value is zero."""

    def __init__(self, kin):
        _KH.__init__(self, kin)
        self.integrals = {}      # atom -> integrand
        self.captured = None

    def attr(self, ev, base, a, node):
        if isinstance(base, _Spl) and a == 'antiderivative':
            def anti():
                y = base.y
                if not isinstance(y, Rat):
                    raise Unsupported('antiderivative of a non-scalar spline')
                name = 'int%d' % (len(self.integrals) + 1)
                self.integrals[name] = y
                self.kin.deps[name] = y
                return _Spl(self.kin, ev.A.sym(name))
            return anti
        return _KH.attr(self, ev, base, a, node)

    def branch(self, ev, st, env):
        # convergence test of the fixed-point iteration (`if ...: break`): never leave early -
        # an earlier iterate has the same form as the later ones
        if len(st.body) == 1 and isinstance(st.body[0], ast.Break) and not st.orelse:
            return False
        return None

    def call(self, ev, q, node, args, kwargs, env):
        if q == 'pyins.transform.lla_to_ecef' and self.captured is None and args and \
                isinstance(args[0], SArray):
            self.captured = args[0]
            raise _StopEval()
        return _KH.call(self, ev, q, node, args, kwargs, env)


def sim_integ(ctx):
    ctx.rule('SIM-INTEG', 'initial-position form of generate_imu: the position is the solution of '
             'd(lat, lon, alt)/dt = (R2D VN/rn, R2D VE/rp, -VD) from the given initial values '
             '(antiderivatives idealised as exact integrals; latitude by Picard iteration of that '
             'equation): the three input forms describe the same motion')
    repo = ctx.repo
    f = repo.function('sim.generate_imu')
    A = Alg()
    kin = _Kin(A, ['VN', 'VE', 'VD'])
    h = _IH(kin)
    ev = SymEval(repo, A, hooks=h)
    lla0 = SArray((3,), {(i,): A.sym(n) for i, n in enumerate(['lat0', 'lon0', 'alt0'])})
    row = lambda ns: SArray((3,), {(i,): A.sym(n) for i, n in enumerate(ns)}, None, True)
    try:
        ev.call_function(f, [A.sym('t'), lla0, row(['roll', 'pitch', 'heading']),
                             row(['VN', 'VE', 'VD']), 'rate'])
    except _StopEval:
        pass
    except Unsupported as e:
        raise AnalysisError('generate_imu (initial-position form) not analysable: %s' % e)
    ctx.need(h.captured is not None and h.captured.shape == (3,),
             'generate_imu: position handed to lla_to_ecef not found')
    ctx.need(len(h.integrals) >= 3, 'generate_imu: fewer than 3 antiderivatives in the '
             'initial-position form')
    lat, lon_i, alt = (h.captured.get((k,)) for k in range(3))
    ev2 = SymEval(repo, A)
    r2d = A.sym(A.R2D)
    zero = {k: A.const(0) for k in h.integrals}
    rate = repo.const('earth.RATE')

    def radii(lat_deg, alt_):
        rn, re, rp = ev2.call_function(repo.function('earth.principal_radii'), [lat_deg, alt_])
        return rn, rp

    # ---- altitude
    ok = A.eq(kin.D(alt), A.neg(A.sym('VD'))) and A.eq(A.subst(alt, zero), A.sym('alt0'))
    ctx.ob('SIM-INTEG', ok, None, 'alt = alt0 - integral(VD)', f=f, key='alt',
           why='altitude of the initial-position form is not alt0 minus the integral of the '
               'down velocity')
    # ---- latitude: Picard chain
    depth, cur, okl, why = 0, lat, True, ''
    while True:
        d = kin.D(cur)
        if A.is_zero(d):
            okl = okl and A.eq(cur, A.sym('lat0'))
            why = why or 'the iteration does not start from the initial latitude'
            if okl and depth == 0:
                okl, why = False, ('the latitude handed on is the constant initial latitude: no '
                                   'iterate of the integration reaches the result')
            break
        depth += 1
        if depth > 12:
            okl, why = False, 'iteration chain not resolved'
            break
        ints = set()
        for a_ in A.atoms_of(d):
            ints |= ({a_} | A._nested_atoms(a_)) & set(h.integrals)
        cands = [A.sym('lat0')] + [A.add(A.sym('lat0'), A.mul(r2d, A.sym(i_))) for i_ in sorted(ints)]
        hit = None
        for L in cands:
            rn, _ = radii(L, alt)
            if A.eq(d, A.div(A.mul(r2d, A.sym('VN')), rn)):
                hit = L
                break
        if hit is None:
            okl = False
            why = ('the latitude rate of iterate %d is not R2D * VN / rn(previous iterate, alt)'
                   % depth)
            break
        if not A.eq(A.subst(cur, zero), A.sym('lat0')):
            okl, why = False, 'an iterate does not start at the initial latitude'
            break
        cur = hit
    ctx.ob('SIM-INTEG', okl, None, 'lat: %d Picard iterate(s) of lat\' = R2D VN / rn(lat, alt) '
           'from lat0' % depth, f=f, key='lat',
           why='latitude of the initial-position form: %s (wrong radius, unit or integrand)' % why)
    # ---- does the number of iterates reach the accuracy the loop itself asks for?
    # Picard iteration of lat' = V / rn(lat) from the constant guess lat0: after k iterates the
    # error is at most (K T)^k / k! * sup|lat - lat0| with the Lipschitz constant
    # K = V * sup|d(1/rn)/dlat| <= V * 1.5 E2 / (A (1 - E2)^3.5).  In metres, for a leg of
    # duration T at speed V:  e_k <= (K T)^k / k! * V T.  The bound is evaluated with the
    # constants of the source (earth.A, earth.E2, earth.GE; MAX_ITER / ACCURACY of generate_imu)
    # at the speed bound of the property (300 m/s) over one Schuler period 2 pi sqrt(A / GE).
    if okl and depth >= 1:
        import math
        a_, e2_, ge_ = (float(repo.const('earth.' + k_)) for k_ in ('A', 'E2', 'GE'))
        acc = None
        # the accuracy the loop demands: the constant its convergence test (`if ...: break`)
        # compares with - a literal, or a local bound once to something that folds
        for n_ in ast.walk(f.node):
            if isinstance(n_, ast.If) and len(n_.body) == 1 and isinstance(n_.body[0], ast.Break):
                for c_ in ast.walk(n_.test):
                    if not (isinstance(c_, ast.Compare) and len(c_.ops) == 1 and
                            isinstance(c_.ops[0], (ast.Lt, ast.LtE))):
                        continue
                    b_ = c_.comparators[0]
                    if isinstance(b_, ast.Name):
                        ds_ = [x for x in ast.walk(f.node) if isinstance(x, ast.Assign) and
                               len(x.targets) == 1 and isinstance(x.targets[0], ast.Name) and
                               x.targets[0].id == b_.id]
                        b_ = ds_[0].value if len(ds_) == 1 else b_
                    try:
                        acc = float(repo.fold(b_, f.module))
                    except (ValueError, TypeError):
                        pass
        ctx.need(acc is not None and acc > 0, 'generate_imu: accuracy of the latitude iteration '
                 'not found')
        V_, T_ = 300.0, 2 * math.pi * math.sqrt(a_ / ge_)
        K_ = V_ * 1.5 * e2_ / (a_ * (1 - e2_) ** 3.5)
        bound = (K_ * T_) ** depth / math.factorial(depth) * V_ * T_
        ctx.ob('SIM-INTEG', bound < acc, None,
               'a-priori error of %d Picard iterate(s) over a Schuler period at 300 m/s: %.2g m < '
               'demanded accuracy %.2g m' % (depth, bound, acc), f=f, key='lat-iterates',
               why='the latitude of the initial-position form is the result of %d Picard '
                   'iterate(s); over a leg of one Schuler period (%.0f s) at 300 m/s their a-priori '
                   'error bound (K T)^k / k! * V T is %.2g m, above the %.2g m the loop itself '
                   'demands: the iteration ends by exhaustion, unconverged, and the returned '
                   'positions are not the integral of the returned velocities (amplified by 6/dt '
                   'in the spline accelerations)' % (depth, T_, bound, acc))
    # ---- longitude (handed over in the inertial frame: + R2D * RATE * t)
    _, rp = radii(lat, alt)
    want = A.add(A.div(A.mul(r2d, A.sym('VE')), rp), A.mul(r2d, ev.global_value('pyins.earth.RATE')))
    ok = A.eq(kin.D(lon_i), want)
    ok0 = A.eq(A.subst(A.subst(lon_i, zero), {'t': A.const(0)}), A.sym('lon0'))
    ctx.ob('SIM-INTEG', ok and ok0, None, "lon' = R2D VE / rp(lat, alt) with the final latitude, "
           'from lon0 (inertial longitude = + R2D RATE t)', f=f, key='lon',
           why='longitude of the initial-position form is not lon0 plus the integral of '
               'R2D * VE / rp(lat, alt)')
