"""C07 / C08 - kalman.py.

N3: non-commutative matrix-product normal form.  A value is a sum of products of
factors (atom, transposed); symmetric atoms absorb the transpose; (AB)^T = B^T A^T.
Solves normalise to multiplication by an inverse atom tied to the factored matrix.

KAL-FLAGS  one factor, one triangle: cholesky / cho_solve / solve_triangular flags agree
KAL-GAIN   K == P H^T S^-1 with S == H P H^T + R;  state update == x + K (z - H x)
KAL-PSD    posterior covariance == (I-KH) P (I-KH)^T + K R K^T, and every summand is a
           congruence A M A^T with M in {P, R} (symmetric PSD by construction)
KAL-RESID  innovation == L^-1 (z - H x), L the lower factor of that same S
VL-BLOCK   Van Loan assembly: expm([[F, Q], [0, -F^T]] * dt); returns (E00, E01 E00^T)
Q-PSD      call site: Q = G diag(q**2) G^T; step argument is the propagation interval
"""
import ast
from fractions import Fraction

from ..flow import Closure
from ..model import AnalysisError, norm_text


class NC:
    """Sum of non-commutative products.  terms: {tuple(factors): Fraction};
    factor = (atom, transposed)."""
    def __init__(self, terms=None):
        self.t = {k: v for k, v in (terms or {}).items() if v}

    def key(self):
        return ' + '.join('%s*%s' % (c, '.'.join(a + ("'" if tr else '') for a, tr in m) or 'I')
                          for m, c in sorted(self.t.items()))

    def __repr__(self):
        return 'NC(%s)' % self.key()


class NCAlg:
    def __init__(self, symmetric=()):
        self.symmetric = set(symmetric)
        self.inverse = {}      # atom -> inverse atom

    def atom(self, a):
        return NC({((a, False),): Fraction(1)})

    def ident(self):
        return NC({(): Fraction(1)})

    def add(self, a, b, sign=1):
        t = dict(a.t)
        for m, c in b.t.items():
            t[m] = t.get(m, 0) + sign * c
        return NC(t)

    def sub(self, a, b):
        return self.add(a, b, -1)

    def neg(self, a):
        return NC({m: -c for m, c in a.t.items()})

    def scale(self, a, c):
        return NC({m: v * c for m, v in a.t.items()})

    def _cancel(self, m):
        out = []
        for f in m:
            if out and self.inverse.get(out[-1][0]) == f[0] and out[-1][1] == f[1] and \
                    (f[0] in self.symmetric or out[-1][0] in self.symmetric or True):
                # A * inv(A) -> I   (same transposition state)
                out.pop()
            else:
                out.append(f)
        return tuple(out)

    def mul(self, a, b):
        t = {}
        for m1, c1 in a.t.items():
            for m2, c2 in b.t.items():
                m = self._cancel(m1 + m2)
                t[m] = t.get(m, 0) + c1 * c2
        return NC(t)

    def T(self, a):
        t = {}
        for m, c in a.t.items():
            mm = tuple((x, (not tr) if x not in self.symmetric else False)
                       for x, tr in reversed(m))
            t[mm] = t.get(mm, 0) + c
        return NC(t)

    def eq(self, a, b):
        return not self.sub(a, b).t

    def is_symmetric(self, a):
        return self.eq(a, self.T(a))

    def inv_atom(self, a, name, symmetric):
        """Register `name` as the inverse of the single atom value a."""
        (m, c), = a.t.items()
        base = m[0][0]
        self.inverse[base] = name
        self.inverse[name] = base
        if symmetric:
            self.symmetric.add(name)
        return self.atom(name)


class _KalEval:
    """Evaluate the straight-line body of a kalman.py function in the N3 domain."""

    def __init__(self, ctx, f, symmetric, vectors=()):
        self.ctx, self.f = ctx, f
        self.A = NCAlg(symmetric)
        self.env = {}
        self.vectors = set(vectors)
        self.chol = {}        # factor name -> (S value, S atom, lower flag, node)
        self.findings = []
        self.flags = []       # (kind, node, lower flag, factor)
        self.res = lambda n: f.module.resolve(n, f.local_names())
        for p in f.params:
            self.env[p] = self.A.atom(p)

    def const_bool(self, node):
        if isinstance(node, ast.Name) and isinstance(self.env.get(node.id), tuple) and \
                self.env[node.id][0] == 'pyconst':
            return self.env[node.id][1]
        try:
            return self.ctx.repo.fold(node, self.f.module)
        except ValueError:
            return None

    def kw(self, call, name, pos=None, default=None):
        for k in call.keywords:
            if k.arg == name:
                return self.const_bool(k.value)
        if pos is not None and len(call.args) > pos:
            return self.const_bool(call.args[pos])
        return default

    def name_S(self, v, node):
        """Give a composite symmetric value an atom name (for its inverse/factor)."""
        for nm, (sv, at) in getattr(self, 'named', {}).items():
            if self.A.eq(sv, v):
                return at
        if not hasattr(self, 'named'):
            self.named = {}
        nm = 'S%d' % len(self.named)
        if self.A.is_symmetric(v):
            self.A.symmetric.add(nm)
        self.named[nm] = (v, self.A.atom(nm))
        return self.named[nm][1]

    def ev(self, node):
        A = self.A
        if isinstance(node, ast.Name):
            if node.id not in self.env:
                raise AnalysisError('kalman: unbound name %s' % node.id)
            return self.env[node.id]
        if isinstance(node, ast.BinOp):
            if isinstance(node.op, ast.MatMult):
                return A.mul(self.ev(node.left), self.ev(node.right))
            if isinstance(node.op, ast.Add):
                return A.add(self.ev(node.left), self.ev(node.right))
            if isinstance(node.op, ast.Sub):
                return A.sub(self.ev(node.left), self.ev(node.right))
            if isinstance(node.op, ast.Mult):
                # scalar * matrix
                for s, m in ((node.left, node.right), (node.right, node.left)):
                    if isinstance(s, ast.Constant) and isinstance(s.value, (int, float)):
                        return A.scale(self.ev(m), Fraction(repr(s.value)))
                    if isinstance(s, ast.Name) and s.id in getattr(self, 'scalars', ()):
                        return A.mul(A.atom(s.id), self.ev(m)) if False else \
                            self._scalar_mul(s.id, self.ev(m))
                # matrix * (the diagonal of a matrix, as a vector): broadcasting over the last
                # axis scales the columns, M * d == M @ Diag(d); a column d[:, None] scales the
                # rows.  Diag(diag(X)) is an atom of its own -- it is X only for a diagonal X,
                # which nothing in the contract of these functions promises.
                lv, rv = self.ev(node.left), self.ev(node.right)
                for d, m, left in ((lv, rv, True), (rv, lv, False)):
                    if isinstance(d, tuple) and d[0] in ('diagvec', 'diagcol') and \
                            isinstance(m, NC):
                        D = A.atom(d[1])
                        return A.mul(m, D) if d[0] == 'diagvec' else A.mul(D, m)
            raise AnalysisError('kalman: operator %s' % type(node.op).__name__)
        if isinstance(node, ast.UnaryOp) and isinstance(node.op, ast.USub):
            return A.neg(self.ev(node.operand))
        if isinstance(node, ast.Attribute) and node.attr == 'T':
            return A.T(self.ev(node.value))
        if isinstance(node, ast.Subscript):
            base = self.ev(node.value)
            if isinstance(base, tuple) and base[0] == 'cho' and \
                    isinstance(node.slice, ast.Constant) and node.slice.value in (0, 1):
                if node.slice.value == 0:
                    return base[1]
                raise AnalysisError('kalman: triangle flag of a cho_factor result used as a value')
            if isinstance(base, tuple) and base[0] == 'diagvec':
                sl = node.slice
                el = sl.elts if isinstance(sl, ast.Tuple) else [sl]
                full = lambda e: isinstance(e, ast.Slice) and e.lower is None and \
                    e.upper is None and e.step is None
                none = lambda e: isinstance(e, ast.Constant) and e.value is None
                if len(el) == 2 and full(el[0]) and none(el[1]):
                    return ('diagcol', base[1])
                if (len(el) == 2 and none(el[0]) and full(el[1])) or \
                        (len(el) == 1 and none(el[0])):
                    return base
            raise AnalysisError('kalman: subscript `%s`' % norm_text(node))
        if isinstance(node, ast.Call):
            fn = node.func
            q = self.res(fn)
            if isinstance(fn, ast.Attribute) and fn.attr in ('dot',) and q is None:
                return A.mul(self.ev(fn.value), self.ev(node.args[0]))
            if isinstance(fn, ast.Attribute) and fn.attr in ('transpose',) and q is None:
                return A.T(self.ev(fn.value))
            if isinstance(fn, ast.Attribute) and fn.attr == 'copy' and q is None:
                return self.ev(fn.value)
            if q in ('numpy.dot', 'numpy.matmul') and len(node.args) == 2:
                return A.mul(self.ev(node.args[0]), self.ev(node.args[1]))
            if q == 'numpy.transpose':
                if len(node.args) != 1 or node.keywords:
                    raise AnalysisError('kalman: np.transpose with axes')
                return A.T(self.ev(node.args[0]))
            if q in ('numpy.eye', 'numpy.identity'):
                return A.ident()
            if (q in ('numpy.diag', 'numpy.diagonal') and len(node.args) == 1 and
                    not node.keywords) or (isinstance(fn, ast.Attribute) and
                                           fn.attr == 'diagonal' and q is None and
                                           not node.args and not node.keywords):
                v = self.ev(node.args[0] if node.args else fn.value)
                if isinstance(v, tuple) and v[0] == 'diagvec' and q == 'numpy.diag':
                    return A.atom(v[1])
                if isinstance(v, NC):
                    if v.t == {(): Fraction(1)}:
                        raise AnalysisError('kalman: diagonal of the identity')
                    nm = 'Diag(%s)' % v.key()
                    A.symmetric.add(nm)
                    return ('diagvec', nm)
                raise AnalysisError('kalman: np.diag of `%s`' % norm_text(node.args[0]))
            if q in ('scipy.linalg.cholesky', 'numpy.linalg.cholesky'):
                S = self.ev(node.args[0])
                lower = self.kw(node, 'lower', 1, default=(q.startswith('numpy')))
                Sat = self.name_S(S, node)
                (m, _), = Sat.t.items()
                fname = 'chol(%s)' % m[0][0]
                self.chol[fname] = (S, Sat, lower, node)
                self.flags.append(('cholesky', node, lower, fname, lower))
                return A.atom(fname)
            if q == 'scipy.linalg.cho_factor':
                S = self.ev(node.args[0])
                lower = self.kw(node, 'lower', 1, default=False)
                Sat = self.name_S(S, node)
                (m, _), = Sat.t.items()
                fname = 'chol(%s)' % m[0][0]
                self.chol[fname] = (S, Sat, lower, node)
                self.flags.append(('cho_factor', node, lower, fname, lower))
                return ('cho', A.atom(fname), lower)
            if q == 'scipy.linalg.cho_solve':
                c = node.args[0]
                if isinstance(c, ast.Tuple) and len(c.elts) == 2:
                    Lv = self.ev(c.elts[0])
                    lower = self.const_bool(c.elts[1])
                else:
                    cv = self.ev(c)
                    if not (isinstance(cv, tuple) and cv[0] == 'cho'):
                        raise AnalysisError('kalman: cho_solve factor argument')
                    Lv, lower = cv[1], cv[2]
                fname, tr = self._factor_name(Lv)
                tri = self.chol[fname][2]
                # the triangle that holds the factor in the array passed
                self.flags.append(('cho_solve', node, lower, fname, tri if not tr else not tri))
                S, Sat, _, _ = self.chol[fname]
                inv = self._inv_of(Sat)
                return A.mul(inv, self.ev(node.args[1]))
            if q == 'scipy.linalg.solve_triangular':
                Lv = self.ev(node.args[0])
                lower = self.kw(node, 'lower', 3, default=False)
                trans = self.kw(node, 'trans', 2, default=0)
                fname, tr = self._factor_name(Lv)
                tri = self.chol[fname][2]
                self.flags.append(('solve_triangular', node, lower, fname,
                                   tri if not tr else not tri))
                if trans not in (0, 'N', 1, 'T', 2, 'C'):
                    raise AnalysisError('kalman: solve_triangular trans')
                if fname not in A.inverse:
                    A.inverse[fname] = 'inv(%s)' % fname
                    A.inverse['inv(%s)' % fname] = fname
                Minv = A.atom('inv(%s)' % fname)
                if tr != (trans not in (0, 'N')):
                    Minv = A.T(Minv)
                return A.mul(Minv, self.ev(node.args[1]))
            if q in ('numpy.linalg.solve', 'scipy.linalg.solve'):
                S = self.ev(node.args[0])
                Sat = self.name_S(S, node)
                return A.mul(self._inv_of(Sat), self.ev(node.args[1]))
            if q in ('numpy.linalg.inv', 'scipy.linalg.inv'):
                S = self.ev(node.args[0])
                Sat = self.name_S(S, node)
                return self._inv_of(Sat)
            raise AnalysisError('kalman: call %s' % norm_text(fn))
        raise AnalysisError('kalman: expression %s' % type(node).__name__)

    def _factor_name(self, Lv):
        """(factor atom, passed transposed?)"""
        if isinstance(Lv, NC) and len(Lv.t) == 1:
            (m, c), = Lv.t.items()
            if c == 1 and len(m) == 1 and m[0][0] in self.chol:
                return m[0][0], bool(m[0][1])
        raise AnalysisError('kalman: triangular solve on something that is not a Cholesky '
                            'factor')

    def _inv_of(self, Sat):
        (m, _), = Sat.t.items()
        nm = m[0][0]
        inv = 'inv(%s)' % nm
        self.A.inverse[nm] = inv
        self.A.inverse[inv] = nm
        if nm in self.A.symmetric:
            self.A.symmetric.add(inv)
        return self.A.atom(inv)

    def run(self):
        rets = []
        for st in self.f.node.body:
            if isinstance(st, ast.Expr) and isinstance(st.value, ast.Constant):
                continue
            if isinstance(st, ast.Assign) and len(st.targets) == 1 and \
                    isinstance(st.targets[0], ast.Name) and isinstance(st.value, ast.Constant) \
                    and isinstance(st.value.value, (bool, int, str)):
                # a flag / mode bound to a local (`lower = True`)
                self.env[st.targets[0].id] = ('pyconst', st.value.value)
            elif isinstance(st, ast.Assign) and len(st.targets) == 1 and \
                    isinstance(st.targets[0], ast.Name):
                self.env[st.targets[0].id] = self.ev(st.value)
            elif isinstance(st, ast.Assign) and len(st.targets) == 1 and \
                    isinstance(st.targets[0], ast.Tuple) and len(st.targets[0].elts) == 2 and \
                    all(isinstance(e_, ast.Name) for e_ in st.targets[0].elts) and \
                    isinstance(st.value, ast.Call) and \
                    self.res(st.value.func) == 'scipy.linalg.cho_factor':
                # c, lower = cho_factor(S): the factor and the triangle it is stored in
                cv = self.ev(st.value)
                self.env[st.targets[0].elts[0].id] = cv[1]
                self.env[st.targets[0].elts[1].id] = ('pyconst', bool(cv[2]))
            elif isinstance(st, ast.AugAssign) and isinstance(st.op, (ast.Add, ast.Sub)) and \
                    isinstance(st.target, ast.Name) and st.target.id in self.env:
                d = self.ev(st.value)
                self.env[st.target.id] = self.A.add(self.env[st.target.id], d,
                                                    1 if isinstance(st.op, ast.Add) else -1)
            elif isinstance(st, ast.AugAssign) and isinstance(st.op, (ast.Add, ast.Sub)) and \
                    isinstance(st.target, ast.Subscript) and \
                    isinstance(st.target.value, ast.Name) and st.target.value.id in self.env and \
                    isinstance(st.target.slice, ast.Call) and \
                    (self.res(st.target.slice.func) or '') in ('numpy.diag_indices_from',
                                                               'numpy.diag_indices'):
                # X[np.diag_indices_from(X)] += c   ==   X += c * I
                c = self.const_bool(st.value)
                if isinstance(c, (int, float)) and not isinstance(c, bool):
                    d = self.A.scale(self.A.ident(), Fraction(repr(c)))
                else:
                    d = self.A.atom('jitter(%s)' % norm_text(st.value)[:20])
                nm = st.target.value.id
                self.env[nm] = self.A.add(self.env[nm], d, 1 if isinstance(st.op, ast.Add) else -1)
            elif isinstance(st, ast.Return):
                v = st.value
                elts = v.elts if isinstance(v, ast.Tuple) else [v]
                rets = [(e, self.ev(e)) for e in elts]
                self.ret_node = st
            elif isinstance(st, (ast.Assert, ast.Pass)):
                pass                  # an assertion is assumed to hold (as in SymEval)
            else:
                raise AnalysisError('kalman.%s: statement %s' % (self.f.name,
                                                                 type(st).__name__))
        return rets


def kal_rules(ctx):
    ctx.rule('KAL-FLAGS', 'cholesky / cho_solve / solve_triangular use the same triangle of the '
             'same factor')
    ctx.rule('KAL-GAIN', 'state update == x + P H^T S^-1 (z - H x), S == H P H^T + R')
    ctx.rule('KAL-PSD', 'posterior covariance == Joseph form (I-KH) P (I-KH)^T + K R K^T as a free '
             'non-commutative polynomial (a sum of congruences of P and R: symmetric PSD by '
             'construction; the simple form (I-KH) P is equal only modulo S^-1 S = I and fails)')
    ctx.rule('KAL-RESID', 'innovation == L^-1 (z - H x) with L the lower Cholesky factor of S')
    f = ctx.repo.function('kalman.correct')
    ctx.need(len(f.params) == 5, 'kalman.correct signature changed')
    x, P, z, H, R = f.params
    E = _KalEval(ctx, f, symmetric=(P, R))
    rets = E.run()
    ctx.need(len(rets) == 3, 'kalman.correct does not return (x, P, innovation)')
    A = E.A
    at = A.atom
    S = A.add(A.mul(A.mul(at(H), at(P)), A.T(at(H))), at(R))
    # the factored matrix must be S
    others = [sv.key()[:60] for _, (sv, _, _, _) in E.chol.items() if not A.eq(sv, S)]
    ctx.ob('KAL-GAIN', len(E.chol) == 1, None, 'exactly one Cholesky factorisation', f=f,
           key='one-chol',
           why='%d Cholesky factorisations in kalman.correct%s' % (
               len(E.chol), (': besides the innovation covariance it factorises %s, which is '
                             'only positive SEMI-definite for an admissible input (a prior '
                             'with an exactly known or perfectly correlated state, P = 0): '
                             'the factorisation fails there' % ', '.join(others))
               if others else ''))
    if len(E.chol) != 1:
        return
    fname, (Sv, Sat, lower, cnode) = next(iter(E.chol.items()))
    ctx.ob('KAL-GAIN', A.eq(Sv, S), None, 'factored matrix == H P H^T + R', f=f, node=cnode,
           key='S', why='the matrix that is factored is %s, not the innovation covariance '
                        'H P H^T + R' % Sv.key())
    (sm, _), = Sat.t.items()
    Sinv = at('inv(%s)' % sm[0][0])
    K = A.mul(A.mul(at(P), A.T(at(H))), Sinv)
    e = A.sub(at(z), A.mul(at(H), at(x)))
    # flags
    for kind, node, fl, fn, holds in E.flags:
        ctx.ob('KAL-FLAGS', fl is holds and fn == fname, None,
               '%s reads the triangle that holds the one factor' % kind, f=f, node=node,
               why='%s is called with lower=%r on %s, whose factor is in the %s triangle of '
                   'the array passed: mixing triangles whitens/solves with the wrong matrix '
                   '(invisible when S is diagonal)'
                   % (kind, fl, fn, 'lower' if holds else 'upper'))
    kinds = [k for k, _, _, _, _ in E.flags]
    ctx.floor('KAL-FLAGS', len(kinds), 3, 'factor uses')
    # state
    r0 = rets[0][1]
    ctx.ob('KAL-GAIN', A.eq(r0, A.add(at(x), A.mul(K, e))), None,
           'x_post == x + P H^T S^-1 (z - H x)', f=f, node=rets[0][0], key='state',
           why='returned state is %s' % r0.key()[:200])
    # covariance
    U = A.sub(A.ident(), A.mul(K, at(H)))
    joseph = A.add(A.mul(A.mul(U, at(P)), A.T(U)), A.mul(A.mul(K, at(R)), A.T(K)))
    r1 = rets[1][1]
    ctx.ob('KAL-PSD', A.eq(r1, joseph), None,
           'P_post == (I - K H) P (I - K H)^T + K R K^T', f=f, node=rets[1][0], key='joseph',
           why='returned covariance is not the Joseph form with K = P H^T S^-1 (returned - '
               'Joseph = %s): it is not the posterior covariance as a polynomial identity, or '
               'symmetry / positive semi-definiteness is not guaranteed for ill-conditioned '
               'input' % (A.sub(r1, joseph).key()[:160] if isinstance(r1, NC) else r1,))
    # innovation
    r2 = rets[2][1]
    Linv = at('inv(%s)' % fname)
    if fname not in A.inverse:
        A.inverse[fname] = 'inv(%s)' % fname
        A.inverse['inv(%s)' % fname] = fname
    if not lower:
        Linv = A.T(Linv)          # S = U^T U: the lower factor is U^T
    ctx.ob('KAL-RESID', isinstance(r2, NC) and A.eq(r2, A.mul(Linv, e)), None,
           'innovation == L^-1 (z - H x)', f=f, node=rets[2][0], key='innovation',
           why='returned innovation is %s, not the residual z - H x whitened by the lower '
               'Cholesky factor of its covariance (chol(S) here is the %s factor)'
               % (r2.key()[:200] if isinstance(r2, NC) else r2, 'lower' if lower else 'upper'))


# ------------------------------------------------------------------- TOL-GATE
def _lead_const(e, fold):
    """largest numeric constant that bounds the expression from its leading factors:
    `1e-8`, `1e-8 * s.max()`, `EPS * n` -> the constant part; None when there is none"""
    try:
        v = fold(e)
        if isinstance(v, (int, float)) and not isinstance(v, bool):
            return abs(float(v))
    except (ValueError, TypeError):
        pass
    if isinstance(e, ast.BinOp) and isinstance(e.op, ast.Mult):
        a, b = _lead_const(e.left, fold), _lead_const(e.right, fold)
        if a is not None and b is not None:
            return a * b
        return a if a is not None else b
    return None


def tol_gate(ctx, modules=('kalman',)):
    """The correction and the discretisation are exact formulas.  A branch that replaces part of
    them by a cheaper expression when computed values are *close* to something (np.allclose,
    np.isclose, |.| < eps) returns an approximation for every input just inside the tolerance
    - unless the tolerance is at rounding level.  Tolerances of 1e-12 and above (relative, or
    absolute times a scale taken from the data) are reported; smaller ones pass; a tolerance
    that cannot be read ends the analysis (round-10 seed C07: `L = diag(sqrt(diag(S)))` when S is
    diagonal within 1e-8 of its largest entry)."""
    ctx.rule('TOL-GATE', 'no branch of the Kalman routines is decided by a tolerance comparison of '
             'computed values with a tolerance above rounding level')
    n = 0
    for f in ctx.repo.all_functions():
        if f.module.name.split('.')[-1] not in modules:
            continue
        n += 1
        loc = f.local_names()
        res = lambda e: f.module.resolve(e, loc) if isinstance(e, (ast.Name, ast.Attribute)) \
            else None
        fold = lambda e: ctx.repo.fold(e, f.module, f.cls)
        for node in ast.walk(f.node):
            if not isinstance(node, (ast.If, ast.IfExp, ast.While)):
                continue
            if isinstance(node, ast.If) and node.body and isinstance(node.body[0], ast.Raise) \
                    and not node.orelse:
                continue                     # argument validation
            for c in ast.walk(node.test):
                tol = what = None
                if isinstance(c, ast.Call) and res(c.func) in ('numpy.allclose', 'numpy.isclose',
                                                               'math.isclose'):
                    rt, at_ = 1e-5 if res(c.func) != 'math.isclose' else 1e-9, \
                        1e-8 if res(c.func) != 'math.isclose' else 0.0
                    args = list(c.args[2:])
                    kws = {kw.arg: kw.value for kw in c.keywords}
                    r_e = kws.get('rtol', kws.get('rel_tol', args[0] if args else None))
                    a_e = kws.get('atol', kws.get('abs_tol', args[1] if len(args) > 1 else None))
                    vals = []
                    for dflt, e_ in ((rt, r_e), (at_, a_e)):
                        if e_ is None:
                            vals.append(dflt)
                        else:
                            v_ = _lead_const(e_, fold)
                            ctx.need(v_ is not None, '%s: tolerance `%s` not read'
                                     % (f.qualname, norm_text(e_)[:40]))
                            vals.append(v_)
                    tol, what = max(vals), norm_text(c)[:70]
                elif isinstance(c, ast.Compare) and len(c.ops) == 1 and \
                        isinstance(c.ops[0], (ast.Lt, ast.LtE)) and \
                        any(isinstance(x, ast.Call) and norm_text(x.func) in (
                            'abs', 'np.abs', 'np.absolute', 'np.fabs', 'np.linalg.norm', 'np.max',
                            'np.amax') for x in ast.walk(c.left)):
                    v_ = _lead_const(c.comparators[0], fold)
                    if v_ is None or v_ == 0:
                        continue
                    tol, what = v_, norm_text(c)[:70]
                if tol is None:
                    continue
                ctx.ob('TOL-GATE', tol < 1e-12, None, '%s: `%s` is at rounding level' % (
                    f.qualname, what), f=f, node=node, key='tol-%s-%s' % (f.qualname, what[:30]),
                    why='%s takes a different computation when `%s` (tolerance %.1e, above '
                        'rounding level): for inputs just inside the tolerance the result is an '
                        'approximation of the exact formula, not the formula' % (
                            f.qualname, what, tol))
    ctx.ob('TOL-GATE', True, None, '%d functions of the Kalman module scanned' % n, key='summary')
    if not ctx.cache.get('tol-gate-fixture'):
        ctx.cache['tol-gate-fixture'] = True
        e = ast.parse('1e-8 * s.max()', mode='eval').body

        def _nofold(x):
            if isinstance(x, ast.Constant):
                return x.value
            raise ValueError
        if _lead_const(e, _nofold) != 1e-8:
            raise AnalysisError('TOL-GATE fixture not recognised')
        ctx.ob('TOL-GATE', True, None, 'positive fixture: the constant part of `1e-8 * s.max()` '
               'is read', key='fixture')


# ------------------------------------------------------------------- Van Loan
def _vl_exact_shortcut(f, st, F, Q, dt, res):
    """A conditional early return of compute_process_matrices that is exact by the semigroup law:
    halving and doubling - (Ph, Qh) = self(F, Q, dt / 2), return (Ph Ph, Ph Qh Ph^T + Qh) - or
    the zero step (I, 0) under `dt == 0`.  -> (ok, what, why) or None when the shape is not one
    of these."""
    A = NCAlg(symmetric=('Qh',))
    env = {}
    rec = None
    for s2 in st.body:
        if isinstance(s2, ast.Expr) and isinstance(s2.value, ast.Constant):
            continue
        if isinstance(s2, ast.Assign) and isinstance(s2.value, ast.Call) and \
                norm_text(s2.value.func) == f.name and isinstance(s2.targets[0], ast.Tuple) and \
                len(s2.targets[0].elts) == 2 and len(s2.value.args) == 3:
            a0, a1, a2 = s2.value.args
            half = norm_text(a2) in ('0.5 * %s' % dt, '%s * 0.5' % dt, '%s / 2' % dt,
                                     '%s / 2.0' % dt)
            if norm_text(a0) != F or norm_text(a1) != Q or not half:
                return None
            env[s2.targets[0].elts[0].id] = A.atom('Ph')
            env[s2.targets[0].elts[1].id] = A.atom('Qh')
            rec = s2
            continue
        if rec is None and isinstance(s2, ast.Return):
            # zero step
            t = norm_text(st.test)
            v = s2.value
            if t in ('%s == 0' % dt, '%s == 0.0' % dt, 'not %s' % dt) and \
                    isinstance(v, ast.Tuple) and len(v.elts) == 2:
                i_ok = isinstance(v.elts[0], ast.Call) and \
                    (res(v.elts[0].func) or '') in ('numpy.identity', 'numpy.eye')
                z_ok = isinstance(v.elts[1], ast.Call) and \
                    (res(v.elts[1].func) or '') in ('numpy.zeros', 'numpy.zeros_like')
                return (i_ok and z_ok, 'zero step returns (I, 0)',
                        'zero-step shortcut returns `%s`, not (identity, zeros)' % norm_text(v)[:60])
            return None
        if rec is None:
            return None

        def ev(e):
            if isinstance(e, ast.Name) and e.id in env:
                return env[e.id]
            if isinstance(e, ast.Attribute) and e.attr == 'T':
                return A.T(ev(e.value))
            if isinstance(e, ast.Call) and isinstance(e.func, ast.Attribute) and \
                    e.func.attr == 'transpose' and not e.args:
                return A.T(ev(e.func.value))
            if isinstance(e, ast.Call) and isinstance(e.func, ast.Attribute) and \
                    e.func.attr == 'dot' and len(e.args) == 1:
                return A.mul(ev(e.func.value), ev(e.args[0]))
            if isinstance(e, ast.BinOp) and isinstance(e.op, ast.MatMult):
                return A.mul(ev(e.left), ev(e.right))
            if isinstance(e, ast.BinOp) and isinstance(e.op, (ast.Add, ast.Sub)):
                return A.add(ev(e.left), ev(e.right), 1 if isinstance(e.op, ast.Add) else -1)
            raise AnalysisError('Van Loan shortcut: `%s`' % norm_text(e)[:50])
        if isinstance(s2, ast.Assign) and len(s2.targets) == 1 and \
                isinstance(s2.targets[0], ast.Name):
            env[s2.targets[0].id] = ev(s2.value)
            continue
        if isinstance(s2, ast.Return) and isinstance(s2.value, ast.Tuple) and \
                len(s2.value.elts) == 2:
            phi, qd = ev(s2.value.elts[0]), ev(s2.value.elts[1])
            Ph, Qh = A.atom('Ph'), A.atom('Qh')
            want_phi = A.mul(Ph, Ph)
            want_q = A.add(A.mul(A.mul(Ph, Qh), A.T(Ph)), Qh)
            ok = A.eq(phi, want_phi) and A.eq(qd, want_q)
            return (ok, 'halved step is re-composed exactly: (Ph Ph, Ph Qh Ph^T + Qh)',
                    'the halved step is re-composed as (%s, %s); the semigroup law gives '
                    '(Ph Ph, Ph Qh Ph^T + Qh) with Ph, Qh the matrices of the half step'
                    % (phi.key()[:60], qd.key()[:80]))
        return None
    return None


def vl_rules(ctx):
    ctx.rule('VL-BLOCK', 'expm([[F, Q], [0, -F^T]] * dt); returns (E[0,0], E[0,1] @ E[0,0]^T)')
    f = ctx.repo.function('kalman.compute_process_matrices')
    ctx.need(len(f.params) == 3, 'compute_process_matrices signature changed')
    F, Q, dt = f.params
    res = lambda n: f.module.resolve(n, f.local_names())
    A = NCAlg(symmetric=(Q,))
    env = {F: A.atom(F), Q: A.atom(Q)}
    nvar = None
    blocks = {}
    big = None
    E = None
    ret = None

    big_alias = set()
    named = {}       # local -> ast.Slice, for `head = slice(None, n)` / `tail = slice(n, None)`
    sizes = {}       # local -> defining expression, for `size = 2 * n`

    def blk(sl, st):
        """slice pair -> block index"""
        if not (isinstance(sl, ast.Tuple) and len(sl.elts) == 2):
            return None
        out = []
        for s in sl.elts:
            if isinstance(s, ast.Name) and s.id in named:
                s = named[s.id]
            if not isinstance(s, ast.Slice) or s.step is not None:
                return None
            lo = norm_text(s.lower) if s.lower else None
            hi = norm_text(s.upper) if s.upper else None
            if lo is None and hi == nvar:
                out.append(0)
            elif lo == nvar and hi is None:
                out.append(1)
            else:
                return None
        return tuple(out)

    def ev(node):
        if isinstance(node, ast.Name) and node.id in env:
            return env[node.id]
        if isinstance(node, ast.UnaryOp) and isinstance(node.op, ast.USub):
            return A.neg(ev(node.operand))
        if isinstance(node, ast.Attribute) and node.attr == 'T':
            return A.T(ev(node.value))
        if isinstance(node, ast.Call) and isinstance(node.func, ast.Attribute) and \
                node.func.attr == 'transpose':
            return A.T(ev(node.func.value))
        if isinstance(node, ast.BinOp) and isinstance(node.op, ast.MatMult):
            return A.mul(ev(node.left), ev(node.right))
        if isinstance(node, ast.Call) and isinstance(node.func, ast.Attribute) and \
                node.func.attr == 'dot':
            return A.mul(ev(node.func.value), ev(node.args[0]))
        if isinstance(node, ast.Subscript) and isinstance(node.value, ast.Name) and \
                node.value.id == E:
            b = blk(node.slice, None)
            if b is not None:
                return A.atom('E%d%d' % b)
        if isinstance(node, ast.BinOp) and isinstance(node.op, (ast.Add, ast.Sub)):
            return A.add(ev(node.left), ev(node.right), 1 if isinstance(node.op, ast.Add) else -1)
        if isinstance(node, ast.BinOp) and isinstance(node.op, (ast.Mult, ast.Div)):
            for c_, m_ in ((node.left, node.right), (node.right, node.left)):
                try:
                    c = ctx.repo.fold(c_, f.module)
                except ValueError:
                    continue
                if isinstance(c, (int, float)) and not isinstance(c, bool) and c != 0 and \
                        (isinstance(node.op, ast.Mult) or c_ is node.right):
                    c = Fraction(repr(c)) if isinstance(c, float) else Fraction(c)
                    return A.scale(ev(m_), c if isinstance(node.op, ast.Mult) else 1 / c)
        raise AnalysisError('Van Loan: expression `%s` not understood' % norm_text(node))
    for st in f.node.body:
        if isinstance(st, ast.Expr) and isinstance(st.value, ast.Constant):
            continue
        if isinstance(st, ast.Assign) and len(st.targets) == 1:
            t, v = st.targets[0], st.value
            if isinstance(t, ast.Name) and isinstance(v, ast.Call) and \
                    res(v.func) == 'builtins.len' and norm_text(v.args[0]) in (F, Q):
                nvar = t.id
                continue
            if isinstance(t, ast.Name) and isinstance(v, ast.Call) and \
                    res(v.func) == 'builtins.slice' and 1 <= len(v.args) <= 2 and \
                    not v.keywords:
                a_ = [None if (isinstance(x, ast.Constant) and x.value is None) else x
                      for x in v.args]
                named[t.id] = ast.Slice(lower=None, upper=a_[0], step=None) if len(a_) == 1 \
                    else ast.Slice(lower=a_[0], upper=a_[1], step=None)
                continue
            if isinstance(t, ast.Name) and isinstance(v, ast.BinOp) and nvar is None and \
                    any(isinstance(n_, ast.Call) and res(n_.func) == 'builtins.len' and
                        norm_text(n_.args[0]) in (F, Q) for n_ in ast.walk(v)):
                sizes[t.id] = v          # `size = 2 * len(F)` before any `n = len(F)`
                continue
            if isinstance(t, ast.Name) and isinstance(v, ast.BinOp) and nvar is not None and \
                    set(n_.id for n_ in ast.walk(v) if isinstance(n_, ast.Name)) <= \
                    {nvar, F, Q, 'len'} and all(res(c_.func) == 'builtins.len'
                                                for c_ in ast.walk(v) if isinstance(c_, ast.Call)):
                sizes[t.id] = v
                continue
            if isinstance(t, ast.Name) and isinstance(v, ast.Call) and \
                    res(v.func) == 'numpy.zeros':
                shp = norm_text(v.args[0])
                dims = v.args[0].elts if isinstance(v.args[0], ast.Tuple) else []
                dims = [sizes.get(d_.id, d_) if isinstance(d_, ast.Name) else d_ for d_ in dims]
                nv_ = [nvar] if nvar else []
                nv_ += ['len(%s)' % F, 'len(%s)' % Q]
                ok = len(dims) == 2 and all(
                    norm_text(d_) in [x_ % ((n_,) * x_.count('%s')) for n_ in nv_
                                      for x_ in ('2 * %s', '%s * 2', '%s + %s')]
                    for d_ in dims)
                ctx.ob('VL-BLOCK', ok, None, 'block matrix is 2n x 2n', f=f, node=st,
                       why='block matrix allocated with shape %s' % shp)
                big = t.id
                continue
            if isinstance(t, ast.Subscript) and isinstance(t.value, ast.Name) and \
                    t.value.id == big:
                b = blk(t.slice, st)
                ctx.ob('VL-BLOCK', b is not None, None, 'block store uses [:n]/[n:] slices',
                       f=f, node=st, why='store `%s` is not a block of the 2n x 2n matrix'
                                         % norm_text(t))
                if b is not None:
                    blocks[b] = (ev(v), st)
                continue
            if isinstance(t, ast.Name) and isinstance(v, ast.Name) and big is not None and \
                    E is None and v.id in {big} | big_alias:
                big_alias.add(t.id)          # another name for the assembled block matrix
                continue
            if isinstance(t, ast.Name) and isinstance(v, ast.Call) and \
                    res(v.func) == 'scipy.linalg.expm':
                arg = v.args[0]
                ok = isinstance(arg, ast.BinOp) and isinstance(arg.op, ast.Mult) and \
                    any({norm_text(arg.left), norm_text(arg.right)} == {b_, dt}
                        for b_ in {big} | big_alias)
                ctx.ob('VL-BLOCK', ok, None, 'expm of (block matrix * dt)', f=f, node=st,
                       key='expm-arg', why='matrix exponential is taken of `%s`, expected '
                                           '`%s * %s`' % (norm_text(arg), big, dt))
                E = t.id
                continue
        if isinstance(st, ast.Return):
            ret = st
            continue
        if E is not None and isinstance(st, ast.Assign) and len(st.targets) == 1 and \
                isinstance(st.targets[0], ast.Name) and st.targets[0].id not in (E, big, nvar):
            # a local name for a block of the exponential or a product of blocks
            env[st.targets[0].id] = ev(st.value)
            continue
        if E is not None and isinstance(st, ast.Assign) and len(st.targets) == 1 and \
                isinstance(st.targets[0], ast.Subscript) and \
                isinstance(st.targets[0].value, ast.Name) and \
                st.targets[0].value.id in set(env) - {F, Q} | {E} and \
                any(isinstance(n, ast.Compare) for n in ast.walk(st.targets[0].slice)):
            ctx.ob('VL-BLOCK', False, None, 'the blocks of the exponential are returned as '
                   'computed', f=f, node=st, key='masked-store',
                   why='`%s` overwrites entries of the result selected by a comparison of their '
                       'values: the exact transition / noise integral is linear in Q, a '
                       'magnitude test is not (weak noise is changed, sub-steps no longer '
                       'compose)' % norm_text(st)[:70])
            continue
        if isinstance(st, ast.Assign) and isinstance(st.targets[0], ast.Name) and any(
                isinstance(n, ast.Call) and res(n.func) == 'scipy.linalg.expm'
                for n in ast.walk(st)):
            ctx.ob('VL-BLOCK', False, None, 'expm of (block matrix * dt)', f=f, node=st,
                   key='expm-arg', why='discretisation is `%s`, expected expm(%s * %s)'
                                       % (norm_text(st.value), big, dt))
            E = st.targets[0].id
            continue
        if isinstance(st, ast.If) and not st.orelse and \
                any(isinstance(n, ast.Return) for n in ast.walk(st)):
            verdict = _vl_exact_shortcut(f, st, F, Q, dt, res)
            if verdict is not None:
                ok_, what_, why_ = verdict
                ctx.ob('VL-BLOCK', ok_, None, what_, f=f, node=st, key='shortcut-exact', why=why_)
                continue
        if isinstance(st, (ast.If, ast.While, ast.For, ast.Try)) and \
                any(isinstance(n, ast.Return) for n in ast.walk(st)):
            for r_ in [n for n in ast.walk(st) if isinstance(n, ast.Return)]:
                ctx.ob('VL-BLOCK', False, None, 'every return is (E00, E01 @ E00^T) of the block '
                       'exponential', f=f, node=r_, key='shortcut-return',
                       why='compute_process_matrices returns `%s` on a path that bypasses the '
                           'block matrix exponential: not the exact transition / noise integral '
                           '(sub-steps do not compose)'
                           % (norm_text(r_.value)[:80] if r_.value is not None else 'None'))
            continue
        if isinstance(st, (ast.Assert, ast.Pass)):
            continue
        raise AnalysisError('Van Loan: statement `%s` not understood' % norm_text(st)[:60])
    ctx.need(big is not None and E is not None and ret is not None,
             'Van Loan assembly not recognised')
    want = {(0, 0): A.atom(F), (0, 1): A.atom(Q), (1, 1): A.neg(A.T(A.atom(F)))}
    names = {(0, 0): 'top-left = F', (0, 1): 'top-right = Q', (1, 1): 'bottom-right = -F^T'}
    for b, w in want.items():
        got = blocks.get(b)
        ctx.ob('VL-BLOCK', got is not None and A.eq(got[0], w), None, names[b], f=f,
               node=(got[1] if got else f.node), key='block-%d%d' % b,
               why='block %s of the Van Loan matrix is %s, expected %s'
                   % (b, got[0].key() if got else 'missing', w.key()))
    ctx.ob('VL-BLOCK', (1, 0) not in blocks, None, 'bottom-left block stays zero', f=f,
           node=(blocks[(1, 0)][1] if (1, 0) in blocks else f.node), key='block-10',
           why='bottom-left block of the Van Loan matrix is written')
    v = ret.value
    ok = isinstance(v, ast.Tuple) and len(v.elts) == 2
    if ok:
        r0, r1 = ev(v.elts[0]), ev(v.elts[1])
        qd = A.mul(A.atom('E01'), A.T(A.atom('E00')))
        # the noise integral is symmetric, so its symmetrised value is the same matrix
        # (any affine combination of the product and its transpose)
        (m1, _), = qd.t.items()
        (m2, _), = A.T(qd).t.items()
        ok = A.eq(r0, A.atom('E00')) and isinstance(r1, NC) and set(r1.t) <= {m1, m2} and \
            sum(r1.t.values()) == 1
    ctx.ob('VL-BLOCK', ok, None, 'returns (E[:n,:n], E[:n,n:] @ E[:n,:n]^T)', f=f, node=ret,
           key='returns', why='returned pair is not (Phi, UR @ Phi^T)')


def _is_square(e):
    """x ** 2, x * x, np.square(x)"""
    if isinstance(e, ast.BinOp) and isinstance(e.op, ast.Pow) and norm_text(e.right) == '2':
        return True
    if isinstance(e, ast.BinOp) and isinstance(e.op, ast.Mult) and \
            norm_text(e.left) == norm_text(e.right):
        return True
    if isinstance(e, ast.Call) and norm_text(e.func) in ('np.square', 'numpy.square'):
        return True
    return False


def q_psd(ctx):
    ctx.rule('Q-PSD', 'call site: Q = G diag(q**2) G^T (PSD by construction), step = the '
             'propagation interval of the averaged states')
    f = ctx.repo.function('filters._compute_error_propagation_matrices')
    calls = [n for n in ast.walk(f.node) if isinstance(n, ast.Call) and
             f.module.resolve(n.func, f.local_names()) ==
             'pyins.kalman.compute_process_matrices']
    ctx.need(len(calls) == 1 and len(calls[0].args) == 3, 'process-matrix call not found')
    call = calls[0]
    clo = Closure(f)
    st = [s for s in f.node.body if any(n is call for n in ast.walk(s))][0]
    q = clo.expr(call.args[1], st, depth=1)

    def chain(n):
        if isinstance(n, ast.BinOp) and isinstance(n.op, ast.MatMult):
            return chain(n.left) + chain(n.right)
        if isinstance(n, ast.Call) and isinstance(n.func, ast.Attribute) and \
                n.func.attr == 'dot' and len(n.args) == 1:
            return chain(n.func.value) + chain(n.args[0])
        return [n]
    fs = chain(call.args[1])
    ok = False
    why = 'process noise argument is `%s`' % norm_text(call.args[1])
    if len(fs) == 3:
        a, d, b = fs
        bt = norm_text(b)
        okT = bt in (norm_text(a) + '.T', norm_text(a) + '.transpose()',
                     'np.transpose(%s)' % norm_text(a))
        okD = isinstance(d, ast.Call) and f.module.resolve(d.func, f.local_names()) == \
            'numpy.diag' and _is_square(d.args[0])
        ok = okT and okD
        if not okD:
            why = ('noise intensities enter as `%s`: root-PSD values must be squared'
                   % norm_text(d))
        elif not okT:
            why = 'right factor `%s` is not the transpose of the left factor' % bt
    if not ok:
        # another spelling: decided by value (ASSEMBLY evaluates the helper: the argument equals
        # G diag(q^2) G^T entry by entry, a congruence of a non-negative diagonal)
        from . import layout as _layout
        try:
            _layout.assembly(ctx)
            ok = ctx.cache.get('assembly', {}).get('Q') is True
        except Exception:
            pass
    ctx.ob('Q-PSD', ok, None, 'Q = G @ diag(q**2) @ G^T', f=f, node=call, key='q-form', why=why)
    ctx.ob('Q-PSD', norm_text(call.args[2]) == f.params[3] or
           ctx.cache.get('assembly', {}).get('dt') is True, None,
           'step passed to the discretisation is the time_delta parameter', f=f, node=call,
           key='dt-param', why='step argument is `%s`' % norm_text(call.args[2]))
    # every return of the wrapper hands back the result of that one exact discretisation: no
    # shortcut path with an approximate transition matrix (sub-steps would not compose)
    bound = set()
    if isinstance(st, ast.Assign):
        for t in st.targets:
            bound |= {x.id for x in ast.walk(t) if isinstance(x, ast.Name)}
    first_arg = call.args[0]
    rets = [n for n in ast.walk(f.node) if isinstance(n, ast.Return)]
    for r in rets:
        v = r.value
        okr = v is call or (isinstance(v, ast.Name) and v.id in bound) or (
            isinstance(v, ast.Tuple) and v.elts and
            all(isinstance(e, ast.Name) and e.id in bound for e in v.elts))
        ctx.ob('Q-PSD', okr, None, 'return value is the result of compute_process_matrices', f=f,
               node=r, key='return-via-%d' % rets.index(r),
               why='_compute_error_propagation_matrices returns `%s`, which is not the result of '
                   'kalman.compute_process_matrices: a path that bypasses the exact '
                   'discretisation (e.g. I + F dt) makes covariance propagation depend on how '
                   'time is partitioned' % (norm_text(v)[:80] if v is not None else 'None'))
    # the dynamics matrix handed over is complete: no store into it after the call
    if isinstance(first_arg, ast.Name):
        late = [s2 for s2 in ast.walk(f.node) if isinstance(s2, ast.Assign) and
                isinstance(s2.targets[0], ast.Subscript) and
                norm_text(s2.targets[0].value) == first_arg.id and s2.lineno > st.lineno]
        ctx.ob('Q-PSD', not late, None, 'the dynamics matrix is fully assembled before it is '
               'discretised', f=f, node=(late[0] if late else st), key='assembled',
               why='`%s` is modified after it was handed to compute_process_matrices'
                   % first_arg.id)
    # callers: time_delta = time difference of the two averaged states
    fb = ctx.repo.function('filters.run_feedback_filter')
    for n in ast.walk(fb.node):
        if isinstance(n, ast.Call) and norm_text(n.func) == f.name and len(n.args) >= 4:
            loop = [s for s in fb.node.body if isinstance(s, ast.While)][0]
            stt = [s for s in loop.body if any(x is n for x in ast.walk(s))][0]
            integ = None
            for a_ in ast.walk(fb.node):
                if isinstance(a_, ast.Assign) and isinstance(a_.targets[0], ast.Name) and \
                        isinstance(a_.value, ast.Call) and fb.module.resolve(
                            a_.value.func, fb.local_names()) == 'pyins.strapdown.Integrator':
                    integ = a_.targets[0].id
            tvar = None
            for a_ in loop.body:
                if isinstance(a_, ast.Assign) and isinstance(a_.targets[0], ast.Name) and \
                        norm_text(a_.value) == '%s.get_time()' % integ:
                    tvar = a_.targets[0].id
                    break
            c2 = Closure(fb, stop={tvar, integ})
            t = c2.text(n.args[3], stt)
            ok = t == '%s.get_time() - %s' % (integ, tvar)
            ctx.ob('Q-PSD', ok, None, 'feedback: step = integrator time after the batch - time '
                   'before it', f=fb, node=n, key='fb-dt', why='feedback step is `%s`' % t)
            # `time` is read before integrate, get_time() after
            body = loop.body
            i_int = [i for i, s in enumerate(body) if '%s.integrate(' % integ in norm_text(s)]
            i_dt = [i for i, s in enumerate(body) if isinstance(s, ast.Assign) and
                    norm_text(s.targets[0]) == norm_text(n.args[3])]
            i_tm = [i for i, s in enumerate(body) if isinstance(s, ast.Assign) and
                    norm_text(s.targets[0]) == tvar]
            ok = bool(i_int and i_dt and i_tm) and i_tm[0] < i_int[0] < i_dt[0]
            ctx.ob('Q-PSD', ok, None, 'feedback: start time read before, end time after the '
                   'integration of the batch', f=fb, node=n, key='fb-order',
                   why='the propagation interval is not measured around the integrated batch')


# ------------------------------------------------------------ USE-AFTER-OVERWRITE
def use_after_overwrite(ctx):
    ctx.rule('USE-AFTER-OVERWRITE', 'an array handed to a LAPACK wrapper with overwrite_*=True '
             '(or as out=) holds unspecified contents afterwards (overwritten or not depending '
             'on memory layout): it is never read again')
    n = 0
    for f in ctx.repo.all_functions():
        for st in ast.walk(f.node):
            if not isinstance(st, ast.stmt):
                continue
            for call in [c for c in ast.walk(st) if isinstance(c, ast.Call)]:
                q = f.module.resolve(call.func, f.local_names()) or ''
                victims = []
                for kw in call.keywords:
                    if kw.arg in ('overwrite_a', 'overwrite_b', 'overwrite_x') and \
                            isinstance(kw.value, ast.Constant) and kw.value.value is True:
                        pos = {'overwrite_a': 0, 'overwrite_b': 1, 'overwrite_x': 0}[kw.arg]
                        if q.endswith('cho_solve') or q.endswith('solve_triangular') or \
                                q.endswith('.solve'):
                            pos = 1 if kw.arg == 'overwrite_b' else 0
                        if len(call.args) > pos and isinstance(call.args[pos], ast.Name):
                            victims.append(call.args[pos].id)
                for v in victims:
                    n += 1
                    later = _reads_after(f.node, st, v)
                    ctx.ob('USE-AFTER-OVERWRITE', not later, None,
                           "%s: `%s` is dead after `%s(..., overwrite=True)`"
                           % (f.qualname, v, q.split('.')[-1]), f=f,
                           node=(later[0] if later else call), key='uao-%s-%s' % (f.qualname, v),
                           why="`%s` is read again after it was passed to %s with an overwrite "
                               "flag: its contents then depend on the memory layout (Fortran- "
                               "contiguous inputs, e.g. a single row or column, are overwritten "
                               "in place; others are copied), so the result is wrong for some "
                               "shapes only" % (v, q.split('.')[-1]))
    ctx.floor('USE-AFTER-OVERWRITE', n, 1, 'overwrite sites')


def _reads_after(fnode, stmt, name):
    """Loads of `name` in statements after `stmt` (same block chain), before a rebinding."""
    from ..flow import path_to, assigned_names
    p = path_to(fnode.body, stmt)
    out = []
    if not p:
        return out
    for block, idx in reversed(p):
        for st in block[idx + 1:]:
            for n in ast.walk(st):
                if isinstance(n, ast.Name) and n.id == name and isinstance(n.ctx, ast.Load):
                    out.append(n)
            if name in assigned_names(st) and not out:
                return out
        enclosing_loop = False
    # also later uses inside the same statement are evaluated before the call -> ignored
    return out


# ----------------------------------------------------------------------- DIV-ZERO
_NONNEG_CALLS = ('np.linalg.norm', 'numpy.linalg.norm', 'norm', 'len', 'np.abs', 'abs', 'np.fabs',
                 'np.trace_abs')


def _sign(e, env):
    """'pos' (> 0 for every input), 'nonneg' (>= 0, and 0 is attained for a zero input), 'any'"""
    if isinstance(e, ast.Constant) and isinstance(e.value, (int, float)) and \
            not isinstance(e.value, bool):
        return 'pos' if e.value > 0 else ('nonneg' if e.value == 0 else 'any')
    if isinstance(e, ast.Name):
        return env.get(e.id, 'any')
    if isinstance(e, ast.Call):
        fn = norm_text(e.func)
        if fn in _NONNEG_CALLS:
            return 'nonneg'
        if isinstance(e.func, ast.Attribute) and e.func.attr in ('max', 'sum', 'mean', 'min') and \
                _sign(e.func.value, env) in ('nonneg', 'pos') and not e.args:
            return 'nonneg'
        if fn in ('np.max', 'np.sum', 'np.mean', 'np.amax') and e.args and \
                _sign(e.args[0], env) in ('nonneg', 'pos'):
            return 'nonneg'
        if fn in ('np.sqrt', 'math.sqrt', 'float') and e.args:
            return _sign(e.args[0], env)
        if fn in ('max', 'np.maximum') and len(e.args) >= 2:
            ss = [_sign(a, env) for a in e.args]
            return 'pos' if 'pos' in ss else ('nonneg' if 'nonneg' in ss else 'any')
        if fn in ('min', 'np.minimum') and len(e.args) >= 2:
            ss = [_sign(a, env) for a in e.args]
            return 'pos' if all(x == 'pos' for x in ss) else (
                'nonneg' if all(x in ('pos', 'nonneg') for x in ss) else 'any')
        return 'any'
    if isinstance(e, ast.BinOp):
        a, b = _sign(e.left, env), _sign(e.right, env)
        if isinstance(e.op, ast.Mult):
            return 'pos' if a == b == 'pos' else (
                'nonneg' if a in ('pos', 'nonneg') and b in ('pos', 'nonneg') else 'any')
        if isinstance(e.op, ast.Add):
            if 'pos' in (a, b) and a in ('pos', 'nonneg') and b in ('pos', 'nonneg'):
                return 'pos'
            return 'nonneg' if a == b == 'nonneg' else 'any'
        if isinstance(e.op, ast.Div):
            return a if b == 'pos' and a in ('pos', 'nonneg') else 'any'
        if isinstance(e.op, ast.Pow) and isinstance(e.right, ast.Constant) and \
                isinstance(e.right.value, int) and e.right.value % 2 == 0:
            return 'pos' if a == 'pos' else 'nonneg'
        return 'any'
    if isinstance(e, ast.IfExp):
        e1, e2 = dict(env), dict(env)
        _refine(e.test, e1, e2)
        a, b = _sign(e.body, e1), _sign(e.orelse, e2)
        return 'pos' if a == b == 'pos' else (
            'nonneg' if a in ('pos', 'nonneg') and b in ('pos', 'nonneg') else 'any')
    return 'any'


_FOLD = [None]      # (repo, module) of the function being scanned: named thresholds fold to numbers


def _refine(test, env_true, env_false):
    """`X > 0`, `X != 0`, `X` (truthiness) make a non-negative X positive on the true side;
    `X == 0`, `X <= 0`, `not X` on the false side"""
    from ..flow import strip_not
    t, pol = strip_not(test)
    name, positive_when = None, None
    if isinstance(t, ast.Name):
        name, positive_when = t.id, True
    elif isinstance(t, ast.Compare) and len(t.ops) == 1 and isinstance(t.left, ast.Name) and \
            _threshold(t.comparators[0]) is not None:
        name = t.left.id
        c = _threshold(t.comparators[0])
        if isinstance(t.ops[0], ast.Gt) or (isinstance(t.ops[0], ast.NotEq) and c == 0) or \
                (isinstance(t.ops[0], ast.GtE) and c > 0):
            positive_when = True            # X > c >= 0  /  X != 0  /  X >= c > 0
        elif (isinstance(t.ops[0], (ast.Eq, ast.LtE)) and c == 0) or \
                (isinstance(t.ops[0], ast.LtE) and c >= 0) or \
                (isinstance(t.ops[0], ast.Lt) and c > 0):
            positive_when = False           # the complement of the above
    if name is None or positive_when is None:
        return
    if not pol:
        positive_when = not positive_when
    tgt = env_true if positive_when else env_false
    if tgt.get(name) == 'nonneg':
        tgt[name] = 'pos'


def _threshold(e):
    """a non-negative numeric threshold: a literal, or a module-level constant that folds"""
    if isinstance(e, ast.Constant) and isinstance(e.value, (int, float)) and \
            not isinstance(e.value, bool):
        return e.value if e.value >= 0 else None
    if isinstance(e, (ast.Name, ast.Attribute)) and _FOLD[0] is not None:
        repo, mod = _FOLD[0]
        try:
            v = repo.fold(e, mod)
        except (ValueError, TypeError):
            return None
        if isinstance(v, (int, float)) and not isinstance(v, bool) and v >= 0:
            return v
    return None


def div_zero(ctx, modules=('kalman',), floor=1):
    """C07 / C08 quantify over zero matrices and the zero step.  A division by a scalar the code
    itself derives as a norm / absolute value / sum of such (>= 0, and exactly 0 for a zero input)
    without a test that excludes 0 on that path is 0/0 or x/0 for that input - NaN or inf with a
    numpy warning at most."""
    ctx.rule('DIV-ZERO', 'no division by a scalar that is >= 0 by construction (a norm, an absolute '
             'value, their sums / products / quotients) and can be 0 for an admissible input, '
             'unless a test on the path excludes 0')
    found = 0
    n_div = 0

    def scan(f):
        nonlocal found, n_div

        def block(stmts, env):
            nonlocal found, n_div
            for st in stmts:
                for n in ast.walk(st) if not isinstance(st, (ast.If, ast.For, ast.While)) else []:
                    div = None
                    if isinstance(n, ast.BinOp) and isinstance(n.op, (ast.Div, ast.FloorDiv)):
                        div = n.right
                    elif isinstance(n, ast.AugAssign) and isinstance(n.op, (ast.Div, ast.FloorDiv)):
                        div = n.value
                    if div is None:
                        continue
                    n_div += 1
                    # an enclosing conditional expression refines the sign for its arms
                    env_here = dict(env)
                    for ie in ast.walk(st):
                        if isinstance(ie, ast.IfExp):
                            if any(x is n for x in ast.walk(ie.body)):
                                _refine(ie.test, env_here, {})
                            elif any(x is n for x in ast.walk(ie.orelse)):
                                _refine(ie.test, {}, env_here)
                    if _sign(div, env_here) == 'nonneg':
                        found += 1
                        deps = sorted({x.id for x in ast.walk(defs.get(div.id, div)
                                                              if isinstance(div, ast.Name)
                                                              else div)
                                       if isinstance(x, ast.Name) and x.id in f.params})
                        ctx.ob('DIV-ZERO', False, None, 'divisor excludes 0', f=f, node=n,
                               key='div-' + norm_text(div)[:40],
                               why='`%s` divides by `%s`, which is >= 0 by construction and exactly '
                                   '0 for a zero %s: the result is NaN / inf for that admissible '
                                   'input (no test on this path excludes it)'
                                   % (norm_text(n)[:70], norm_text(div)[:40],
                                      ' / '.join(deps) or 'input'))
                if isinstance(st, ast.Assign) and len(st.targets) == 1 and \
                        isinstance(st.targets[0], ast.Name):
                    env[st.targets[0].id] = _sign(st.value, env)
                    defs[st.targets[0].id] = st.value
                elif isinstance(st, ast.If):
                    e1, e2 = dict(env), dict(env)
                    _refine(st.test, e1, e2)
                    block(st.body, e1)
                    block(st.orelse, e2)
                    # after the branch: keep only facts both arms agree on
                    for k in set(e1) | set(e2):
                        a, b = e1.get(k, 'any'), e2.get(k, 'any')
                        env[k] = a if a == b else (
                            'nonneg' if a in ('pos', 'nonneg') and b in ('pos', 'nonneg') else 'any')
                elif isinstance(st, (ast.For, ast.While)):
                    block(st.body, dict(env))
        defs = {}
        block(f.node.body, {})
    fs = [f for f in ctx.repo.all_functions() if f.module.name.split('.')[-1] in modules]
    ctx.floor('DIV-ZERO', len(fs), floor, 'functions')
    for f in fs:
        ctx.touch(f)
        _FOLD[0] = (ctx.repo, f.module)
        try:
            scan(f)
        finally:
            _FOLD[0] = None
    # positive fixture: the engine must see the unguarded quotient of two norms
    src = ("def g(F, Q):\n    qn = np.linalg.norm(Q, 1)\n"
           "    s = np.linalg.norm(F, 1) / qn if qn > 0 else 1.0\n    return (F * s) / s\n")
    t = ast.parse(src).body[0]
    env = {}
    env['qn'] = _sign(t.body[0].value, env)
    env['s'] = _sign(t.body[1].value, env)
    if not (env['qn'] == 'nonneg' and env['s'] == 'nonneg'):
        raise AnalysisError('DIV-ZERO self-check failed: sign domain lost the fixture (%s)' % env)
    ctx.ob('DIV-ZERO', True, None, '%d divisions in %d functions of %s examined; fixture seen'
           % (n_div, len(fs), '/'.join(modules)), key='scanned')
