"""C17 - rotation primitives.

ROT-SERIES  small-angle arm of mat_from_rotvec is the Maclaurin truncation of the
            closed-form arm and the first omitted term at the threshold is below 2^-53
ROT-EXP     closed-form coefficients are cos n, sin n / n, (1 - cos n)/n^2 (as series)
            and the matrix is cos*I + k1*skew(rv) + k2*rv rv^T with the sign pattern of
            util.skew_matrix: the routine is the exponential map
EULER-CONV  every Euler conversion of roll/pitch/heading data uses the defining
            convention (extrinsic 'xyz', degrees)
EULER-INV   mat_to_rph inverts mat_from_rph on the whole domain (roll, heading in (-180, 180],
            |pitch| < 90): either the scipy pair with one sequence/degree flag, or a closed form
            whose inverse trigonometric calls cover the full range of the angle they return
"""
import ast
from fractions import Fraction

from ..expr import SymEval, SArray, Unsupported, Opaque
from ..model import AnalysisError, norm_text
from ..nf import Rat, Alg
from ..series import SeriesAlg, Ser


def _find_branch(ctx, f):
    from ..flow import strip_not
    for st in f.node.body:
        if not isinstance(st, ast.If):
            continue
        test, pol = strip_not(st.test)
        if isinstance(test, ast.Compare) and len(test.ops) == 1 and \
                isinstance(test.left, ast.Name):
            try:
                thr = ctx.repo.fold(test.comparators[0], f.module)
            except ValueError:
                continue
            if not isinstance(thr, (int, float)):
                continue
            op = test.ops[0]
            body, orelse = (st.body, st.orelse) if pol else (st.orelse, st.body)
            st.test_cmp = test
            if isinstance(op, (ast.Gt, ast.GtE)):
                return st, test.left.id, float(thr), body, orelse
            if isinstance(op, (ast.Lt, ast.LtE)):
                return st, test.left.id, float(thr), orelse, body
    raise AnalysisError('small-angle branch of mat_from_rotvec not found')


def _var_power(f, var, before):
    """Is `var` the squared norm (2) or the norm (1)?  From its defining assignment."""
    for st in f.node.body:
        if st is before:
            break
        if isinstance(st, ast.Assign) and len(st.targets) == 1 and \
                isinstance(st.targets[0], ast.Name) and st.targets[0].id == var:
            txt = norm_text(st.value)
            if '** 0.5' in txt or 'sqrt' in txt or 'linalg.norm' in txt:
                return 1
            return 2
    raise AnalysisError('definition of %s not found' % var)


def _arm_series(ctx, f, arm, var, power):
    sa = SeriesAlg(var)
    ev = SymEval(ctx.repo, sa)
    ev.cur = f
    ev.depth = 1
    env = {var: Ser({power: Fraction(1)})}
    try:
        ev.exec_block(arm, env)
    except (Unsupported, ValueError, ZeroDivisionError) as e:
        raise AnalysisError('arm of mat_from_rotvec has no power series: %s' % e)
    return {k: v for k, v in env.items() if isinstance(v, Ser)}, sa


def rot_series(ctx):
    ctx.rule('ROT-SERIES', 'series arm = Maclaurin truncation of the closed-form arm; first '
             'omitted term at the branch threshold < 2^-53 relative')
    f = ctx.repo.function('_numba_integrate.mat_from_rotvec')
    st, var, thr, large, small = _find_branch(ctx, f)
    power = _var_power(f, var, st)
    cl, sa = _arm_series(ctx, f, large, var, power)
    ta, _ = _arm_series(ctx, f, small, var, power)
    thr_n = thr if power == 1 else thr ** 0.5
    common = [k for k in ta if k in cl and k != var]
    # only names that are used after the branch matter
    used_after = set()
    seen = False
    for s2 in f.node.body:
        if s2 is st:
            seen = True
            continue
        if seen:
            for n in ast.walk(s2):
                if isinstance(n, ast.Name) and isinstance(n.ctx, ast.Load):
                    used_after.add(n.id)
    common = [k for k in common if k in used_after]
    ctx.floor('ROT-SERIES', len(common), 3, 'coefficients assigned in both arms')
    ctx.cache['rot-closed'] = cl
    ctx.cache['rot-alg'] = sa
    for name in sorted(common):
        c, t = cl[name], ta[name]
        D = max(t.c) if t.c else 0
        agree = all(c.c.get(k, 0) == t.c.get(k, 0) for k in range(0, D + 1))
        rest = [k for k in sorted(c.c) if k > D]
        if rest:
            k = rest[0]
            lead = abs(c.c.get(min(c.c), 1))
            bound = abs(float(c.c[k])) * thr_n ** k / float(lead)
        else:
            bound = 0.0
        node = [s3 for s3 in small if isinstance(s3, ast.Assign) and
                any(isinstance(x, ast.Name) and x.id == name for x in s3.targets)]
        ctx.ob('ROT-SERIES', agree, None,
               "series arm of '%s' matches the closed form through n^%d" % (name, D), f=f,
               node=node[-1] if node else st, key='series-' + name,
               why="small-angle polynomial for '%s' is not the Maclaurin expansion of the "
                   "closed-form expression" % name)
        ctx.ob('ROT-SERIES', bound < 2.0 ** -53, None,
               "first omitted term of '%s' at the threshold (|rv| = %.3g): %.3g < 2^-53"
               % (name, thr_n, bound), f=f, node=getattr(st, 'test_cmp', st.test), key='remainder-' + name,
               why="branch threshold too large for the truncation: first omitted term of "
                   "'%s' is %.3g relative (> 2^-53), the routine is discontinuous across "
                   "the branch" % (name, bound))


def rot_exp(ctx):
    ctx.rule('ROT-EXP', 'mat = cos*I + (sin n/n)*skew(rv) + ((1-cos n)/n^2)*rv rv^T with the '
             'sign pattern of util.skew_matrix')
    f = ctx.repo.function('_numba_integrate.mat_from_rotvec')
    if 'rot-closed' not in ctx.cache:
        rot_series(ctx)
    cl, sa = ctx.cache['rot-closed'], ctx.cache['rot-alg']
    ev = SymEval(ctx.repo, names_as_atoms=True)
    A = ev.A
    rv = SArray((3,), {(i,): A.sym('rv%d' % i) for i in range(3)})
    mat = SArray((3, 3), {})
    try:
        ev.call_function(f, [rv, mat])
    except Unsupported as e:
        raise AnalysisError('mat_from_rotvec not analysable: %s' % e)
    ctx.need(len(mat.entries) == 9, 'mat_from_rotvec writes %d of 9 entries' % len(mat.entries))
    sk = ctx.repo.function('util.skew_matrix')
    S = SymEval(ctx.repo, A).call_function(sk, [rv])
    ctx.touch(sk)
    # roles from structure
    try:
        d00 = A.degree_split(mat.get((0, 0)), 'rv0')
        K2, Cc = d00.get(2, A.const(0)), d00.get(0, A.const(0))
        k1s = A.coeff(mat.get((1, 0)), 'rv2')
        K1 = A.mul(k1s, A.coeff(S.get((1, 0)), 'rv2'))   # S entry is +-rv2: sign^2 = 1
    except ValueError as e:
        raise AnalysisError('matrix entries not polynomial in rv: %s' % e)

    def phi_name(v):
        at = A.atoms_of(v)
        if len(v.n.t) == 1 and len(at) == 1:
            a = next(iter(at))
            (m, c), = v.n.t.items()
            if c == 1 and a.startswith('phi(') and '@' in a:
                return a[4:a.index('@')]
        return None
    roles = {'cos': Cc, 'k1': K1, 'k2': K2}
    want = {'cos': sa.cos(Ser({1: Fraction(1)})),
            'k1': sa.div(sa.sin(Ser({1: Fraction(1)})), Ser({1: Fraction(1)})),
            'k2': sa.div(sa.sub(sa.const(1), sa.cos(Ser({1: Fraction(1)}))),
                         Ser({2: Fraction(1)}))}
    desc = {'cos': 'cos n', 'k1': 'sin n / n', 'k2': '(1 - cos n) / n^2'}
    for r_, v in roles.items():
        nm = phi_name(v)
        ctx.need(nm is not None and nm in cl,
                 'coefficient playing the role %s is not a branch-assigned local' % r_)
        got = cl[nm]
        upto = 14
        ok = all(got.c.get(k, 0) == want[r_].c.get(k, 0) for k in range(upto + 1))
        ctx.ob('ROT-EXP', ok, None,
               "closed-form '%s' (role %s) has the Maclaurin series of %s" % (nm, r_, desc[r_]),
               f=f, key='closed-' + r_,
               why="closed-form coefficient '%s' is not %s: the routine is not the "
                   "exponential map" % (nm, desc[r_]))
    for a in range(3):
        for b in range(3):
            e = A.add(A.mul(K1, S.get((a, b))), A.mul(K2, A.mul(rv.get((a,)), rv.get((b,)))))
            if a == b:
                e = A.add(e, Cc)
            ok = A.eq(mat.get((a, b)), e)
            ctx.ob('ROT-EXP', ok, None,
                   'mat[%d,%d] = cos*delta + k1*skew(rv)[%d,%d] + k2*rv[%d]*rv[%d]'
                   % (a, b, a, b, a, b), f=f, key='entry-%d-%d' % (a, b),
                   why='entry [%d,%d] of the rotation matrix deviates from the Rodrigues '
                       'formula with the sign pattern of util.skew_matrix' % (a, b))


def euler_conv(ctx):
    ctx.rule('EULER-CONV', "every 3-axis Euler conversion uses extrinsic 'xyz' in degrees, "
             'as the defining pair mat_from_rph / mat_to_rph')
    repo = ctx.repo
    sites = []
    for f in repo.all_functions():
        for n in ast.walk(f.node):
            if isinstance(n, ast.Call) and isinstance(n.func, ast.Attribute) and \
                    n.func.attr in ('from_euler', 'as_euler'):
                sites.append((f, n))
    defining = {'mat_from_rph': 'from_euler', 'mat_to_rph': 'as_euler'}
    found_def = set()
    n3 = 0
    for f, n in sites:
        seq = None
        if n.args:
            try:
                seq = repo.fold(n.args[0], f.module, f.cls)
            except ValueError:
                seq = None
        if not isinstance(seq, str):
            ctx.ob('EULER-CONV', None, None, 'axis sequence is not a constant', f=f, node=n)
            continue
        nangles = 1 if n.func.attr == 'as_euler' else 2
        deg = None
        if len(n.args) > nangles:
            try:
                deg = repo.fold(n.args[nangles], f.module, f.cls)
            except ValueError:
                deg = None
        for kw in n.keywords:
            if kw.arg == 'degrees':
                try:
                    deg = repo.fold(kw.value, f.module, f.cls)
                except ValueError:
                    deg = None
        if f.name in defining and n.func.attr == defining[f.name]:
            found_def.add(f.name)
        if len(seq) != 3:
            # geodetic 'ZY' and single-axis turntable sites: degrees flag only
            ctx.ob('EULER-CONV', deg is True, None, "angles given in degrees ('%s')" % seq,
                   f=f, node=n, why='Euler conversion of degree-valued data without degrees=True')
            continue
        n3 += 1
        ok = seq == 'xyz' and deg is True
        ctx.ob('EULER-CONV', ok, None, "sequence 'xyz' (extrinsic roll-pitch-heading), degrees",
               f=f, node=n,
               why="roll/pitch/heading conversion uses sequence %r, degrees=%r; the library's "
                   "convention is extrinsic 'xyz' in degrees" % (seq, deg))
    missing = set(defining) - found_def
    if missing:
        if 'euler-closed' not in ctx.cache:
            euler_inv(ctx)
        ctx.need(missing <= ctx.cache.get('euler-closed', set()),
                 'defining pair mat_from_rph/mat_to_rph not found')
    ctx.floor('EULER-CONV', n3, 9 - len(missing), "3-axis Euler conversion sites")


def euler_inv(ctx):
    ctx.rule('EULER-INV', 'mat_to_rph(mat_from_rph(r, p, h)) == (r, p, h) for roll, heading in '
             '(-180, 180] and |pitch| < 90 (symbolic; scipy pair by its contract, closed forms '
             'by the range of the inverse trigonometric function used)')
    from ..rotmodel import RotHooks, EulerOf, from_euler
    repo = ctx.repo
    f_from = repo.function('transform.mat_from_rph')
    f_to = repo.function('transform.mat_to_rph')
    ctx.touch(f_from)
    ctx.touch(f_to)
    A = Alg()
    ev = SymEval(repo, A, hooks=RotHooks())
    names = ['roll', 'pitch', 'heading']
    ang = [A.sym(n) for n in names]
    rad = [A.mul(A.sym(A.D2R), a) for a in ang]
    cp = A.cos(rad[1])
    A.nonneg = set(A.atoms_of(cp))          # |pitch| < 90
    vec = SArray((3,), {(i,): a for i, a in enumerate(ang)})
    try:
        M = ev.call_function(f_from, [vec])
    except Unsupported as e:
        raise AnalysisError('mat_from_rph not analysable: %s' % e)
    ctx.need(isinstance(M, SArray) and M.shape == (3, 3), 'mat_from_rph does not return a 3x3 matrix')
    try:
        out = ev.call_function(f_to, [M])
    except Unsupported as e:
        raise AnalysisError('mat_to_rph not analysable: %s' % e)
    closed = ctx.cache.setdefault('euler-closed', set())
    if isinstance(out, EulerOf):
        # scipy: as_euler(seq, degrees) inverts from_euler(seq, ., degrees) - the matrix must be
        # the one from_euler builds for that sequence from (roll, pitch, heading)
        try:
            Mm = from_euler(ev, out.seq, vec, out.degrees).mat
            same = all(A.eq(Mm.get((i, j)), out.mat.get((i, j))) for i in range(3) for j in range(3))
        except Unsupported:
            same = False
        ctx.ob('EULER-INV', same, None,
               "as_euler(%r, degrees=%r) is applied to the matrix that from_euler builds with the "
               "same sequence and unit from (roll, pitch, heading)" % (out.seq, out.degrees),
               f=f_to, key='pair',
               why="mat_to_rph extracts Euler angles with sequence %r, degrees=%r, which is not the "
                   "convention mat_from_rph builds the matrix with" % (out.seq, out.degrees))
        return
    closed.add('mat_to_rph')
    ctx.need(isinstance(out, SArray) and out.shape == (3,), 'mat_to_rph does not return 3 angles')
    r2d = A.sym(A.R2D)
    d2r = A.sym(A.D2R)
    fa = getattr(A, 'func_arg', {})

    def positive(k):
        if A.is_const(k):
            return A.const_of(k) > 0
        if len(k.n.t) != 1:
            return False
        (m, c), = k.n.t.items()
        return c > 0 and all(A._nonneg(a) or pw % 2 == 0 for a, pw in m)

    for i, nm in enumerate(names):
        v = A.mul(out.get((i,)), d2r)                  # radians
        a = rad[i]
        full = nm != 'pitch'
        dom = '(-180, 180]' if full else '(-90, 90)'
        ok, why = None, ''
        if len(v.n.t) == 1:
            (m, c), = v.n.t.items()
            if len(m) == 1 and m[0][1] == 1 and m[0][0] in fa and abs(c) == 1:
                fn, args = fa[m[0][0]]
                sg = A.const(c)
                if fn == 'arctan2' and len(args) == 2:
                    Y, X = A.mul(sg, args[0]), args[1]      # c * atan2(y, x) = atan2(c y, x)
                    col = A.is_zero(A.sub(A.mul(X, A.sin(a)), A.mul(Y, A.cos(a))))
                    k = A.add(A.mul(X, A.cos(a)), A.mul(Y, A.sin(a)))
                    ok = col and positive(k)
                    why = ('arctan2 arguments are not (k sin %s, k cos %s) with k > 0' % (nm, nm))
                elif fn == 'arcsin' and len(args) == 1:
                    ok = (not full) and A.is_zero(A.sub(A.mul(sg, args[0]), A.sin(a)))
                    why = ('arcsin returns values in [-90, 90] only; %s ranges over %s' % (nm, dom)
                           if full else 'arcsin argument is not sin(%s)' % nm)
                elif fn == 'arctan' and len(args) == 1:
                    ok = (not full) and A.is_zero(A.sub(A.mul(A.mul(sg, args[0]), A.cos(a)),
                                                        A.sin(a)))
                    why = ('single-argument arctan returns values in (-90, 90) only and loses the '
                           'quadrant; %s ranges over %s' % (nm, dom)
                           if full else 'arctan argument is not tan(%s)' % nm)
                elif fn == 'arccos':
                    ok = False
                    why = 'arccos returns values in [0, 180] only: the sign of %s is lost' % nm
        if ok is None:
            raise AnalysisError('mat_to_rph: %s is not a recognised closed form (%s)'
                                % (nm, A.key(out.get((i,)))[:120]))
        ctx.ob('EULER-INV', ok, None, '%s is recovered on its whole domain %s' % (nm, dom),
               f=f_to, key='closed-' + nm,
               why='mat_to_rph does not return the %s that mat_from_rph was given: %s' % (nm, why))
