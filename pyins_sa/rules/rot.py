"""C17 - rotation primitives.

ROT-SERIES  small-angle arm of mat_from_rotvec is the Maclaurin truncation of the
            closed-form arm and the first omitted term at the threshold is below 2^-53
ROT-EXP     closed-form coefficients are cos n, sin n / n, (1 - cos n)/n^2 (as series)
            and the matrix is cos*I + k1*skew(rv) + k2*rv rv^T with the sign pattern of
            util.skew_matrix: the routine is the exponential map
EULER-CONV  every Euler conversion of roll/pitch/heading data uses the defining
            convention (extrinsic 'xyz', degrees)
EULER-INV   mat_to_rph inverts mat_from_rph on the whole domain (roll, heading in (-180, 180],
            |pitch| < 90): either the scipy pair with one sequence/degree flag, or a closed form
            whose inverse trigonometric calls cover the full range of the angle they return
"""
import ast
from fractions import Fraction

from ..expr import SymEval, SArray, Unsupported, Opaque
from ..model import AnalysisError, norm_text
from ..nf import Rat, Alg
from ..series import SeriesAlg, Ser


INF = float('inf')


def _threshold_test(ctx, f, st):
    """`var OP constant` (possibly negated / mirrored) -> (var, threshold, op class) or None"""
    from ..flow import strip_not
    test, pol = strip_not(st.test)
    if not (isinstance(test, ast.Compare) and len(test.ops) == 1):
        return None
    l, r, op = test.left, test.comparators[0], type(test.ops[0])
    mirror = {ast.Gt: ast.Lt, ast.GtE: ast.LtE, ast.Lt: ast.Gt, ast.LtE: ast.GtE,
              ast.Eq: ast.Eq, ast.NotEq: ast.NotEq}
    if not isinstance(l, ast.Name):
        l, r = r, l
        op = mirror.get(op)
    if not isinstance(l, ast.Name) or op not in mirror:
        return None
    try:
        thr = ctx.repo.fold(r, f.module)
    except ValueError:
        return None
    if not isinstance(thr, (int, float)) or isinstance(thr, bool):
        return None
    if not pol:
        op = {ast.Gt: ast.LtE, ast.GtE: ast.Lt, ast.Lt: ast.GtE, ast.LtE: ast.Gt,
              ast.Eq: ast.NotEq, ast.NotEq: ast.Eq}[op]
    return l.id, float(thr), op, test


def _split(iv, thr, op):
    """(interval where the test holds, interval where it fails); an interval is
    (lo, lo_closed, hi, hi_closed) in units of the tested variable, None when empty"""
    lo, lc, hi, hc = iv

    def clip(a, ac, b, bc):
        a2, ac2 = (a, ac) if (a, not ac) >= (lo, not lc) else (lo, lc)
        b2, bc2 = (b, bc) if (b, bc) <= (hi, hc) else (hi, hc)
        if a2 > b2 or (a2 == b2 and not (ac2 and bc2)):
            return None
        return (a2, ac2, b2, bc2)
    if op is ast.Gt:
        return clip(thr, False, INF, False), clip(-INF, False, thr, True)
    if op is ast.GtE:
        return clip(thr, True, INF, False), clip(-INF, False, thr, False)
    if op is ast.Lt:
        return clip(-INF, False, thr, False), clip(thr, True, INF, False)
    if op is ast.LtE:
        return clip(-INF, False, thr, True), clip(thr, False, INF, False)
    # == / != : only at the closed lower end of the interval (x == 0 for a non-negative x)
    if thr == lo and lc:
        point, rest = (lo, True, lo, True), ((lo, False, hi, hc) if hi > lo else None)
        return (point, rest) if op is ast.Eq else (rest, point)
    raise AnalysisError('equality test of the norm away from the end of its range')


def _paths(ctx, f):
    """The decision list of mat_from_rotvec: every path through the threshold tests on the
    (squared) norm, as (interval of the tested variable, flattened statements, test nodes)."""
    out, var = [], [None]

    def walk(stmts, iv, acc, tests):
        for i, st in enumerate(stmts):
            if isinstance(st, ast.If):
                t = _threshold_test(ctx, f, st)
                if t is None:
                    raise AnalysisError('mat_from_rotvec branches on something other than a '
                                        'constant threshold of one local: `%s`'
                                        % norm_text(st.test))
                name, thr, op, node = t
                if var[0] not in (None, name):
                    raise AnalysisError('mat_from_rotvec tests two different locals (%s, %s) '
                                        'against thresholds' % (var[0], name))
                var[0] = name
                yes, no = _split(iv, thr, op)
                rest = stmts[i + 1:]
                if yes is not None:
                    walk(st.body + rest, yes, list(acc), tests + [node])
                if no is not None:
                    walk(st.orelse + rest, no, list(acc), tests + [node])
                return
            if isinstance(st, ast.Return):
                if st.value is not None and not (isinstance(st.value, ast.Constant) and
                                                 st.value.value is None):
                    raise AnalysisError('mat_from_rotvec returns a value')
                break
            if isinstance(st, (ast.For, ast.While, ast.Try, ast.With)):
                raise AnalysisError('mat_from_rotvec contains a %s statement'
                                    % type(st).__name__)
            acc.append(st)
        out.append((iv, acc, tests))
    walk(f.node.body, (0.0, True, INF, False), [], [])
    if var[0] is None:
        raise AnalysisError('small-angle branch of mat_from_rotvec not found')
    return var[0], out


def _iv_text(iv, power):
    lo, lc, hi, hc = iv
    r = (lambda x: x if power == 1 else x ** 0.5)
    if lo == hi:
        return '|rv| = %.3g' % r(lo)
    return '|rv| in %s%.3g, %s%s' % ('[' if lc else '(', r(lo),
                                     'inf' if hi == INF else '%.3g' % r(hi),
                                     ']' if hc else ')')


def _analyse_rotvec(ctx):
    """Per path: the three Rodrigues coefficients as series in n = |rv| and the entry checks."""
    if 'rotvec' in ctx.cache:
        return ctx.cache['rotvec']
    f = ctx.repo.function('_numba_integrate.mat_from_rotvec')
    ctx.touch(f)
    ctx.need(len(f.params) == 2, 'mat_from_rotvec(rv, mat) signature changed')
    var, paths = _paths(ctx, f)
    sk = ctx.repo.function('util.skew_matrix')
    ctx.touch(sk)
    res = dict(f=f, var=var, paths=[], power=None, normdef=None)
    for iv, stmts, tests in paths:
        ev = SymEval(ctx.repo, names_as_atoms=True)
        A = ev.A
        rv = SArray((3,), {(i,): A.sym('rv%d' % i) for i in range(3)})
        mat = SArray((3, 3), {})
        ev.cur, ev.depth = f, 1
        env = {f.params[0]: rv, f.params[1]: mat}
        A.div_log = []
        try:
            ev.exec_block(stmts, env)
        except Unsupported as e:
            raise AnalysisError('mat_from_rotvec not analysable on the path %s: %s'
                                % (_iv_text(iv, 1), e))
        div_log, A.div_log = A.div_log, None
        ctx.need(var in ev.defs and ev.versions.get(var) == 1,
                 "the tested local '%s' of mat_from_rotvec is not assigned exactly once" % var)
        # what the tested variable is: sum of squares (power 2) or its root (power 1)
        n2 = A.add(A.add(A.mul(rv.get((0,)), rv.get((0,))), A.mul(rv.get((1,)), rv.get((1,)))),
                   A.mul(rv.get((2,)), rv.get((2,))))
        vdef = ev.expand(A.sym(var))
        if A.eq(vdef, n2):
            power, normdef = 2, True
        elif A.eq(A.mul(vdef, vdef), n2):
            power, normdef = 1, True
        else:
            power, normdef = 2, False
        res['power'], res['normdef'] = power, normdef
        res['vdef_node'] = ev.def_node.get(var)
        missing = [(a, b) for a in range(3) for b in range(3) if (a, b) not in mat.entries]
        P = dict(iv=iv, tests=tests, missing=missing, label=_iv_text(iv, power), entries={},
                 roles=None, series=None, divzero=False, err=None, A=A, divisors=[])
        res['paths'].append(P)
        if missing:
            continue
        P['divisors'] = [ev.expand(d_, stop=(var,)) for d_ in div_log]
        E = {k: ev.expand(v, stop=(var,)) for k, v in mat.entries.items()}
        S = SymEval(ctx.repo, A).call_function(sk, [rv])
        try:
            d00 = A.degree_split(E[(0, 0)], 'rv0')
            K2, Cc = d00.get(2, A.const(0)), d00.get(0, A.const(0))
            anti = A.mul(A.sub(E[(1, 0)], E[(0, 1)]), A.const(Fraction(1, 2)))
            K1 = A.mul(A.coeff(anti, 'rv2'), A.coeff(S.get((1, 0)), 'rv2'))   # S entry is +-rv2
        except ValueError as e:
            raise AnalysisError('matrix entries not polynomial in rv: %s' % e)
        roles = {'cos': Cc, 'k1': K1, 'k2': K2}
        for r_, v in roles.items():
            ctx.need(not (A.atoms_of(v) & {'rv0', 'rv1', 'rv2'}),
                     'coefficient playing the role %s on the path %s still depends on the '
                     'components of rv' % (r_, P['label']))
        P['roles'] = roles
        for a in range(3):
            for b in range(3):
                e = A.add(A.mul(K1, S.get((a, b))),
                          A.mul(K2, A.mul(rv.get((a,)), rv.get((b,)))))
                if a == b:
                    e = A.add(e, Cc)
                P['entries'][(a, b)] = A.eq(E[(a, b)], e)
        sa = SeriesAlg(var)
        sa.laurent = True
        n = Ser({power: Fraction(1)})
        zero_div = []

        def on_div(d, zero_div=zero_div):
            if not d.c.get(0):
                zero_div.append(d)
        try:
            P['series'] = {r_: A.transfer(v, sa, {var: n}, on_div) for r_, v in roles.items()}
        except (ValueError, ZeroDivisionError) as e:
            raise AnalysisError('coefficient of mat_from_rotvec on the path %s has no power '
                                'series in |rv|: %s' % (P['label'], e))
        P['divzero'] = bool(zero_div)
        for r_, sr in P['series'].items():
            if any(k < 0 for k in sr.c):
                P['err'] = "coefficient %s has a pole at rv = 0" % r_
    ctx.cache['rotvec'] = res
    return res


_EXACT = None
_WEIGHT = {'cos': 0, 'k1': 1, 'k2': 2}
_DESC = {'cos': 'cos n', 'k1': 'sin n / n', 'k2': '(1 - cos n) / n^2'}
UPTO = 12


def _exact():
    global _EXACT
    if _EXACT is None:
        sa = SeriesAlg('n2')
        n = Ser({1: Fraction(1)})
        _EXACT = {'cos': sa.cos(n), 'k1': sa.div(sa.sin(n), n),
                  'k2': sa.div(sa.sub(sa.const(1), sa.cos(n)), Ser({2: Fraction(1)}))}
    return _EXACT


def rot_series(ctx):
    ctx.rule('ROT-SERIES', 'on every bounded arm of the norm test each coefficient deviates from '
             'cos n, sin n / n, (1 - cos n) / n^2 by less than 2^-53 relative at the arm\'s upper '
             'threshold (first omitted terms of the series); no arm that contains rv = 0 divides '
             'by the norm')
    R = _analyse_rotvec(ctx)
    f, power = R['f'], R['power']
    bounded = [P for P in R['paths'] if P['iv'][2] != INF]
    ctx.floor('ROT-SERIES', len(bounded), 1, 'small-angle arms')
    want = _exact()
    for P in R['paths']:
        if P['roles'] is None:
            continue
        lo, lc, hi, hc = P['iv']
        node = P['tests'][-1] if P['tests'] else f.node
        if lo == 0.0 and lc:
            ctx.ob('ROT-SERIES', not P['divzero'] and not P['err'], None,
                   'arm %s does not divide by the norm' % P['label'], f=f, node=node,
                   key='zero-' + P['label'],
                   why='the arm taken for %s contains rv = 0 and divides by a quantity that '
                       'vanishes there%s: the zero rotation gives NaN'
                       % (P['label'], (' (' + P['err'] + ')') if P['err'] else ''))
        if hi == INF:
            continue
        thr_n = hi if power == 1 else hi ** 0.5
        for r_ in ('cos', 'k1', 'k2'):
            got, ex = P['series'][r_], want[r_]
            # relative accuracy of each coefficient function (an entry such as -k1*rv[2] for
            # rv along z has exactly the relative error of its coefficient); on the point arm
            # rv = 0 the coefficient only matters through the power of rv it multiplies
            w = _WEIGHT[r_] if thr_n == 0.0 else 0
            ks = [k for k in range(0, UPTO + 1) if got.c.get(k, 0) != ex.c.get(k, 0)]
            bound = sum(abs(float(got.c.get(k, 0) - ex.c.get(k, 0))) * thr_n ** (k + w)
                        for k in ks) / abs(float(ex.c[0]))
            first = ks[0] if ks else None
            ctx.ob('ROT-SERIES', bound < 2.0 ** -53, None,
                   "arm %s: coefficient %s agrees with %s up to %.3g at the threshold "
                   "(first differing term n^%s) < 2^-53" % (P['label'], r_, _DESC[r_], bound,
                                                             first), f=f, node=node,
                   key='remainder-%s-%s' % (r_, P['label']),
                   why="on the arm taken for %s the coefficient playing the role %s differs "
                       "from %s first at n^%s; at the arm's upper threshold (|rv| = %.3g) its "
                       "relative deviation is %.3g (> 2^-53): the routine is not the "
                       "exponential map there (wrong series coefficient, threshold too large "
                       "for the truncation, or a shortcut that drops the rotation)"
                       % (P['label'], r_, _DESC[r_], first, thr_n, bound))


def _sturm_root(coefs, lo, hi):
    """does the polynomial sum coefs[k] x^k (Fractions) have a root in [lo, hi]?  Exact: the end
    points are evaluated, the open interval is decided by a Sturm sequence."""
    def ev(p, x):
        r = Fraction(0)
        for c in reversed(p):
            r = r * x + c
        return r

    def trim(p):
        p = list(p)
        while p and p[-1] == 0:
            p.pop()
        return p

    def rem(a, b):
        a = list(a)
        while len(a) >= len(b) and trim(a):
            a = trim(a)
            if len(a) < len(b):
                break
            q = a[-1] / b[-1]
            sh = len(a) - len(b)
            for i, c in enumerate(b):
                a[i + sh] -= q * c
            a = trim(a)
        return trim(a)
    p0 = trim(coefs)
    if len(p0) <= 1:
        return False
    if ev(p0, lo) == 0 or ev(p0, hi) == 0:
        return True
    p1 = trim([k * c for k, c in enumerate(p0)][1:])
    seq = [p0, p1]
    while len(seq[-1]) > 1:
        r = rem(seq[-2], seq[-1])
        if not r:
            break
        seq.append([-c for c in r])

    def changes(x):
        vals = [v for v in (ev(p_, x) for p_ in seq) if v != 0]
        return sum(1 for a, b in zip(vals, vals[1:]) if (a > 0) != (b > 0))
    return changes(lo) - changes(hi) > 0


def _poles(A, divisors, var):
    """Divisors (normal forms in the squared / plain norm `var` > 0, taken BEFORE any cancellation)
    that vanish somewhere on an arm without an upper bound.  -> (descriptions, undecided)"""
    found, unknown = [], []
    iv = getattr(A, 'inv_of', {})

    def kind(at):
        if at == var:
            return 'pos'
        if at in A.sqrt_of and A.sqrt_of[at].atoms() <= {var}:
            return 'pos'
        if at.startswith('inv(') and at in A.inverse and at not in iv:
            return 'pos' if kind(A.inverse[at]) == 'pos' else None
        for tab, nm in ((A.cos_arg, 'cos'), (A.sin_arg, 'sin')):
            if at in tab:
                inner = set()
                for x in tab[at].n.atoms():
                    inner.add(x)
                    inner |= A._nested_atoms(x)
                if var in inner:
                    return nm
        return None
    seen = set()
    for d in divisors:
        pn = d.n
        k_ = pn.key()
        if k_ in seen:
            continue
        seen.add(k_)
        ats = pn.atoms()
        kinds = {a_: kind(a_) for a_ in ats}
        if any(k is None for k in kinds.values()):
            unknown.append(k_[:50])
            continue
        trig = sorted(a_ for a_, k in kinds.items() if k in ('cos', 'sin'))
        if not trig:
            if all(c > 0 for c in pn.t.values()) or all(c < 0 for c in pn.t.values()):
                continue
            unknown.append(k_[:50])
            continue
        if len(trig) > 1:
            unknown.append(k_[:50])
            continue
        t0 = trig[0]
        # a polynomial in x = cos n (or sin n) whose coefficients share one positive factor
        rest = {tuple(x for x in m if x[0] != t0) for m in pn.t}
        if len(rest) != 1:
            unknown.append(k_[:50])
            continue
        deg = max((pw for m in pn.t for a_, pw in m if a_ == t0), default=0)
        coefs = [Fraction(0)] * (deg + 1)
        for m, c in pn.t.items():
            coefs[dict(m).get(t0, 0)] += c
        if _sturm_root(coefs, Fraction(-1), Fraction(1)) or coefs[0] == 0:
            x_ = kinds[t0]
            found.append('a division by %s with x = %s n (n = |rv|), which vanishes for a value '
                         'of %s n in [-1, 1] - attained on this arm (|rv| = pi for 1 + cos n, '
                         'pi/2 for cos n)' % (' + '.join(
                             '%s x^%d' % (c, k) for k, c in enumerate(coefs) if c), x_, x_))
    return found, unknown


def rot_exp(ctx):
    ctx.rule('ROT-EXP', 'mat = cos*I + (sin n/n)*skew(rv) + ((1-cos n)/n^2)*rv rv^T with the '
             'sign pattern of util.skew_matrix on every path; the tested local is the (squared) '
             'norm of rv; the unbounded arm has the exact coefficients')
    R = _analyse_rotvec(ctx)
    f = R['f']
    ctx.ob('ROT-EXP', R['normdef'], None,
           "'%s' is the %snorm of rv" % (R['var'], 'squared ' if R['power'] == 2 else ''), f=f,
           node=R.get('vdef_node') or f.node, key='norm-def',
           why="the local '%s' that selects the arm and enters the coefficients is neither the "
               "sum of squares of rv nor its root" % R['var'])
    want = _exact()
    for P in R['paths']:
        node = P['tests'][-1] if P['tests'] else f.node
        ctx.ob('ROT-EXP', not P['missing'], None,
               'path %s writes all 9 entries' % P['label'], f=f, node=node,
               key='writes-' + P['label'],
               why='on the path taken for %s the entries %s of the output matrix are not '
                   'written (the caller passes an uninitialised/previous buffer)'
                   % (P['label'], ', '.join('[%d,%d]' % m for m in P['missing'])))
        if P['roles'] is None:
            continue
        for (a, b), ok in sorted(P['entries'].items()):
            ctx.ob('ROT-EXP', ok, None,
                   'path %s: mat[%d,%d] = cos*delta + k1*skew(rv)[%d,%d] + k2*rv[%d]*rv[%d]'
                   % (P['label'], a, b, a, b, a, b), f=f, key='entry-%d-%d-%s' % (a, b, P['label']),
                   why='entry [%d,%d] of the rotation matrix deviates from the Rodrigues '
                       'formula with the sign pattern of util.skew_matrix (path %s)'
                       % (a, b, P['label']))
        if P['iv'][2] != INF:
            continue
        # "for every rotation vector": the closed form has no pole on its arm (a division by
        # something that vanishes at a half turn is 0/0 there and loses all digits around it,
        # although the formula is an identity away from it); divisors are taken as evaluated,
        # before the normal form cancels anything
        found, unknown = _poles(P['A'], P['divisors'], R['var'])
        ctx.need(not unknown, 'closed-form arm: the divisor(s) %s are not decided'
                 % ', '.join(unknown)[:120])
        ctx.ob('ROT-EXP', not found, None,
               'no divisor of the closed-form arm vanishes for |rv| on the arm (%d divisors)'
               % len(P['divisors']), f=f, node=node, key='pole',
               why='on the arm without an upper bound (%s) there is %s: the routine is not the '
                   'exponential map to machine precision for every rotation vector (division '
                   'by zero at that norm, cancellation around it)'
                   % (P['label'], '; '.join(found)[:300]))
        for r_ in ('cos', 'k1', 'k2'):
            got = P['series'][r_]
            ok = all(got.c.get(k, 0) == want[r_].c.get(k, 0) for k in range(UPTO + 1)) and \
                not any(k < 0 for k in got.c)
            ctx.ob('ROT-EXP', ok, None,
                   "closed-form coefficient in the role %s has the Maclaurin series of %s"
                   % (r_, _DESC[r_]), f=f, node=node, key='closed-' + r_,
                   why="on the arm without an upper bound (%s) the coefficient in the role %s "
                       "is not %s: the routine is not the exponential map"
                       % (P['label'], r_, _DESC[r_]))


def euler_conv(ctx):
    ctx.rule('EULER-CONV', "every 3-axis Euler conversion uses extrinsic 'xyz' in degrees, "
             'as the defining pair mat_from_rph / mat_to_rph')
    repo = ctx.repo
    sites = []
    for f in repo.all_functions():
        for n in ast.walk(f.node):
            if isinstance(n, ast.Call) and isinstance(n.func, ast.Attribute) and \
                    n.func.attr in ('from_euler', 'as_euler'):
                sites.append((f, n))
    defining = {'mat_from_rph': 'from_euler', 'mat_to_rph': 'as_euler'}
    found_def = set()
    n3 = 0
    for f, n in sites:
        seq = None
        if n.args:
            try:
                seq = repo.fold(n.args[0], f.module, f.cls)
            except ValueError:
                seq = None
        if not isinstance(seq, str):
            ctx.ob('EULER-CONV', None, None, 'axis sequence is not a constant', f=f, node=n)
            continue
        nangles = 1 if n.func.attr == 'as_euler' else 2
        deg = None
        if len(n.args) > nangles:
            try:
                deg = repo.fold(n.args[nangles], f.module, f.cls)
            except ValueError:
                deg = None
        for kw in n.keywords:
            if kw.arg == 'degrees':
                try:
                    deg = repo.fold(kw.value, f.module, f.cls)
                except ValueError:
                    deg = None
        if f.name in defining and n.func.attr == defining[f.name]:
            found_def.add(f.name)
        if len(seq) != 3:
            # geodetic 'ZY' and single-axis turntable sites: degrees flag only
            ctx.ob('EULER-CONV', deg is True, None, "angles given in degrees ('%s')" % seq,
                   f=f, node=n, why='Euler conversion of degree-valued data without degrees=True')
            continue
        n3 += 1
        ok = seq == 'xyz' and deg is True
        ctx.ob('EULER-CONV', ok, None, "sequence 'xyz' (extrinsic roll-pitch-heading), degrees",
               f=f, node=n,
               why="roll/pitch/heading conversion uses sequence %r, degrees=%r; the library's "
                   "convention is extrinsic 'xyz' in degrees" % (seq, deg))
    missing = set(defining) - found_def
    if missing:
        if 'euler-closed' not in ctx.cache:
            euler_inv(ctx)
        ctx.need(missing <= ctx.cache.get('euler-closed', set()),
                 'defining pair mat_from_rph/mat_to_rph not found')
    ctx.floor('EULER-CONV', n3, 9 - len(missing), "3-axis Euler conversion sites")


def euler_inv(ctx):
    ctx.rule('EULER-INV', 'mat_to_rph(mat_from_rph(r, p, h)) == (r, p, h) for roll, heading in '
             '(-180, 180] and |pitch| < 90 (symbolic; scipy pair by its contract, closed forms '
             'by the range of the inverse trigonometric function used)')
    from ..rotmodel import RotHooks, EulerOf, from_euler
    repo = ctx.repo
    f_from = repo.function('transform.mat_from_rph')
    f_to = repo.function('transform.mat_to_rph')
    ctx.touch(f_from)
    ctx.touch(f_to)
    A = Alg()
    ev = SymEval(repo, A, hooks=RotHooks())
    names = ['roll', 'pitch', 'heading']
    ang = [A.sym(n) for n in names]
    rad = [A.mul(A.sym(A.D2R), a) for a in ang]
    cp = A.cos(rad[1])
    A.nonneg = set(A.atoms_of(cp))          # |pitch| < 90
    vec = SArray((3,), {(i,): a for i, a in enumerate(ang)})
    try:
        M = ev.call_function(f_from, [vec])
    except Unsupported as e:
        raise AnalysisError('mat_from_rph not analysable: %s' % e)
    ctx.need(isinstance(M, SArray) and M.shape == (3, 3), 'mat_from_rph does not return a 3x3 matrix')
    try:
        out = ev.call_function(f_to, [M])
    except Unsupported as e:
        raise AnalysisError('mat_to_rph not analysable: %s' % e)
    closed = ctx.cache.setdefault('euler-closed', set())
    if isinstance(out, EulerOf):
        # scipy: as_euler(seq, degrees) inverts from_euler(seq, ., degrees) - the matrix must be
        # the one from_euler builds for that sequence from (roll, pitch, heading)
        try:
            Mm = from_euler(ev, out.seq, vec, out.degrees).mat
            same = all(A.eq(Mm.get((i, j)), out.mat.get((i, j))) for i in range(3) for j in range(3))
        except Unsupported:
            same = False
        ctx.ob('EULER-INV', same, None,
               "as_euler(%r, degrees=%r) is applied to the matrix that from_euler builds with the "
               "same sequence and unit from (roll, pitch, heading)" % (out.seq, out.degrees),
               f=f_to, key='pair',
               why="mat_to_rph extracts Euler angles with sequence %r, degrees=%r, which is not the "
                   "convention mat_from_rph builds the matrix with" % (out.seq, out.degrees))
        return
    closed.add('mat_to_rph')
    ctx.need(isinstance(out, SArray) and out.shape == (3,), 'mat_to_rph does not return 3 angles')
    r2d = A.sym(A.R2D)
    d2r = A.sym(A.D2R)
    fa = getattr(A, 'func_arg', {})

    def positive(k):
        if A.is_const(k):
            return A.const_of(k) > 0
        if len(k.n.t) != 1:
            return False
        (m, c), = k.n.t.items()
        return c > 0 and all(A._nonneg(a) or pw % 2 == 0 for a, pw in m)

    for i, nm in enumerate(names):
        v = A.mul(out.get((i,)), d2r)                  # radians
        a = rad[i]
        full = nm != 'pitch'
        dom = '(-180, 180]' if full else '(-90, 90)'
        ok, why = None, ''
        if len(v.n.t) == 1:
            (m, c), = v.n.t.items()
            if len(m) == 1 and m[0][1] == 1 and m[0][0] in fa and abs(c) == 1:
                fn, args = fa[m[0][0]]
                sg = A.const(c)
                if fn == 'arctan2' and len(args) == 2:
                    Y, X = A.mul(sg, args[0]), args[1]      # c * atan2(y, x) = atan2(c y, x)
                    col = A.is_zero(A.sub(A.mul(X, A.sin(a)), A.mul(Y, A.cos(a))))
                    k = A.add(A.mul(X, A.cos(a)), A.mul(Y, A.sin(a)))
                    ok = col and positive(k)
                    why = ('arctan2 arguments are not (k sin %s, k cos %s) with k > 0' % (nm, nm))
                elif fn == 'arcsin' and len(args) == 1:
                    ok = (not full) and A.is_zero(A.sub(A.mul(sg, args[0]), A.sin(a)))
                    why = ('arcsin returns values in [-90, 90] only; %s ranges over %s' % (nm, dom)
                           if full else 'arcsin argument is not sin(%s)' % nm)
                elif fn == 'arctan' and len(args) == 1:
                    ok = (not full) and A.is_zero(A.sub(A.mul(A.mul(sg, args[0]), A.cos(a)),
                                                        A.sin(a)))
                    why = ('single-argument arctan returns values in (-90, 90) only and loses the '
                           'quadrant; %s ranges over %s' % (nm, dom)
                           if full else 'arctan argument is not tan(%s)' % nm)
                elif fn == 'arccos':
                    ok = False
                    why = 'arccos returns values in [0, 180] only: the sign of %s is lost' % nm
        if ok is None:
            raise AnalysisError('mat_to_rph: %s is not a recognised closed form (%s)'
                                % (nm, A.key(out.get((i,)))[:120]))
        ctx.ob('EULER-INV', ok, None, '%s is recovered on its whole domain %s' % (nm, dom),
               f=f_to, key='closed-' + nm,
               why='mat_to_rph does not return the %s that mat_from_rph was given: %s' % (nm, why))


# ------------------------------------------------------------------ ANGLE-RANGE
_HALF_RANGE = {'numpy.arctan': '(-90, 90)', 'numpy.arcsin': '[-90, 90]', 'numpy.arccos': '[0, 180]',
               'math.atan': '(-90, 90)', 'math.asin': '[-90, 90]', 'math.acos': '[0, 180]'}
_FULL = {'roll': 0, 'heading': 2, 'lon': 1}


def _strip_scale(e, resolve):
    """the inverse-trigonometric call under positive/negative scalings, unit conversions and
    np.where / clip wrappers of its argument: (call node or None)"""
    while True:
        if isinstance(e, ast.UnaryOp) and isinstance(e.op, (ast.USub, ast.UAdd)):
            e = e.operand
        elif isinstance(e, ast.BinOp) and isinstance(e.op, (ast.Mult, ast.Div)):
            l_call = any(isinstance(x, ast.Call) for x in ast.walk(e.left))
            r_call = any(isinstance(x, ast.Call) for x in ast.walk(e.right))
            if l_call and not r_call:
                e = e.left
            elif r_call and not l_call and isinstance(e.op, ast.Mult):
                e = e.right
            else:
                return None
        elif isinstance(e, ast.Call) and resolve(e.func) in ('numpy.rad2deg', 'numpy.degrees',
                                                              'numpy.asarray', 'numpy.array') \
                and len(e.args) >= 1:
            e = e.args[0]
        elif isinstance(e, ast.Call) and resolve(e.func) in _HALF_RANGE:
            return e
        else:
            return None


def angle_range(ctx):
    """A roll or heading (or longitude) that is computed as arctan / arcsin / arccos of
    something cannot take all values of its documented domain (-180, 180]: the quadrant is
    lost and the angle is off by 180 degrees (or mirrored) for half of the attitudes.  The
    destination is identified by the repository's naming convention (an array named *rph*,
    component 0 or 2; a column labelled roll / heading) - contradiction only: a store whose
    destination is not recognised is not judged."""
    ctx.rule('ANGLE-RANGE', 'no roll / heading (domain (-180, 180]) is produced by single-argument '
             'arctan, arcsin or arccos (range of half a turn): hand-written Euler extraction must '
             'use arctan2 for the two full-circle angles')
    n = 0
    for f in ctx.repo.all_functions():
        loc = f.local_names()
        resolve = lambda e: f.module.resolve(e, loc) if isinstance(e, (ast.Name, ast.Attribute)) \
            else None
        for st in ast.walk(f.node):
            if not (isinstance(st, ast.Assign) and len(st.targets) == 1):
                continue
            t = st.targets[0]
            which = None
            if isinstance(t, ast.Subscript) and isinstance(t.value, ast.Name) and \
                    'rph' in t.value.id.lower():
                sl = t.slice
                el = sl.elts if isinstance(sl, ast.Tuple) else [sl]
                last = el[-1]
                if isinstance(last, ast.Constant) and last.value in (0, 2) and \
                        not isinstance(last.value, bool):
                    which = 'roll' if last.value == 0 else 'heading'
                elif isinstance(last, ast.Constant) and last.value in ('roll', 'heading'):
                    which = last.value
            elif isinstance(t, ast.Subscript) and isinstance(t.slice, ast.Constant) and \
                    t.slice.value in ('roll', 'heading'):
                which = t.slice.value
            elif isinstance(t, ast.Attribute) and t.attr in ('roll', 'heading') and \
                    isinstance(t.ctx, ast.Store):
                which = t.attr
            elif isinstance(t, ast.Name) and t.id in ('roll', 'heading'):
                which = t.id
            if which is None:
                continue
            has_trig = [x for x in ast.walk(st.value) if isinstance(x, ast.Call) and
                        (resolve(x.func) or '').rsplit('.', 1)[-1] in
                        ('arctan', 'arcsin', 'arccos', 'arctan2', 'atan', 'asin', 'acos', 'atan2')]
            if not has_trig:
                continue
            n += 1
            call = _strip_scale(st.value, resolve)
            if call is None:
                ctx.ob('ANGLE-RANGE', True, None, '%s: %s is not a bare half-range inverse function'
                       % (f.qualname, which), f=f, node=st, key='range-%s-%s' % (f.qualname, which))
                continue
            q = resolve(call.func)
            ctx.ob('ANGLE-RANGE', False, None, '%s: %s covers its whole domain' % (f.qualname, which),
                   f=f, node=st, key='range-%s-%s' % (f.qualname, which),
                   why='%s is computed as %s(...), whose values lie in %s degrees, but %s ranges '
                       'over (-180, 180]: for half of the attitudes the reported angle is off by '
                       '180 degrees (quadrant lost); use arctan2' % (
                           which, q.split('.')[-1], _HALF_RANGE[q], which))
    ctx.floor('ANGLE-RANGE', n, 1, 'roll/heading values computed by inverse trigonometric functions')
    # positive fixture
    if not ctx.cache.get('angle-range-fixture'):
        ctx.cache['angle-range-fixture'] = True
        e = ast.parse('-np.arctan(m[:, 2, 1] / m[:, 2, 2]) * R2D', mode='eval').body
        e2 = ast.parse('np.rad2deg(np.arctan2(a, b))', mode='eval').body
        rs = lambda x: norm_text(x).replace('np.', 'numpy.') if isinstance(
            x, (ast.Name, ast.Attribute)) else None
        if _strip_scale(e, rs) is None or _strip_scale(e2, rs) is not None:
            raise AnalysisError('ANGLE-RANGE fixture not recognised')
        ctx.ob('ANGLE-RANGE', True, None, 'positive fixture: scaled single-argument arctan '
               'recognised, arctan2 not', key='fixture')
