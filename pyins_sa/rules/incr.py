"""C15 - coning/sculling increments (strapdown.compute_increments_from_imu).

CS-BRANCH   the increment-type and the rate-type branch agree, component by component,
            on the documented linear signal model (N1 polynomial equality)
CS-CONSIST  first-order consistency: theta = integral of gyro rate, dv = integral of
            specific force to first order in dt (columns named theta_* / dv_* / dt carry
            exactly these)
CS-SLICE    previous = [:-1], current = [1:], dt = diff(index), result index = index[1:],
            columns are the documented Increments columns
"""
import ast

from ..expr import SymEval, SArray, Opaque, Unsupported, Rec
from ..model import AnalysisError, norm_text
from ..nf import Rat


class _Frame:
    """The `imu` argument."""
    def __init__(self, name):
        self.name = name


class _Positional(Unsupported):
    def __init__(self, attr, node):
        Unsupported.__init__(self, 'positional access imu.%s' % attr)
        self.attr, self.node = attr, node


class _Cols:
    def __init__(self, cols):
        self.cols = cols


class _Rows:
    """rows [start : start + length] of one column group (length None: up to the end)"""
    def __init__(self, group, start, length, node):
        self.group, self.start, self.length, self.node = group, start, length, node


class _Boundary(Unsupported):
    def __init__(self, what, node):
        Unsupported.__init__(self, what)
        self.node = node


class _Hooks:
    def __init__(self, ev, mode, gyro_cols, accel_cols):
        self.ev, self.mode = ev, mode
        self.gyro_cols, self.accel_cols = list(gyro_cols), list(accel_cols)
        self.slices = []
        self.diff_of = None
        self.ret = None
        self.leaks = []
        A = ev.A
        self.dt = A.sym('dt')
        v = lambda n: [A.sym('%s_%s' % (n, c)) for c in 'xyz']
        self.a = {'g': v('ag'), 'f': v('af')}
        self.b = {'g': v('bg'), 'f': v('bf')}

    def vec(self, xs):
        return SArray((3,), {(i,): x for i, x in enumerate(xs)})

    def attr(self, ev, base, a, node):
        if isinstance(base, _Frame):
            if a == 'index':
                return Opaque('imu.index')
            if a in ('values', 'to_numpy', 'iloc', 'T'):
                # the whole table as an array / by position: the Imu schema is BY NAME (a frame
                # read from a file in another column order is a legal input)
                raise _Positional(a, node)
        if isinstance(base, _Cols):
            if a == 'values':
                return base
            if a in ('to_numpy', 'copy'):
                return lambda *x, **k: base
        return None

    def subscript(self, ev, base, idx, node, env):
        A = ev.A
        if isinstance(base, _Frame):
            if isinstance(idx, (list, tuple)) and all(isinstance(c, str) for c in idx):
                return _Cols(list(idx))
            raise Unsupported('imu[%r]' % (idx,))
        if isinstance(base, _Cols):
            if base.cols == self.gyro_cols:
                s = 'g'
            elif base.cols == self.accel_cols:
                s = 'f'
            else:
                raise Unsupported('unexpected column group %r' % (base.cols,))
            if not isinstance(idx, slice):
                raise Unsupported('sample index %r' % (idx,))
            key = (idx.start, idx.stop, idx.step)
            self.slices.append((s, key, node))
            half = A.const('1/2') if False else A.div(A.const(1), A.const(2))
            if key == (None, -1, None):
                which = 'prev'
            elif key == (1, None, None):
                which = 'cur'
            else:
                a0, b0, st0 = key
                a0 = 0 if a0 is None else a0
                if st0 is None and isinstance(a0, int) and a0 >= 0 and \
                        (b0 is None or isinstance(b0, int)):
                    ln = b0 - a0 if isinstance(b0, int) and b0 > 0 else None
                    return _Rows(s, a0, ln, node)
                raise Unsupported('slice %r of readings' % (key,))
            return self.generic(s, which)
        return None

    def generic(self, s, which):
        A = self.ev.A
        half = A.div(A.const(1), A.const(2))
        if True:
            a, b = self.a[s], self.b[s]
            if self.mode == 'rate':
                xs = a if which == 'prev' else [A.add(x, y) for x, y in zip(a, b)]
            else:
                sg = A.neg(half) if which == 'prev' else half
                xs = [A.mul(A.add(x, A.mul(sg, y)), self.dt) for x, y in zip(a, b)]
            return self.vec(xs)

    def call(self, ev, q, node, args, kwargs, env):
        if q in ('numpy.vstack', 'numpy.concatenate', 'numpy.row_stack') and args and \
                isinstance(args[0], (list, tuple)) and args[0] and \
                all(isinstance(x, _Rows) for x in args[0]) and \
                set(kwargs) <= {'axis'} and kwargs.get('axis', 0) == 0:
            # pieces of one column group stacked along the sample axis: output row r of piece k
            # (which starts at output row R_k) is sample start_k + (r - R_k); the stack is a
            # plain shifted view of the readings only when start_k - R_k is the same for all k
            pieces = list(args[0])
            if len({p.group for p in pieces}) != 1:
                raise Unsupported('rows of different column groups stacked')
            R, shifts = 0, []
            for k, p in enumerate(pieces):
                shifts.append(p.start - R)
                if p.length is None:
                    if k != len(pieces) - 1:
                        raise Unsupported('open-ended piece before the last one')
                else:
                    R += p.length
            if len(set(shifts)) != 1:
                raise _Boundary('the stacked readings `%s` take output rows %s from samples '
                                'shifted by %s: the first interval(s) are computed from other '
                                'samples than the generic interval'
                                % (norm_text(node)[:60], list(range(len(shifts))), shifts), node)
            if shifts[0] == 0:
                return self.generic(pieces[0].group, 'prev')
            if shifts[0] == 1:
                return self.generic(pieces[0].group, 'cur')
            raise Unsupported('readings shifted by %d samples' % shifts[0])
        if q == 'numpy.roll' and args and isinstance(args[0], SArray) and \
                args[0].shape == (3,) and set(kwargs) <= {'shift', 'axis'}:
            # the (n, 3) readings of the generic sample: a roll along the component axis permutes
            # the components; a roll of the FLATTENED array (no axis) by k moves element (i, j) to
            # flat position 3i + j + k, so 3 - (k mod 3) components stay in their row and the
            # others are taken from a neighbouring sample's row (and wrap around the record)
            shift = kwargs.get('shift', args[1] if len(args) > 1 else None)
            axis = kwargs.get('axis', args[2] if len(args) > 2 else None)
            if not isinstance(shift, int) or isinstance(shift, bool):
                raise Unsupported('roll by %r' % (shift,))
            a = args[0]
            if axis in (1, -1):
                return self.vec([a.get(((j - shift) % 3,)) for j in range(3)])
            if axis is None and shift % 3:
                out = []
                for j in range(3):
                    src = j - shift
                    x = a.get((src % 3,))
                    if src // 3:
                        x = ev.A.func('othersample', ev.A.const(-(src // 3)), x)
                        self.leaks.append((node, shift))
                    out.append(x)
                return self.vec(out)
            raise Unsupported('roll of the readings along the sample axis')
        if q == 'numpy.diff':
            self.diff_of = args[0]
            return self.dt
        if q == 'pandas.DataFrame':
            self.ret = (args, kwargs, node)
            return Opaque('DataFrame')
        return NotImplemented


def _run(ctx, mode, alg):
    r = ctx.repo
    f = r.function('strapdown.compute_increments_from_imu')
    ev = SymEval(r, alg)
    h = _Hooks(ev, mode, r.const('util.GYRO_COLS'), r.const('util.ACCEL_COLS'))
    ev.hooks = h
    try:
        ev.call_function(f, [_Frame('imu'), mode])
    except _Positional as e:
        if not ctx.cache.get('cs-positional'):
            ctx.cache['cs-positional'] = True
            ctx.rule('CS-BYNAME', 'gyro and accelerometer readings are selected from the Imu table by '
                     'column name, never by position')
            ctx.ob('CS-BYNAME', False, None, 'readings selected by name', f=f, node=e.node,
                   key='positional-' + e.attr,
                   why='compute_increments_from_imu takes the readings from `imu.%s` (the whole '
                       'table by position): with the six named columns in any other order than '
                       'gyro_x..z, accel_x..z the increments are silently computed from the wrong '
                       'signals' % e.attr)
        raise AnalysisError('compute_increments_from_imu (%s) not analysable: %s' % (mode, e))
    except _Boundary as e:
        if not ctx.cache.get('cs-boundary'):
            ctx.cache['cs-boundary'] = True
            ctx.rule('CS-SLICE', 'previous=[:-1], current=[1:], dt=diff(index), index=index[1:], '
                     'documented Increments columns')
            ctx.ob('CS-SLICE', False, None, 'every interval pairs sample k-1 with sample k', f=f,
                   node=e.node, key='boundary-rows', why=str(e))
        raise AnalysisError('compute_increments_from_imu (%s) not analysable: %s' % (mode, e))
    except Unsupported as e:
        raise AnalysisError('compute_increments_from_imu (%s) not analysable: %s' % (mode, e))
    ctx.need(h.ret is not None, 'compute_increments_from_imu does not build a DataFrame')
    args, kwargs, node = h.ret
    data = kwargs.get('data', args[0] if args else None)
    cols = kwargs.get('columns')
    index = kwargs.get('index')
    ctx.need(isinstance(data, SArray) and isinstance(cols, list),
             'returned table data/columns not recognised')
    ctx.need(len(cols) == data.shape[0], 'columns/data length mismatch')
    table = {c: data.get((i,)) for i, c in enumerate(cols)}
    bad = [c for c in table if isinstance(table[c], Rat) and
           any(a.startswith('othersample(') for a in _all_atoms(ev.A, table[c]))]
    if bad:
        if not ctx.cache.get('cs-leak'):
            ctx.cache['cs-leak'] = True
            ctx.rule('CS-SLICE', 'previous=[:-1], current=[1:], dt=diff(index), index=index[1:], '
                     'documented Increments columns')
            lk = h.leaks[0]
            ctx.ob('CS-SLICE', False, None, 'every interval pairs sample k-1 with sample k', f=f,
                   node=lk[0], key='other-sample',
                   why='`%s` rolls the flattened (n, 3) readings (no axis): some components move '
                       'into the neighbouring sample\'s row, so column(s) %s of interval k are '
                       'computed from readings outside samples k-1 and k (and the end of the '
                       'record wraps around to its start)' % (norm_text(lk[0])[:60], bad))
        raise AnalysisError('compute_increments_from_imu (%s): rows mix samples' % mode)
    return f, ev, h, table, index, node


def _all_atoms(A, v):
    out = set()
    for at in (v.n.atoms() | v.d.atoms()):
        out.add(at)
        out |= A._nested_atoms(at)
    return out


def cs_rules(ctx):
    ctx.rule('CS-BRANCH', 'increment-type and rate-type branches agree on linear signals')
    ctx.rule('CS-CONSIST', 'theta/dv/dt columns are first-order consistent with the '
             'integrals of gyro rate / specific force')
    ctx.rule('CS-SLICE', 'previous=[:-1], current=[1:], dt=diff(index), index=index[1:], '
             'documented Increments columns')
    from ..nf import Alg
    alg = Alg()
    res = {}
    for mode in ('rate', 'increment'):
        res[mode] = _run(ctx, mode, alg)
    f = res['rate'][0]
    tr, ti = res['rate'][3], res['increment'][3]
    A_r, A_i = res['rate'][1].A, res['increment'][1].A
    node = res['rate'][5]
    want_cols = ['dt'] + ctx.repo.const('util.THETA_COLS') + ctx.repo.const('util.DV_COLS')
    ctx.ob('CS-SLICE', list(tr) == want_cols, None,
           'returned columns are dt + THETA_COLS + DV_COLS', f=f, node=node, key='columns',
           why='Increments columns are %s, documented %s' % (list(tr), want_cols))
    # index = imu.index[1:]
    idx = res['rate'][4]
    ok = isinstance(idx, Opaque) and idx.tag == 'sub' and isinstance(idx.parts[0], Opaque) \
        and idx.parts[0].tag == 'imu.index' and idx.parts[1] == slice(1, None, None)
    ctx.ob('CS-SLICE', ok, None, 'result index is imu.index[1:]', f=f, node=node,
           key='index', why='result is not stamped with the time of the sample that ends '
                            'each interval (imu.index[1:])')
    d = res['rate'][2].diff_of
    ok = isinstance(d, Opaque) and d.tag == 'imu.index'
    ctx.ob('CS-SLICE', ok, None, 'dt is diff(imu.index)', f=f, key='dt-diff',
           why='dt is not the difference of consecutive time stamps')
    # every slice is [:-1] or [1:] (others raise Unsupported earlier); count them
    n_sl = len(res['rate'][2].slices) + len(res['increment'][2].slices)
    ctx.floor('CS-SLICE', n_sl, 6, 'reading slices')
    # the branches must agree -- translate values of the increment algebra into the
    # rate algebra by textual atom identity (both algebras use the same atom names)
    if list(tr) != list(ti):
        return
    for c in tr:
        vr, vi = tr[c], ti[c]
        ok = A_r.eq(vr, vi)
        ctx.ob('CS-BRANCH', ok, None,
               "column %s: increment branch with g_prev=(a-b/2)dt, g_cur=(a+b/2)dt equals "
               "rate branch with w_prev=a, w_cur=a+b" % c, f=f, node=node, key='col-' + c,
               why="sensor-type branches disagree on column '%s' for signals linear in time"
                   % c)
    # first-order consistency on the rate branch
    h = res['rate'][2]
    A = A_r
    half = A.div(A.const(1), A.const(2))
    groups = [(ctx.repo.const('util.THETA_COLS'), 'g', 'theta'),
              (ctx.repo.const('util.DV_COLS'), 'f', 'dv')]
    for cols, s, nm in groups:
        for k, c in enumerate(cols):
            if c not in tr:
                continue
            try:
                parts = A.degree_split(tr[c], 'dt')
            except ValueError as e:
                if 'masked(' in str(e):
                    # a store selected by a data-dependent mask (see SymEval.store): for the
                    # selected samples the column is something else than for the others
                    ctx.ob('CS-CONSIST', False, None, 'column %s is one expression for every '
                           'sample' % c, f=f, node=node, key='masked-' + c,
                           why="column '%s' is overwritten for the samples selected by a "
                               'data-dependent condition: for those samples it is not the '
                               'integral of the linear signal model (the coning / sculling terms '
                               'are largest exactly on long intervals), and a row then depends on '
                               'the other rows of the same call' % c)
                    continue
                raise AnalysisError(str(e))
            c0 = parts.get(0, A.const(0))
            c1 = parts.get(1, A.const(0))
            want = A.add(h.a[s][k], A.mul(half, h.b[s][k]))
            ok = A.is_zero(c0) and A.eq(c1, want)
            ctx.ob('CS-CONSIST', ok, None,
                   '%s = dt*(a + b/2) + O(dt^2) for the %s axis' % (c, 'xyz'[k]), f=f,
                   node=node, key='consist-' + c,
                   why="column '%s' is not, to first order in dt, the trapezoid integral of "
                       "the %s reading of axis %s" % (c, 'gyro' if s == 'g' else 'accel', 'xyz'[k]))
    if 'dt' in tr:
        ctx.ob('CS-CONSIST', A.eq(tr['dt'], h.dt), None, "column dt holds diff(index)", f=f,
               node=node, key='consist-dt', why="column 'dt' does not hold the interval length")


def _tau_int(ev, poly):
    """Integral from 0 to 1 of a vector polynomial in tau: {power: SArray(3)}."""
    A = ev.A
    out = None
    for k, v in poly.items():
        term = ev.emap(lambda x: A.div(x, A.const(k + 1)), v)
        out = term if out is None else ev.emap(A.add, out, term)
    return out


def _tau_cross(ev, p, q):
    A = ev.A
    out = {}
    for i, u in p.items():
        for j, v in q.items():
            c = ev.cross(u, v)
            out[i + j] = c if i + j not in out else ev.emap(A.add, out[i + j], c)
    return out


def cs_exact(ctx):
    """CS-EXACT: for signals linear in time the algorithm reproduces, through the dt^2
    (cubic in rate terms) order, the second-order Picard solution of the rotation-vector
    equation and the first-order-rotation velocity integral, both derived here by
    polynomial integration (no stored coefficients)."""
    ctx.rule('CS-EXACT', 'theta and dv equal the Picard/rotation-compensated integrals of '
             'linear signals through the cubic term')
    from ..nf import Alg
    alg = Alg()
    f, ev, h, table, index, node = _run(ctx, 'rate', alg)
    A = alg
    half = A.div(A.const(1), A.const(2))
    a, b = h.vec(h.a['g']), h.vec(h.b['g'])
    fa, fb = h.vec(h.a['f']), h.vec(h.b['f'])
    w = {0: a, 1: b}                       # rate(tau) = a + b*tau
    sf = {0: fa, 1: fb}
    # theta(tau)/dt = a*tau + b*tau^2/2
    th = {1: a, 2: ev.emap(lambda x: A.mul(half, x), b)}
    # rotation vector: phi = dt*int(w) + dt^2 * 1/2 * int(theta x w)
    phi1 = _tau_int(ev, w)
    phi2 = ev.emap(lambda x: A.mul(half, x), _tau_int(ev, _tau_cross(ev, th, w)))
    # velocity: dv = dt*int(f) + dt^2 * int(theta x f)
    v1 = _tau_int(ev, sf)
    v2 = _tau_int(ev, _tau_cross(ev, th, sf))
    groups = [(ctx.repo.const('util.THETA_COLS'), phi1, phi2, 'rotation vector'),
              (ctx.repo.const('util.DV_COLS'), v1, v2, 'velocity increment')]
    n = 0
    for cols, e1, e2, nm in groups:
        for k, c in enumerate(cols):
            if c not in table:
                continue
            try:
                parts = A.degree_split(table[c], 'dt')
            except ValueError as e:
                raise AnalysisError(str(e))
            ok = (A.eq(parts.get(1, A.const(0)), e1.get((k,))) and
                  A.eq(parts.get(2, A.const(0)), e2.get((k,))) and
                  A.is_zero(parts.get(0, A.const(0))))
            n += 1
            ctx.ob('CS-EXACT', ok, None,
                   '%s: dt and dt^2 coefficients equal the integrals of the linear signal '
                   'model (derived by polynomial integration)' % c, f=f, node=node,
                   key='exact-' + c,
                   why="%s component '%s' deviates, for signals linear in time, from the "
                       "exact integral through the cubic term" % (nm, c))
    ctx.floor('CS-EXACT', n, 6, 'columns')


def _cross_eq(A1, v1, A2, v2):
    """Equality of values from two algebras that share atom names (polynomial only)."""
    def canon(A, v):
        return sorted((m, c) for m, c in A.clear(v.n).t.items())
    try:
        return canon(A1, v1) == canon(A2, v2)
    except ValueError:
        return False
