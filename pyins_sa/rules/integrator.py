"""C02 / C13 - rules on strapdown.Integrator and its use of the compiled kernel.

BUF-BOUND    every row the kernel writes is inside the buffers on both paths of the
             capacity test (linear arithmetic over n_data, n_readings, size)
BUF-SIBLING  every buffer the kernel writes is resized, to the same length, in the
             growth branch; all buffers start with the same capacity
CARRIER      __init__ (row 0), set_pva (row len-1) and the kernel (row j+1) write all state
             carriers, with lla<-LLA, velocity<-VEL, mat<-mat_from_rph(RPH); the row
             set_pva writes is the row the next kernel call reads
PREDICT-EFF  only the 'integrate' mode stores to self.trajectory
TAIL-SLICE   integrate appends the new rows and returns the last n_readings + 1 rows;
             rows come from buffer slice [n_data : n_data + n_readings], index = increments
ALT-FREEZE   without altitude: every writer stores vertical velocity zero and altitude is a
             copy (constructor, kernel, set_pva) - evaluated from the code
ES-COPY      without altitude correct_pva returns the input altitude and vertical velocity
ES-2DROWS    without altitude the down / vertical-velocity rows of transform_to_output are
             identically zero
"""
import ast

from ..expr import SymEval, SArray, PArr, Rec, Obj, Opaque, Unsupported, UNK
from ..flow import Closure, walk_no_nested_funcs, assigned_names
from ..model import AnalysisError, norm_text
from ..nf import Alg, Rat
from .kernel import kernel_eval, KROLES


def _lin(A, node, clo, at, atoms):
    """Arithmetic expression -> polynomial; non-arithmetic leaves become atoms named by
    their closure text."""
    if isinstance(node, ast.Constant) and isinstance(node.value, (int, float)) and \
            not isinstance(node.value, bool):
        return A.const(node.value)
    if isinstance(node, ast.BinOp) and isinstance(node.op, (ast.Add, ast.Sub, ast.Mult)):
        l, r = _lin(A, node.left, clo, at, atoms), _lin(A, node.right, clo, at, atoms)
        return {ast.Add: A.add, ast.Sub: A.sub, ast.Mult: A.mul}[type(node.op)](l, r)
    if isinstance(node, ast.UnaryOp) and isinstance(node.op, ast.USub):
        return A.neg(_lin(A, node.operand, clo, at, atoms))
    if isinstance(node, ast.Name):
        e = clo.expr(node, at)
        if not (isinstance(e, ast.Name) and e.id == node.id):
            return _lin(A, e, clo, at, atoms)
    t = norm_text(node)
    atoms.add(t)
    return A.sym(t)


def _integ(ctx):
    c = ctx.repo.klass('strapdown.Integrator')
    f = c.methods.get('_integrate')
    if f is None:
        # find the method that calls the kernel
        for m in c.methods.values():
            if any(isinstance(n, ast.Call) and
                   m.module.resolve(n.func, m.local_names()) ==
                   'pyins._numba_integrate.integrate' for n in ast.walk(m.node)):
                f = m
    ctx.need(f is not None, 'Integrator method calling the kernel not found')
    calls = [n for n in ast.walk(f.node) if isinstance(n, ast.Call) and
             f.module.resolve(n.func, f.local_names()) == 'pyins._numba_integrate.integrate']
    ctx.need(len(calls) == 1 and len(calls[0].args) == 8,
             'kernel call site not recognised in %s' % f.qualname)
    return c, f, calls[0]


def buf_rules(ctx):
    ctx.rule('BUF-BOUND', 'largest row written by the kernel <= buffer length - 1 on both paths '
             'of the capacity test')
    ctx.rule('BUF-SIBLING', 'all kernel-written buffers are resized together to the same new '
             'length and start with equal capacity')
    c, f, call = _integ(ctx)
    A = Alg()
    clo = Closure(f)
    st_call = [s for s in f.node.body if any(n is call for n in ast.walk(s))][0]
    atoms = set()
    off = _lin(A, call.args[6], clo, st_call, atoms)
    # number of increments = len of the table the increment arrays come from
    src = set()
    for a in (call.args[0], call.args[4], call.args[5]):
        t = clo.text(a, st_call)
        for p in f.params[1:]:
            if p in t:
                src.add(p)
    ctx.ob('BUF-BOUND', len(src) == 1, None, 'dt, theta and dv all come from the same table',
           f=f, node=call, key='same-table',
           why='increment arrays passed to the kernel come from different objects: %s'
               % sorted(src))
    if len(src) != 1:
        return
    table = next(iter(src))
    nread = A.sym('len(%s)' % table)
    # from ROW-REC: kernel rows written are offset + i + 1, i in range(len(theta))
    maxrow = A.add(off, nread)          # offset + (n-1) + 1
    # capacity test
    grow = [s for s in f.node.body if isinstance(s, ast.If) and
            any(isinstance(n, ast.Call) and isinstance(n.func, ast.Attribute) and
                n.func.attr == 'resize' for n in ast.walk(s))]
    tests = [s for s in grow if isinstance(s.test, ast.Compare) and len(s.test.ops) == 1 and
             isinstance(s.test.ops[0], (ast.Gt, ast.GtE))]
    narrowed = [s for s in grow if isinstance(s.test, ast.BoolOp) and
                isinstance(s.test.op, ast.And)]
    if len(tests) != 1 and len(grow) == 1 and narrowed:
        extra = [norm_text(v) for v in narrowed[0].test.values
                 if not (isinstance(v, ast.Compare) and isinstance(v.ops[0], (ast.Gt, ast.GtE)))]
        ctx.ob('BUF-BOUND', False, None, 'one capacity test with a growth branch', f=f,
               node=narrowed[0].test, key='cap-test',
               why='the buffers are grown only when additionally (%s) holds, but the kernel '
                   'call after it runs on every path and writes row offset + n: on the path '
                   'where that extra condition is false and the buffers are full the compiled '
                   'kernel writes past their end (no bounds check)' % ' and '.join(extra))
        return
    ctx.ob('BUF-BOUND', len(tests) == 1, None, 'one capacity test with a growth branch', f=f,
           node=f.node, key='cap-test', why='capacity test before the kernel call not found')
    if len(tests) != 1:
        return
    t = tests[0]
    body_i = f.node.body.index(t)
    ctx.ob('BUF-BOUND', body_i < f.node.body.index(st_call), None,
           'capacity test precedes the kernel call', f=f, node=t, key='cap-order',
           why='capacity is checked after the kernel has run')
    req = _lin(A, t.test.left, clo, t, atoms)
    size = _lin(A, t.test.comparators[0], clo, t, atoms)
    strict = isinstance(t.test.ops[0], ast.Gt)
    # else path: not (req > size)  => size >= req ;  not (req >= size) => size >= req + 1
    slack = A.sub(req, A.add(maxrow, A.const(1)))
    ok_else = A.is_const(slack) and A.const_of(slack) >= (0 if strict else -1)
    ctx.ob('BUF-BOUND', ok_else, None,
           'no-growth path: size >= required = %s >= max row + 1 = %s'
           % (norm_text(clo.expr(t.test.left, t)), A.key(A.add(maxrow, A.const(1)))), f=f,
           node=t.test, key='else-path',
           why='on the path where the buffers are not grown, size >= (%s) does not imply '
               'that row (%s) exists: the compiled kernel writes past the end of the buffers '
               '(no bounds check)' % (A.key(req), A.key(maxrow)))
    # buffers passed in write positions
    wbufs = [norm_text(call.args[i]) for i in (1, 2, 3)]
    # the size variable measures one of them
    size_t = norm_text(clo.expr(t.test.comparators[0], t))
    ctx.ob('BUF-SIBLING', any(size_t == 'len(%s)' % b for b in wbufs), None,
           'capacity is measured on a kernel buffer', f=f, node=t.test, key='size-of',
           why='capacity test compares with `%s`, which is not the length of a kernel buffer'
               % size_t)
    # growth branch
    resized = {}
    for n in ast.walk(t):
        if isinstance(n, ast.Call) and isinstance(n.func, ast.Attribute) and \
                n.func.attr == 'resize' and n.args:
            shp = n.args[0]
            first = shp.elts[0] if isinstance(shp, (ast.Tuple, ast.List)) and shp.elts else shp
            st_n = [s for s in t.body if any(x is n for x in ast.walk(s))]
            resized[norm_text(n.func.value)] = (first, st_n[0] if st_n else t, n)
    for b in wbufs:
        ctx.ob('BUF-SIBLING', b in resized, None, 'buffer %s is resized in the growth branch' % b,
               f=f, node=t, key='resized-' + b,
               why='%s is written by the kernel but not resized when capacity is exceeded' % b)
    news = set()
    for b, (first, st_n, n) in resized.items():
        e = Closure(f, root_body=f.node.body).expr(first, st_n)
        news.add(norm_text(e))
        okn = False
        if isinstance(e, ast.Call) and norm_text(e.func) == 'max':
            for a in e.args:
                try:
                    v = _lin(A, a, clo, t, atoms)
                    d = A.sub(v, A.add(maxrow, A.const(1)))
                    if A.is_const(d) and A.const_of(d) >= 0:
                        okn = True
                except Exception:
                    pass
        else:
            try:
                v = _lin(A, e, clo, t, atoms)
                d = A.sub(v, A.add(maxrow, A.const(1)))
                okn = A.is_const(d) and A.const_of(d) >= 0
            except Exception:
                okn = False
        ctx.ob('BUF-BOUND', okn, None, 'growth path: new length of %s >= max row + 1' % b, f=f,
               node=n, key='then-path-' + b,
               why='after growing, %s has length `%s`, which does not cover row (%s)'
                   % (b, norm_text(e), A.key(maxrow)))
    ctx.ob('BUF-SIBLING', len(news) <= 1, None, 'all buffers get the same new length', f=f,
           node=t, key='same-new', why='buffers are resized to different lengths: %s'
                                       % sorted(news))
    # equal initial capacity
    init = c.methods.get('__init__')
    ctx.need(init is not None, 'Integrator.__init__ not found')
    caps = {}
    for n in ast.walk(init.node):
        if isinstance(n, ast.Assign) and isinstance(n.targets[0], ast.Attribute) and \
                isinstance(n.value, ast.Call) and n.value.args and \
                isinstance(n.value.args[0], (ast.Tuple, ast.List)):
            caps[norm_text(n.targets[0])] = norm_text(n.value.args[0].elts[0])
    vals = {caps.get(b) for b in wbufs}
    ctx.ob('BUF-SIBLING', len(vals) == 1 and None not in vals, None,
           'buffers are allocated with equal capacity', f=init, key='init-cap',
           why='initial capacities differ: %s' % {b: caps.get(b) for b in wbufs})


def carrier(ctx):
    ctx.rule('CARRIER', 'constructor, set_pva and kernel each write every state carrier with '
             'the matching columns; set_pva writes the row the next kernel call reads')
    c, f, call = _integ(ctx)
    repo = ctx.repo
    bufs = [norm_text(call.args[i]) for i in (1, 2, 3)]          # self.lla, ...
    want = {bufs[0]: 'LLA_COLS', bufs[1]: 'VEL_COLS', bufs[2]: 'RPH_COLS'}
    A = Alg()
    for mname in ('__init__', 'set_pva'):
        m = c.methods.get(mname)
        ctx.need(m is not None, 'Integrator.%s not found' % mname)
        rows = {}
        for st in m.node.body:
            if isinstance(st, ast.Assign) and isinstance(st.targets[0], ast.Subscript):
                b = norm_text(st.targets[0].value)
                if b in want:
                    rows[b] = (st.targets[0].slice, st)
        if mname == '__init__':
            # `self.lla = np.full((size, 3), <state part>)`: every row, row 0 included, holds it
            for st in m.node.body:
                if isinstance(st, ast.Assign) and len(st.targets) == 1 and \
                        norm_text(st.targets[0]) in want and \
                        norm_text(st.targets[0]) not in rows and \
                        isinstance(st.value, ast.Call) and \
                        m.module.resolve(st.value.func, m.local_names()) == 'numpy.full' and \
                        len(st.value.args) >= 2:
                    syn = ast.Assign(targets=st.targets, value=st.value.args[1])
                    ast.copy_location(syn, st)
                    rows[norm_text(st.targets[0])] = (ast.Constant(0), syn)
        for b in bufs:
            ctx.ob('CARRIER', b in rows, None, '%s writes %s' % (mname, b), f=m,
                   key='%s-writes-%s' % (mname, b),
                   why='%s does not update %s: the carriers of the state get out of step'
                       % (mname, b))
            if b in rows:
                st = rows[b][1]
                v = st.value
                cols = [n for n in ast.walk(v) if isinstance(n, ast.Name) and
                        n.id.endswith('_COLS')]
                okc = len(cols) == 1 and cols[0].id == want[b]
                if b == bufs[2]:
                    okc = okc and any(isinstance(n, ast.Call) and
                                      m.module.resolve(n.func, m.local_names()) ==
                                      'pyins.transform.mat_from_rph' for n in ast.walk(v))
                ctx.ob('CARRIER', okc, None, '%s: %s <- %s' % (mname, b, want[b]), f=m, node=st,
                       why='%s stores `%s` into %s, expected the %s part of the state'
                           % (mname, norm_text(v), b, want[b]))
        # trajectory carrier
        tw = [st for st in m.node.body if isinstance(st, ast.Assign) and
              'self.trajectory' in norm_text(st.targets[0])]
        ctx.ob('CARRIER', len(tw) >= 1, None, '%s writes self.trajectory' % mname, f=m,
               key='%s-writes-traj' % mname,
               why='%s does not update the trajectory table' % mname)
        clo = Closure(m)
        if mname == '__init__':
            for b, (sl, st) in rows.items():
                ctx.ob('CARRIER', norm_text(sl) == '0', None, 'constructor writes row 0 of %s'
                       % b, f=m, node=st, why='constructor writes row %s' % norm_text(sl))
        else:
            atoms = set()
            fclo = Closure(f)
            st_call = [s for s in f.node.body if any(n is call for n in ast.walk(s))][0]
            off = _lin(A, call.args[6], fclo, st_call, atoms)
            for b, (sl, st) in rows.items():
                r = _lin(A, sl, clo, st, atoms)
                ctx.ob('CARRIER', A.eq(r, off), None,
                       'set_pva writes row %s of %s = row read by the next kernel call'
                       % (A.key(r), b), f=m, node=st,
                       why='set_pva overwrites row (%s) of %s but the next integration starts '
                           'from row (%s)' % (A.key(r), b, A.key(off)))
            for st in tw:
                t = st.targets[0]
                idx_ = t.slice if isinstance(t, ast.Subscript) else None
                if isinstance(idx_, ast.Name):
                    # a local bound once stands for its definition (`last = len(...) - 1`)
                    ds_ = [n_ for n_ in ast.walk(m.node) if isinstance(n_, ast.Assign) and
                           len(n_.targets) == 1 and isinstance(n_.targets[0], ast.Name) and
                           n_.targets[0].id == idx_.id]
                    idx_ = ds_[0].value if len(ds_) == 1 else idx_
                ok = isinstance(t, ast.Subscript) and idx_ is not None and \
                    _is_last(idx_, 'self.trajectory') and \
                    norm_text(t.value) == 'self.trajectory.iloc' and \
                    norm_text(st.value) == m.params[1]
                ctx.ob('CARRIER', ok, None, 'set_pva overwrites the last trajectory row with '
                       'the supplied state', f=m, node=st,
                       why='set_pva writes `%s`' % norm_text(st))
    # kernel writes all three (from ROW-REC evaluation)
    for wa in (True, False):
        kf, ev, pa = kernel_eval(ctx, wa)
        for role in ('lla', 'vel', 'mat'):
            n_el = 9 if role == 'mat' else 3
            got = {k[1:] for k in pa[role].stores}
            ctx.ob('CARRIER', len(got) == n_el, None,
                   'kernel writes all %d elements of the next %s row (with_altitude=%s)'
                   % (n_el, role, wa), f=kf, key='kernel-%s-%s' % (role, wa),
                   why='kernel writes %d of %d elements of %s' % (len(got), n_el, role))


def predict_eff(ctx):
    ctx.rule('PREDICT-EFF', "self.trajectory is stored only under mode == 'integrate'; predict "
             "passes 'predict'")
    ctx.rule('TAIL-SLICE', 'appended rows = buffer slice [n_data : n_data + n_readings] indexed '
             'by increments.index; integrate returns the last n_readings + 1 rows')
    c, f, call = _integ(ctx)
    A = Alg()
    clo = Closure(f)
    mode = f.params[2] if len(f.params) > 2 else None
    ctx.need(mode is not None, '_integrate has no mode parameter')
    stores = []

    def visit(block, conds):
        for st in block:
            if isinstance(st, (ast.Assign, ast.AugAssign)):
                tg = st.targets if isinstance(st, ast.Assign) else [st.target]
                for t in tg:
                    if 'self.trajectory' in norm_text(t):
                        stores.append((st, list(conds)))
            elif isinstance(st, ast.Expr) and 'self.trajectory' in norm_text(st) and \
                    isinstance(st.value, ast.Call) and 'inplace' in norm_text(st):
                stores.append((st, list(conds)))
            if isinstance(st, ast.If):
                visit(st.body, conds + [(st.test, True)])
                # elif chain: the else arm is reached when the test is false
                visit(st.orelse, conds + [(st.test, False)])
            elif isinstance(st, (ast.For, ast.While)):
                visit(st.body, conds)
    visit(f.node.body, [])
    ctx.ob('PREDICT-EFF', len(stores) >= 1, None, 'integrate mode appends to the trajectory',
           f=f, key='has-store', why='no store to self.trajectory in %s' % f.qualname)
    for st, conds in stores:
        ok = any(pos and norm_text(t) in ("%s == 'integrate'" % mode,
                                          "'integrate' == %s" % mode) for t, pos in conds)
        ctx.ob('PREDICT-EFF', ok, None, "store to self.trajectory is guarded by mode == "
               "'integrate'", f=f, node=st,
               why='self.trajectory is modified on the predict path: predict changes the '
                   'observable state')
    for mname, const in (('integrate', 'integrate'), ('predict', 'predict')):
        m = c.methods.get(mname)
        ctx.need(m is not None, 'Integrator.%s not found' % mname)
        cs = [n for n in ast.walk(m.node) if isinstance(n, ast.Call) and
              norm_text(n.func) == 'self.' + f.name]
        ok = len(cs) == 1 and len(cs[0].args) == 2 and \
            isinstance(cs[0].args[1], ast.Constant) and cs[0].args[1].value == const
        ctx.ob('PREDICT-EFF', ok, None, "%s calls %s(..., '%s')" % (mname, f.name, const), f=m,
               key='mode-' + mname, why="%s does not run %s in mode '%s'" % (mname, f.name, const))
        # no other state writes in the public wrappers
        other = [n for n in ast.walk(m.node) if isinstance(n, (ast.Assign, ast.AugAssign)) and
                 'self.' in norm_text(n.targets[0] if isinstance(n, ast.Assign) else n.target)]
        ctx.ob('PREDICT-EFF', not other, None, '%s itself stores nothing on self' % mname, f=m,
               key='nostore-' + mname, why='%s writes object state directly' % mname)
    # TAIL-SLICE
    atoms = set()
    st_call = [s for s in f.node.body if any(n is call for n in ast.walk(s))][0]
    off = _lin(A, call.args[6], clo, st_call, atoms)
    n_data = A.add(off, A.const(1))
    table = None
    for p in f.params[1:]:
        if p in norm_text(call.args[4]) or p in clo.text(call.args[4], st_call):
            table = p
    ctx.need(table is not None, 'increments parameter not identified')
    nread = A.sym('len(%s)' % table)
    # rows used to build the new frame
    slices = []
    after = f.node.body[f.node.body.index(st_call) + 1:]
    for st in after:
        for n in ast.walk(st):
            if isinstance(n, ast.Subscript) and isinstance(n.slice, ast.Slice) and \
                    norm_text(n.value) in [norm_text(call.args[i]) for i in (1, 2, 3)]:
                slices.append((n, st))
    # only loads count as "rows used"; a store into a kernel buffer after the kernel ran is
    # a different matter (below)
    slices = [(n, st) for n, st in slices if not isinstance(n.ctx, ast.Store)]
    ctx.ob('TAIL-SLICE', len(slices) == 3, None, 'new rows are read from all three buffers', f=f,
           key='three-slices', why='%d buffer slices used to build the new rows' % len(slices))
    bufnames = [norm_text(call.args[i]) for i in (1, 2, 3)]
    late = []
    for st in after:
        for n in ast.walk(st):
            if isinstance(n, (ast.Assign, ast.AugAssign)):
                for t in (n.targets if isinstance(n, ast.Assign) else [n.target]):
                    b_ = t
                    while isinstance(b_, ast.Subscript):
                        b_ = b_.value
                    if isinstance(t, ast.Subscript) and norm_text(b_) in bufnames:
                        late.append((t, st))
    ctx.ob('TAIL-SLICE', not late, None, 'the kernel buffers are not modified after the kernel ran',
           f=f, node=(late[0][1] if late else st_call), key='no-write-back',
           why='`%s` writes into a kernel buffer after the kernel has produced the rows: the next '
               'call continues from values that differ (in the last bits) from the ones a single '
               'call would have carried on with, so the trajectory depends on where the '
               'increments were split' % (norm_text(late[0][1])[:90] if late else ''))
    for n, st in slices:
        lo = _lin(A, n.slice.lower, clo, st, atoms) if n.slice.lower else A.const(0)
        hi = _lin(A, n.slice.upper, clo, st, atoms) if n.slice.upper else None
        ok = A.eq(lo, n_data) and hi is not None and A.eq(hi, A.add(n_data, nread))
        ctx.ob('TAIL-SLICE', ok, None, 'rows [n_data : n_data + n_readings] of %s'
               % norm_text(n.value), f=f, node=n,
               why='new trajectory rows are taken from %s, expected rows [n_data : n_data + '
                   'n_readings] (the rows the kernel just wrote)' % norm_text(n))
    # index of the new frame
    frames = [n for n in ast.walk(f.node) if isinstance(n, ast.Call) and
              f.module.resolve(n.func, f.local_names()) == 'pandas.DataFrame']
    for n in frames:
        idx = [kw.value for kw in n.keywords if kw.arg == 'index']
        cols = [kw.value for kw in n.keywords if kw.arg == 'columns']
        ctx.ob('TAIL-SLICE', bool(idx) and norm_text(idx[0]) == '%s.index' % table, None,
               'new rows are stamped with increments.index', f=f, node=n, key='index',
               why='new rows are not indexed by the increment times')
        okc = False
        whyc = 'new rows do not carry the documented Trajectory columns'
        if cols:
            try:
                okc = repo_cols(ctx, f, cols[0]) == ctx.repo.const('util.TRAJECTORY_COLS')
            except ValueError:
                okc = False
                whyc = ('the labels of the new rows are `%s`, a run-time value: the data is '
                        'stacked positionally (lla, velocity, rph), so the labels must be the '
                        'constant Trajectory column list - with the labels of an input object '
                        '(an initial Pva whose index is in another order) the altitude lands in '
                        'another column' % norm_text(cols[0])[:50])
        ctx.ob('TAIL-SLICE', okc, None, 'new rows carry the Trajectory columns', f=f, node=n,
               key='columns', why=whyc)
    # concat + returned tail
    for st, conds in stores:
        if isinstance(st, ast.Assign):
            v = st.value
            ok = isinstance(v, ast.Call) and f.module.resolve(v.func, f.local_names()) == \
                'pandas.concat' and v.args and isinstance(v.args[0], (ast.List, ast.Tuple)) \
                and len(v.args[0].elts) == 2 and \
                norm_text(v.args[0].elts[0]) == 'self.trajectory'
            # keywords: the ones that leave "rows appended, time index kept" alone are fine; the
            # ones that renumber the rows or glue the tables side by side are not; anything else
            # is not decided here
            kw_bad = None
            if ok:
                for kw in v.keywords:
                    try:
                        val = ctx.repo.fold(kw.value, f.module, f.cls)
                    except ValueError:
                        val = '?'
                    harmless = (kw.arg, val) in (('axis', 0), ('ignore_index', False),
                                                 ('sort', False), ('join', 'outer')) or \
                        kw.arg in ('copy', 'verify_integrity')
                    if harmless:
                        continue
                    ctx.need((kw.arg, val) in (('ignore_index', True), ('axis', 1),
                                               ('axis', 'columns'), ('join', 'inner')),
                             '_integrate: concat keyword %s=%s not decided' % (kw.arg, val))
                    kw_bad = '%s=%s' % (kw.arg, val)
            ctx.ob('TAIL-SLICE', ok and kw_bad is None, None,
                   'trajectory <- concat([trajectory, new rows]), time index kept', f=f,
                   node=st, key='concat',
                   why='trajectory is updated by `%s`%s' % (
                       norm_text(v), (': with %s the rows are not appended under their own time '
                                      'stamps' % kw_bad) if kw_bad else ''))
    def deref(e):
        # a local bound exactly once stands for its definition
        if isinstance(e, ast.Name):
            ds = [n for n in walk_no_nested_funcs(f.node) if isinstance(n, ast.Assign) and
                  len(n.targets) == 1 and isinstance(n.targets[0], ast.Name) and
                  n.targets[0].id == e.id]
            if len(ds) == 1 and e.id not in f.params:
                return ds[0].value
        return e
    all_rets = [n for n in walk_no_nested_funcs(f.node) if isinstance(n, ast.Return) and
                n.value is not None]
    rets = [n for n in all_rets if 'self.trajectory' in norm_text(deref(n.value))]
    if not rets:
        # recognisably something else: the frame of the new rows alone handed out under the
        # integrate mode; any other shape is not read by this rule
        new_only = [n for n in all_rets if isinstance(deref(n.value), ast.Call) and
                    f.module.resolve(deref(n.value).func, f.local_names()) == 'pandas.DataFrame']
        ctx.need(len(new_only) >= 2 or not all_rets,
                 'Integrator._integrate: what the integrate mode returns is not read')
    ctx.ob('TAIL-SLICE', len(rets) == 1, None, 'integrate mode returns a slice of the trajectory',
           f=f, key='ret', why='integrate mode does not return a tail of self.trajectory')
    for rn in rets:
        v = deref(rn.value)
        ok = False
        if isinstance(v, ast.Subscript) and norm_text(v.value) == 'self.trajectory.iloc' and \
                isinstance(v.slice, ast.Slice) and v.slice.upper is None and v.slice.lower:
            lo = _lin(A, v.slice.lower, clo, rn, atoms)
            ok = A.eq(lo, A.neg(A.add(nread, A.const(1))))
        ctx.ob('TAIL-SLICE', ok, None, 'returned tail starts at -(n_readings + 1)', f=f, node=rn,
               why='integrate returns `%s`; expected the previous last row followed by the '
                   'appended rows' % norm_text(v))


def repo_cols(ctx, f, node):
    return ctx.repo.fold(node, f.module, f.cls)


# ------------------------------------------------------------------ ALT-FREEZE
class _IH:
    def __init__(self):
        self.traj_store = None

    def call(self, ev, q, node, args, kwargs, env):
        A = ev.A
        if q == 'pyins.transform.mat_from_rph':
            return SArray((3, 3), {(a, b): A.sym('C%d%d' % (a, b)) for a in range(3)
                                   for b in range(3)})
        if q == 'builtins.len':
            v = args[0]
            if isinstance(v, Opaque) and v.tag == 'trajectory':
                return A.sym('n_data')
        return NotImplemented

    def attr(self, ev, base, a, node):
        if isinstance(base, Opaque) and base.tag == 'trajectory':
            return Opaque('trajectory.' + a)
        return None

    def store(self, ev, base, idx, v, node):
        if isinstance(base, Opaque) and base.tag.startswith('trajectory.'):
            self.traj_store = (idx, v)

    choice = None
    data_test = None

    def branch(self, ev, st, env):
        return _data_branch(self, ev, st, env)


def _data_branch(self, ev, st, env):
    """data-dependent tests on the supplied state (e.g. `if abs(pva.VD) > 0:`): the rule runs
    one evaluation per outcome (self.choice) and records the deciding conjunct"""
    if True:
        if self.choice is None:
            return None
        test = st.test
        conj = test.values if isinstance(test, ast.BoolOp) and isinstance(test.op, ast.And) \
            else [test]
        dep = None
        for c_ in conj:
            try:
                t = ev.truth(ev.eval(c_, env))
            except Unsupported:
                t = None
            if t is False:
                return False
            if t is None:
                if dep is not None:
                    return None
                dep = c_
        if dep is None:
            return True
        self.data_test = dep
        return self.choice


def alt_freeze(ctx):
    ctx.rule('ALT-FREEZE', 'with_altitude=False: every writer of the velocity carrier stores a '
             'zero vertical velocity, and the altitude written is a copy of the previous one')
    repo = ctx.repo
    c = repo.klass('strapdown.Integrator')
    # (a) kernel
    kf, ev, pa = kernel_eval(ctx, False)
    A = ev.A
    rk1 = next(iter({k[0] for k in pa['vel'].stores}))
    # current row: the row the kernel loads its state from (the most frequent load row; a
    # stray load of another row - e.g. row 0 - must not be mistaken for it)
    cnt = {}
    for rk, _, _ in pa['lla'].load_log + pa['vel'].load_log:
        if rk != rk1:
            cnt[rk] = cnt.get(rk, 0) + 1
    ctx.need(cnt, 'kernel loads no state row')
    rk0 = max(sorted(cnt), key=lambda k: cnt[k])
    vd = pa['vel'].stores.get((rk1, 2))
    node = [n for rk, idx, v, n in pa['vel'].store_log if idx == (2,)][-1]
    ctx.ob('ALT-FREEZE', vd is not None and A.is_zero(ev.expand(vd)), None,
           'kernel stores vertical velocity 0', f=kf, node=node, key='kernel-vd',
           why='kernel writes a non-zero vertical velocity when altitude is switched off')
    alt = pa['lla'].stores.get((rk1, 2))
    node = [n for rk, idx, v, n in pa['lla'].store_log if idx == (2,)][-1]
    okalt = False
    if alt is not None:
        full = ev.expand(alt)
        # reload atoms of the just-written vertical velocity -> stored value (0)
        # a reload of the vertical velocity written in this step stands for the value of the
        # store it was read after (unsuffixed atom: the first store, `@n`: the n-th)
        vds_ = [v_ for r_, i_, v_, _n in pa['vel'].store_log if r_ == rk1 and tuple(i_) == (2,)]
        nm_ = '%s[%s,2]' % (pa['vel'].name, rk1)
        mp = {'%s[%s,2]' % (pa['vel'].name, rk0): A.const(0)}      # inductive fact: stored VD = 0
        for n_, v_ in enumerate(vds_, 1):
            mp[nm_ if n_ == 1 else '%s@%d' % (nm_, n_)] = A.subst(ev.expand(v_), mp)
        full = A.subst(full, mp)
        okalt = A.eq(full, A.sym('%s[%s,2]' % (pa['lla'].name, rk0)))
    ctx.ob('ALT-FREEZE', okalt, None, 'kernel: altitude[j+1] = altitude[j] given stored VD = 0',
           f=kf, node=node, key='kernel-alt',
           why='kernel does not copy the altitude of the current row when the stored vertical '
               'velocity is zero (it changes it, or takes it from another row such as row 0: '
               'after set_pva with a new altitude the old one comes back)')
    # (b) constructor
    init = c.methods['__init__']
    ev2 = SymEval(repo, Alg(), hooks=_IH())
    A2 = ev2.A
    pva = Rec({k: A2.sym(k) for k in repo.const('util.TRAJECTORY_COLS')}, 'series')
    o = Obj(c)
    try:
        ev2.call_function(init, [pva, False], {}, o)
    except Unsupported as e:
        raise AnalysisError('Integrator.__init__ not analysable: %s' % e)
    _, f_int, call = _integ(ctx)
    vname = norm_text(call.args[2]).split('.')[-1]
    lname = norm_text(call.args[1]).split('.')[-1]
    vel = o.attrs.get(vname)
    ok = isinstance(vel, SArray) and (0, 2) in vel.entries and A2.is_zero(vel.entries[(0, 2)])
    ctx.ob('ALT-FREEZE', ok, None, 'constructor stores vertical velocity 0 in row 0', f=init,
           key='init-vd', why='constructor keeps the supplied vertical velocity in the velocity '
                              'buffer when altitude is switched off')
    tr = o.attrs.get('trajectory')
    ok = isinstance(tr, Rec) and isinstance(tr.cols.get('VD'), (Rat, int, float)) and \
        A2.is_zero(ev2.rat(tr.cols['VD']))
    ctx.ob('ALT-FREEZE', ok, None, 'constructor stores vertical velocity 0 in the trajectory',
           f=init, key='init-traj', why='first trajectory row keeps a non-zero vertical velocity')
    ok = isinstance(pva.cols['VD'], Rat) and A2.eq(pva.cols['VD'], A2.sym('VD'))
    ctx.ob('ALT-FREEZE', ok, None, "constructor leaves the caller's state untouched", f=init,
           key='init-pure', why="constructor zeroes VD in the caller's Series")
    # (c) set_pva - one evaluation per outcome of a test on the supplied state
    sp = c.methods['set_pva']

    def run_setpva(choice):
        h_ = _IH()
        h_.choice = choice
        ev_ = SymEval(repo, Alg(), hooks=h_)
        A_ = ev_.A
        pva_ = Rec({k: A_.sym(k) for k in repo.const('util.TRAJECTORY_COLS')}, 'series')
        o_ = Obj(c)
        o_.attrs['with_altitude'] = False
        bufs_ = {}
        for role, i in (('lla', 1), ('vel', 2), ('mat', 3)):
            nm = norm_text(call.args[i]).split('.')[-1]
            bufs_[role] = PArr(nm, (3, 3) if role == 'mat' else (3,))
            o_.attrs[nm] = bufs_[role]
        o_.attrs['trajectory'] = Opaque('trajectory')
        ev_.call_function(sp, [pva_], {}, o_)
        return h_, ev_, A_, pva_, bufs_
    try:
        h, ev3, A3, pva3, bufs = run_setpva(None)
        cases = [(None, h, ev3, A3, pva3, bufs)]
    except Unsupported:
        try:
            cases = [(ch,) + run_setpva(ch) for ch in (True, False)]
        except Unsupported as e:
            raise AnalysisError('Integrator.set_pva not analysable: %s' % e)
    for ch, h, ev3, A3, pva3, bufs in cases:
        tag = '' if ch is None else ' [`%s` is %s]' % (norm_text(h.data_test)[:40], ch)
        # what a false test tells about the supplied value under IEEE semantics: only an
        # inequality test `x != 0` guarantees x == 0 when false (it is true for NaN);
        # `abs(x) > 0`, `x > 0 or x < 0`, ... are false for NaN as well
        implied = {}
        if ch is False and isinstance(h.data_test, ast.Compare) and \
                len(h.data_test.ops) == 1 and isinstance(h.data_test.ops[0], ast.NotEq):
            l_, r_ = h.data_test.left, h.data_test.comparators[0]
            for x_, y_ in ((l_, r_), (r_, l_)):
                if isinstance(y_, ast.Constant) and y_.value == 0 and \
                        norm_text(x_).replace("['", '.').replace("']", '').endswith('.VD'):
                    implied = {'VD': A3.const(0)}
        sub = (lambda v: A3.subst(v, implied)) if implied else (lambda v: v)
        vds = [sub(v) for k, v in bufs['vel'].stores.items() if k[1:] == (2,)]
        why_nan = ''
        if ch is False and not implied:
            why_nan = (' (when `%s` is false the value is stored as supplied; the test is false '
                       'for NaN too, which is neither zero nor neutralised)'
                       % norm_text(h.data_test)[:40])
        ctx.ob('ALT-FREEZE', len(vds) == 1 and A3.is_zero(vds[0]), None,
               'set_pva stores vertical velocity 0' + tag, f=sp, key='setpva-vd' + tag,
               why='set_pva copies the supplied vertical velocity verbatim when altitude is '
                   'switched off: the next step averages it into the altitude' + why_nan)
        ts = h.traj_store
        ok = ts is not None and isinstance(ts[1], Rec) and \
            A3.is_zero(sub(ev3.rat(ts[1].cols.get('VD', A3.sym('?')))))
        ctx.ob('ALT-FREEZE', ok, None, 'set_pva stores vertical velocity 0 in the trajectory row'
               + tag, f=sp, key='setpva-traj' + tag,
               why='the overwritten trajectory row keeps a non-zero vertical velocity' + why_nan)
    ok = ts is not None and isinstance(ts[1], Rec) and \
        A3.eq(ev3.rat(ts[1].cols.get('alt', A3.const(0))), A3.sym('alt'))
    alts = [v for k, v in bufs['lla'].stores.items() if k[1:] == (2,)]
    ok = ok and len(alts) == 1 and A3.eq(alts[0], A3.sym('alt'))
    ctx.ob('ALT-FREEZE', ok, None, 'set_pva stores the supplied altitude', f=sp,
           key='setpva-alt', why='set_pva does not store the supplied altitude')
    ok = A3.eq(ev3.rat(pva3.cols['VD']), A3.sym('VD'))
    ctx.ob('ALT-FREEZE', ok, None, "set_pva leaves the caller's state untouched", f=sp,
           key='setpva-pure', why="set_pva modifies the caller's Series")


# --------------------------------------------------------------------- ES-COPY
class _CH:
    def call(self, ev, q, node, args, kwargs, env):
        A = ev.A
        if q == 'pyins.transform.mat_from_rph':
            return SArray((3, 3), {(a, b): A.sym('C%d%d' % (a, b)) for a in range(3)
                                   for b in range(3)})
        if q == 'pyins.transform.mat_to_rph':
            return SArray((3,), {(i,): A.sym('rph_out%d' % i) for i in range(3)})
        if q == 'pandas.Series':
            self.series = (args, kwargs)
            return Opaque('Series')
        return NotImplemented

    def attr(self, ev, base, a, node):
        if isinstance(base, Opaque) and base.tag == 'extcall' and \
                base.parts[0].endswith('Rotation.from_rotvec') and a == 'as_matrix':
            return Opaque('as_matrix', base)
        return None


def es_copy(ctx):
    ctx.rule('ES-COPY', 'with_altitude=False: correct_pva returns altitude and vertical velocity '
             'of its input unchanged, for every error vector')
    repo = ctx.repo
    emc = repo.klass('error_model.InsErrorModel')
    cp = emc.methods.get('correct_pva')
    ctx.need(cp is not None, 'InsErrorModel.correct_pva not found')
    h = _CH()
    h.summaries = True
    ev = SymEval(repo, Alg(), hooks=h)
    A = ev.A
    # Rotation.from_rotvec(v).as_matrix() -> unknown rotation matrix M (atoms)
    orig_call = ev.e_Call

    def e_call(node, env):
        if isinstance(node.func, ast.Attribute) and node.func.attr == 'as_matrix':
            return SArray((3, 3), {(a, b): A.sym('M%d%d' % (a, b)) for a in range(3)
                                   for b in range(3)})
        return orig_call(node, env)
    ev.e_Call = e_call
    em = Obj(emc)
    ev.call_function(emc.methods['__init__'], [False], {}, em)
    pva = Rec({k: A.sym(k) for k in repo.const('util.TRAJECTORY_COLS')}, 'series')
    x = SArray((7,), {(i,): A.sym('x%d' % i) for i in range(7)})
    try:
        ev.call_function(cp, [pva, x], {}, em)
    except Unsupported as e:
        raise AnalysisError('correct_pva not analysable: %s' % e)
    ctx.need(getattr(h, 'series', None) is not None, 'correct_pva does not build a Series')
    args, kwargs = h.series
    data = kwargs.get('data', args[0] if args else None)
    ctx.need(isinstance(data, SArray) and data.shape == (9,), 'correct_pva result not recognised')
    cols = repo.const('util.TRAJECTORY_COLS')
    ia, iv = cols.index('alt'), cols.index('VD')
    ctx.ob('ES-COPY', A.eq(data.get((ia,)), A.sym('alt')), None,
           'corrected altitude == input altitude', f=cp, key='alt',
           why='2-D correction changes the altitude')
    ctx.ob('ES-COPY', A.eq(data.get((iv,)), A.sym('VD')), None,
           'corrected vertical velocity == input vertical velocity', f=cp, key='vd',
           why='2-D correction changes the vertical velocity')


def es_2drows(ctx):
    ctx.rule('ES-2DROWS', 'with_altitude=False: rows down / VD of transform_to_output are '
             'identically zero; both filters compute sd through transform_to_output')
    repo = ctx.repo
    emc = repo.klass('error_model.InsErrorModel')
    to = emc.methods.get('transform_to_output')
    ctx.need(to is not None, 'transform_to_output not found')
    ev = SymEval(repo, Alg())
    A = ev.A
    em = Obj(emc)
    ev.call_function(emc.methods['__init__'], [False], {}, em)
    pva = Rec({k: A.sym(k) for k in repo.const('util.TRAJECTORY_COLS')}, 'series')
    try:
        T = ev.call_function(to, [pva], {}, em)
    except Unsupported as e:
        raise AnalysisError('transform_to_output not analysable: %s' % e)
    ctx.need(isinstance(T, SArray) and T.shape == (9, 7), 'transform_to_output shape %s'
             % (getattr(T, 'shape', None),))
    cols = repo.const('util.TRAJECTORY_ERROR_COLS')
    for name in ('down', 'VD'):
        r = cols.index(name)
        ok = all(A.is_zero(T.get((r, k))) for k in range(7))
        ctx.ob('ES-2DROWS', ok, None, "row '%s' of the 2-D output transform is zero" % name,
               f=to, key='row-' + name,
               why="2-D output transform has a non-zero '%s' row: a non-zero standard "
                   "deviation is reported for a component that is not estimated" % name)
    for fn in ('filters._compute_sd', 'filters._compute_feedforward_result'):
        f = repo.function(fn)
        ok = any(isinstance(n, ast.Call) and isinstance(n.func, ast.Attribute) and
                 n.func.attr == 'transform_to_output' for n in ast.walk(f.node)) and \
            any(isinstance(n, ast.Call) and f.module.resolve(n.func, f.local_names()) ==
                'pyins.util.mm_prod_symmetric' for n in ast.walk(f.node))
        ctx.ob('ES-2DROWS', ok, None, '%s: sd = sqrt(diag(T P T^T)) with T = '
               'transform_to_output' % fn, f=f, key='sd-' + fn,
               why='%s does not compute the standard deviations through '
                   'transform_to_output' % fn)


# ---------------------------------------------------------------- CARRIER-SYNC
from ..rotmodel import RotHooks          # noqa: E402


class _SH(RotHooks):
    choice = None
    data_test = None

    def __init__(self):
        self.traj_store = None

    def branch(self, ev, st, env):
        return _data_branch(self, ev, st, env)

    def call(self, ev, q, node, args, kwargs, env):
        r = RotHooks.call(self, ev, q, node, args, kwargs, env)
        if r is not NotImplemented:
            return r
        if q == 'builtins.len':
            v = args[0]
            if isinstance(v, Opaque) and v.tag == 'trajectory':
                return ev.A.sym('n_data')
        return NotImplemented

    def attr(self, ev, base, a, node):
        if isinstance(base, Opaque) and base.tag == 'trajectory':
            return Opaque('trajectory.' + a)
        return RotHooks.attr(self, ev, base, a, node)

    def store(self, ev, base, idx, v, node):
        if isinstance(base, Opaque) and base.tag.startswith('trajectory.'):
            self.traj_store = (idx, v)


def carrier_sync(ctx):
    ctx.rule('CARRIER-SYNC', 'constructor and set_pva leave every carrier holding the SAME state: '
             'buffer rows == the trajectory row just written (position, velocity, attitude '
             'matrix of its Euler angles), in both altitude modes')
    repo = ctx.repo
    c, f_int, call = _integ(ctx)
    names = {role: norm_text(call.args[i]).split('.')[-1]
             for role, i in (('lla', 1), ('vel', 2), ('mat', 3))}
    tcols = repo.const('util.TRAJECTORY_COLS')
    groups = {'lla': repo.const('util.LLA_COLS'), 'vel': repo.const('util.VEL_COLS')}
    rph_c = repo.const('util.RPH_COLS')
    mfr = repo.function('transform.mat_from_rph')
    todo = [(wa, mname, None) for wa in (True, False) for mname in ('__init__', 'set_pva')]
    while todo:
        wa, mname, choice = todo.pop(0)
        if True:
            m = c.methods[mname]
            h = _SH()
            h.choice = choice
            ev = SymEval(repo, Alg(), hooks=h)
            A = ev.A
            pva = Rec({k: A.sym(k) for k in tcols}, 'series')
            o = Obj(c)
            rows = {}
            try:
                if mname == '__init__':
                    ev.call_function(m, [pva, wa], {}, o)
                    traj = o.attrs.get('trajectory')
                    for role, nm in names.items():
                        arr = o.attrs.get(nm)
                        if isinstance(arr, SArray):
                            rows[role] = {k[1:]: v for k, v in arr.entries.items() if k[0] == 0}
                else:
                    o.attrs['with_altitude'] = wa
                    bufs = {}
                    for role, nm in names.items():
                        bufs[role] = PArr(nm, (3, 3) if role == 'mat' else (3,))
                        o.attrs[nm] = bufs[role]
                    o.attrs['trajectory'] = Opaque('trajectory')
                    ev.call_function(m, [pva], {}, o)
                    traj = h.traj_store[1] if h.traj_store else None
                    for role in names:
                        rows[role] = {k[1:]: v for k, v in bufs[role].stores.items()}
            except Unsupported as e:
                if choice is None:
                    # a test on the supplied state: one evaluation per outcome
                    todo[:0] = [(wa, mname, True), (wa, mname, False)]
                    continue
                raise AnalysisError('Integrator.%s not analysable: %s' % (mname, e))
            ctx.need(isinstance(traj, Rec), 'Integrator.%s: trajectory row not recognised' % mname)
            if choice is not None:
                wa = '%s, `%s` is %s' % (wa, norm_text(h.data_test)[:30] if h.data_test is not None
                                         else '?', choice)
            for role, cols in groups.items():
                ok = all((i,) in rows.get(role, {}) and
                         A.eq(rows[role][(i,)], ev.rat(traj.cols[cname]))
                         for i, cname in enumerate(cols))
                ctx.ob('CARRIER-SYNC', ok, None, '%s (with_altitude=%s): %s buffer row == %s of the '
                       'trajectory row' % (mname, wa, names[role], cols), f=m,
                       key='%s-%s-%s' % (mname, role, wa),
                       why='%s (with_altitude=%s) stores one state in self.%s and a different one in '
                           'self.trajectory: the kernel continues from values that get_pva() does '
                           'not show' % (mname, wa, names[role]))
            vec = SArray((3,), {(i,): ev.rat(traj.cols[k]) for i, k in enumerate(rph_c)})
            want = SymEval(repo, A, hooks=_SH()).call_function(mfr, [vec])
            ok = all((i, j) in rows.get('mat', {}) and A.eq(rows['mat'][(i, j)], want.get((i, j)))
                     for i in range(3) for j in range(3))
            ctx.ob('CARRIER-SYNC', ok, None, '%s (with_altitude=%s): %s row == mat_from_rph of the '
                   'trajectory row' % (mname, wa, names['mat']), f=m,
                   key='%s-mat-%s' % (mname, wa),
                   why='%s (with_altitude=%s): attitude matrix buffer does not match the Euler '
                       'angles stored in the trajectory' % (mname, wa))


def _is_last(e, table_txt):
    """index expression denoting the last row: -1 or len(<table>) - 1"""
    if isinstance(e, ast.UnaryOp) and isinstance(e.op, ast.USub) and \
            isinstance(e.operand, ast.Constant) and e.operand.value == 1:
        return True
    t = norm_text(e).replace(' ', '')
    return t in ('len(%s)-1' % table_txt, 'len(%s.index)-1' % table_txt,
                 '%s.shape[0]-1' % table_txt)


def last_row(ctx):
    """The accessors of the integrator address the latest row: the schedulers take
    get_time() / get_pva() as 'the state after the last applied increment'."""
    ctx.rule('LAST-ROW', 'Integrator.get_time returns the last time stamp and get_pva the last row '
             'of self.trajectory (the row set_pva overwrites and the next call continues from)')
    c = ctx.repo.klass('strapdown.Integrator')
    n = 0
    for mname, attr, what in (('get_time', 'index', 'time stamp'), ('get_pva', 'iloc', 'row')):
        m = c.methods.get(mname)
        ctx.need(m is not None, 'Integrator.%s missing' % mname)
        ctx.single_exit(m)
        rets = [s for s in ast.walk(m.node) if isinstance(s, ast.Return)]
        ctx.need(len(rets) == 1 and rets[0].value is not None, 'Integrator.%s: return' % mname)
        v = rets[0].value
        # strip value wrappers: float(x), np.asarray(x), x.copy()
        while True:
            if isinstance(v, ast.Call) and len(v.args) == 1 and not v.keywords and \
                    norm_text(v.func) in ('float', 'np.asarray', 'np.float64'):
                v = v.args[0]
            elif isinstance(v, ast.Call) and isinstance(v.func, ast.Attribute) and \
                    v.func.attr == 'copy' and not v.args:
                v = v.func.value
            else:
                break
        ok_shape = isinstance(v, ast.Subscript) and isinstance(v.value, ast.Attribute)
        base = v.value if ok_shape else None
        if ok_shape and base.attr == 'values' and isinstance(base.value, ast.Attribute):
            base = base.value
        ctx.need(ok_shape and base.attr in (attr, 'loc') and
                 norm_text(base.value) == 'self.trajectory',
                 'Integrator.%s does not return an element of self.trajectory.%s: `%s`'
                 % (mname, attr, norm_text(rets[0].value)[:60]))
        sl = v.slice
        if base.attr == 'loc':
            # .loc[self.trajectory.index[LAST]]
            ctx.need(isinstance(sl, ast.Subscript) and
                     norm_text(sl.value) == 'self.trajectory.index',
                     'Integrator.%s: label form not recognised' % mname)
            sl = sl.slice
        n += 1
        if not _is_last(sl, 'self.trajectory'):
            # a recognisable other row is a finding; anything else is not judged
            txt = norm_text(sl).replace(' ', '')
            known_other = (isinstance(sl, ast.Constant) and isinstance(sl.value, int)) or \
                (isinstance(sl, ast.UnaryOp) and isinstance(sl.operand, ast.Constant)) or \
                txt.startswith('len(self.trajectory)-')
            ctx.need(known_other, 'Integrator.%s: row expression `%s` not recognised'
                     % (mname, norm_text(sl)[:50]))
        ctx.ob('LAST-ROW', _is_last(sl, 'self.trajectory'), None,
               '%s returns the last %s of self.trajectory' % (mname, what), f=m, node=rets[0],
               key=mname,
               why='%s returns element `%s` of self.trajectory.%s, not the last %s: callers '
                   '(filters, chunked integration) continue from a stale state/time'
                   % (mname, norm_text(sl), attr, what))
    ctx.floor('LAST-ROW', n, 2, 'accessors')


def wa_forward(ctx):
    """The altitude mode chosen by the caller reaches every component: a function that has a
    `with_altitude` parameter passes it on to every callee / constructor that has one (otherwise
    the component silently runs in its default 3-D mode: the integrator keeps integrating the
    vertical channel, the error model keeps its vertical states)."""
    ctx.rule('WA-FORWARD', 'every function with a with_altitude parameter forwards it to each callee '
             'or constructor that accepts one')
    from ..model import FunctionInfo, ClassInfo
    repo = ctx.repo
    n = 0
    for f in repo.all_functions():
        own = 'with_altitude' in f.params + f.kwonly
        # a method of a class whose constructor takes the mode (and keeps it in self.with_altitude)
        # is under the same obligation: it passes the stored mode on (hand-made probe, sixth
        # session: the kernel called with a literal True from Integrator._integrate)
        ctor = f.cls.methods.get('__init__') if f.cls is not None else None
        stored = ctor is not None and 'with_altitude' in ctor.params + ctor.kwonly and \
            f.name != '__init__' and not f.is_static
        if not (own or stored):
            continue
        for call in ast.walk(f.node):
            if not isinstance(call, ast.Call):
                continue
            q = f.module.resolve(call.func, f.local_names())
            tgt = repo.lookup(q) if q and q.startswith('pyins') else None
            h = None
            if isinstance(tgt, ClassInfo):
                h = repo.class_member(tgt, '__init__')
                params = h.params[1:] if isinstance(h, FunctionInfo) else []
            elif isinstance(tgt, FunctionInfo):
                h = tgt
                params = h.params
            if not isinstance(h, FunctionInfo) or 'with_altitude' not in params + h.kwonly:
                continue
            got = None
            if 'with_altitude' in params:
                i = params.index('with_altitude')
                if i < len(call.args):
                    got = call.args[i]
            for kw in call.keywords:
                if kw.arg == 'with_altitude':
                    got = kw.value
            n += 1
            ok = got is not None and any(
                (isinstance(x, ast.Name) and x.id == 'with_altitude') or
                (isinstance(x, ast.Attribute) and x.attr == 'with_altitude')
                for x in ast.walk(got))
            ctx.ob('WA-FORWARD', ok, None, '%s forwards with_altitude to %s'
                   % (f.qualname, norm_text(call.func)), f=f, node=call,
                   key='%s->%s' % (f.qualname, norm_text(call.func)),
                   why='%s calls `%s` %s: the component runs in its default mode (with altitude) '
                       'whatever mode the caller asked for'
                       % (f.qualname, norm_text(call)[:70],
                          'without the with_altitude argument' if got is None
                          else 'with with_altitude=%s' % norm_text(got)))
    ctx.floor('WA-FORWARD', n, 4, 'forwarding sites')


def kernel_via(ctx):
    """Every result of the two public entry points comes out of the one kernel path: a shortcut
    return (a 'nothing to do' fast path that hands back the stored row, an approximation for
    short steps) is a second implementation of the step that the structural rules do not see
    and that cannot be bit-identical to what integrate appends for the same increment."""
    ctx.rule('KERNEL-VIA', "Integrator.integrate returns self._integrate(increments, 'integrate') and "
             "Integrator.predict the single row of self._integrate(<one-row frame of the "
             "increment>, 'predict') on every path: no return bypasses the kernel")
    c = ctx.repo.klass('strapdown.Integrator')
    n = 0
    for mname, mode in (('integrate', 'integrate'), ('predict', 'predict')):
        m = c.methods.get(mname)
        ctx.need(m is not None, 'Integrator.%s missing' % mname)
        ctx.touch(m)
        clo = Closure(m)
        rets = [s for s in ast.walk(m.node) if isinstance(s, ast.Return)]
        ctx.need(rets, 'Integrator.%s has no return' % mname)
        for r in rets:
            v = r.value
            e = clo.expr(v, r, depth=3) if v is not None else None
            calls = [x for x in ast.walk(e) if isinstance(x, ast.Call) and
                     norm_text(x.func) == 'self._integrate'] if e is not None else []
            ok = len(calls) == 1 and len(calls[0].args) >= 2 and \
                isinstance(calls[0].args[1], ast.Constant) and calls[0].args[1].value == mode
            n += 1
            ctx.ob('KERNEL-VIA', ok, None, '%s returns the result of _integrate(..., %r)'
                   % (mname, mode), f=m, node=r, key='%s-%d' % (mname, rets.index(r)),
                   why='Integrator.%s has a return `%s` that does not come from '
                       "self._integrate(..., '%s'): a path that bypasses the kernel returns something "
                       'else than the row integrate appends for the same increment (e.g. the '
                       'stored angles instead of the ones read back from the attitude matrix, or '
                       'the state without the increment applied)'
                       % (mname, norm_text(v)[:70] if v is not None else 'None', mode))
        # what the kernel path receives is what the caller supplied: every row, under its own label
        # (round-10 seed C02-integrate-drops-stale-labels filtered the table by time label first)
        par = m.params[1] if len(m.params) > 1 else None
        ctx.need(par is not None, 'Integrator.%s has no data parameter' % mname)
        rebound = [s_ for s_ in ast.walk(m.node) if isinstance(s_, (ast.Assign, ast.AugAssign)) and
                   any(isinstance(t_, ast.Name) and t_.id == par
                       for t_ in (s_.targets if isinstance(s_, ast.Assign) else [s_.target]))]
        for c_ in [x for x in ast.walk(m.node) if isinstance(x, ast.Call) and
                   norm_text(x.func) == 'self._integrate' and x.args]:
            a0 = c_.args[0]
            e0 = a0
            # strip pure re-shaping of a Series into a one-row frame
            while True:
                if isinstance(e0, ast.Call) and isinstance(e0.func, ast.Attribute) and \
                        e0.func.attr in ('to_frame', 'transpose', 'copy') and not e0.args:
                    e0 = e0.func.value
                elif isinstance(e0, ast.Attribute) and e0.attr == 'T':
                    e0 = e0.value
                else:
                    break
            plain = isinstance(e0, ast.Name) and e0.id == par
            selects = any(isinstance(x, ast.Name) and x.id == par for x in ast.walk(a0)) and \
                not plain
            if not plain and not selects and not rebound:
                ctx.need(False, 'Integrator.%s: argument `%s` of _integrate not read'
                         % (mname, norm_text(a0)[:50]))
            n += 1
            ctx.ob('KERNEL-VIA', plain and not rebound, None,
                   '%s hands its `%s` to _integrate as supplied' % (mname, par), f=m, node=c_,
                   key='%s-arg' % mname,
                   why='Integrator.%s passes `%s`%s to the kernel path, not the table the caller '
                       'supplied: rows are selected / changed before integration, so the stored '
                       'trajectory is not "the start time followed by every increment time exactly '
                       'once" and depends on how the increments were split into calls'
                       % (mname, norm_text(a0)[:50],
                          (' (re-bound by `%s`)' % norm_text(rebound[0])[:60]) if rebound else ''))
    ctx.floor('KERNEL-VIA', n, 2, 'returns of the public entry points')
