"""C18 - state differencing, angle wrap, resampling.

DIFF-ORIENT  on every path through compute_state_difference the result is
             (+1) * first + (-1) * second (orientation domain; the swapped arm included),
             position part converted with north<-lat, east<-lon positive, down<-alt negative
WRAP-RANGE   util.to_180_range: result in (-180, 180] for every real input, array and
             scalar arms (interval analysis with open/closed ends)
WRAP-CONG    every adjustment is a multiple of 360 (result congruent to the input)
RES-*        resample_state: requested times clipped to the span before use; columns
             re-ordered as in the input; exactly RPH columns through Slerp, the complement
             through interp1d
"""
import ast
from fractions import Fraction

from ..model import AnalysisError, norm_text
from ..flow import walk_no_nested_funcs


# ----------------------------------------------------------------- DIFF-ORIENT
class _Fork(Exception):
    pass


def diff_orient(ctx):
    ctx.rule('DIFF-ORIENT', 'compute_state_difference returns (+1)*first + (-1)*second on every '
             'path (swap arm, non-swap arm, Series arm)')
    f = ctx.repo.function('transform.compute_state_difference')
    p1, p2 = f.params[0], f.params[1]
    res = lambda n: f.module.resolve(n, f.local_names())
    paths = []

    def run(decisions):
        env = {p1: (1, 0), p2: (0, 1)}
        dec = list(decisions)
        taken = []
        flips = {}          # column -> sign flips applied in place
        notes = {'resampled': [], 'denser': [], 'span': []}

        def density_test(t, d):
            """median(diff(X.index)) OP median(diff(Y.index)) -> orientation of the denser
            operand under decision d"""
            from ..flow import strip_not
            t, pol_ = strip_not(t)
            if not pol_:
                d = not d
            if not (isinstance(t, ast.Compare) and len(t.ops) == 1):
                return
            sides = []
            for side in (t.left, t.comparators[0]):
                nm = [x for x in ast.walk(side) if isinstance(x, ast.Attribute) and
                      x.attr == 'index' and isinstance(x.value, ast.Name)]
                # a local that holds the index of an operand (`t_first = first.index`)
                held = [x for x in ast.walk(side) if isinstance(x, ast.Name) and
                        isinstance(env.get(x.id), tuple) and env[x.id][:1] == ('idx',)]
                if 'diff' not in norm_text(side) or len(nm) + len(held) != 1:
                    return
                sides.append(env.get(nm[0].value.id) if nm else env[held[0].id][1])
            op = t.ops[0]
            if isinstance(op, (ast.Lt, ast.LtE)):
                left_denser = d
            elif isinstance(op, (ast.Gt, ast.GtE)):
                left_denser = not d
            else:
                return
            strict = isinstance(op, (ast.Lt, ast.Gt))
            # on the non-strict / equal side both are equally dense: either is fine
            notes['denser'].append((sides[0] if left_denser else sides[1],
                                    sides[1] if left_denser else sides[0],
                                    (strict and not d) or (not strict and d)))

        def val(n):
            if isinstance(n, ast.Name):
                return env.get(n.id)
            if isinstance(n, ast.Constant) and isinstance(n.value, (int, float)):
                return ('k', n.value)
            if isinstance(n, ast.UnaryOp) and isinstance(n.op, ast.USub):
                v = val(n.operand)
                if isinstance(v, tuple) and v[0] == 'k':
                    return ('k', -v[1])
                if isinstance(v, tuple) and len(v) == 2:
                    return (-v[0], -v[1])
                return None
            if isinstance(n, ast.BinOp):
                a, b = val(n.left), val(n.right)
                lin = lambda v: isinstance(v, tuple) and len(v) == 2 and v[0] != 'k'
                k = lambda v: isinstance(v, tuple) and v[0] == 'k'
                if isinstance(n.op, ast.Sub) and lin(a) and lin(b):
                    return (a[0] - b[0], a[1] - b[1])
                if isinstance(n.op, ast.Add) and lin(a) and lin(b):
                    return (a[0] + b[0], a[1] + b[1])
                if isinstance(n.op, ast.Mult):
                    if k(a) and lin(b):
                        return (a[1] * b[0], a[1] * b[1])
                    if lin(a) and k(b):
                        return (b[1] * a[0], b[1] * a[1])
                return None
            if isinstance(n, ast.Subscript):
                return val(n.value)
            if isinstance(n, ast.Attribute):
                if n.attr in ('loc', 'iloc', 'values', 'T'):
                    return val(n.value)
                if n.attr == 'index':
                    v = val(n.value)
                    return ('idx', v) if isinstance(v, tuple) and len(v) == 2 and \
                        v[0] != 'k' and v[0] != 'idx' else None
                return None
            if isinstance(n, ast.Call):
                q = res(n.func)
                if q == 'pyins.transform.resample_state' and n.args:
                    notes['resampled'].append(val(n.args[0]))
                    return val(n.args[0])
                if q == 'pyins.util.to_180_range' and n.args:
                    return val(n.args[0])
                if isinstance(n.func, ast.Attribute) and n.func.attr in ('copy', 'reindex',
                                                                         'astype'):
                    return val(n.func.value)
                return None
            return None

        def block(body):
            for st in body:
                r = stmt(st)
                if r is not None:
                    return r
            return None

        def stmt(st):
            if isinstance(st, ast.FunctionDef):
                return None
            if isinstance(st, ast.Assign):
                if len(st.targets) == 1 and isinstance(st.targets[0], ast.Tuple) and \
                        isinstance(st.value, ast.Tuple):
                    vals = [val(e) for e in st.value.elts]
                    for t, v in zip(st.targets[0].elts, vals):
                        if isinstance(t, ast.Name):
                            env[t.id] = v
                    return None
                v = val(st.value)
                if isinstance(st.value, ast.Subscript) and isinstance(st.value.slice, ast.BinOp) \
                        and isinstance(st.value.slice.op, ast.BitAnd):
                    # index = index[(index >= X[0]) & (index <= X[-1])]: the common span
                    bounds = [val(c.comparators[0]) for c in ast.walk(st.value.slice)
                              if isinstance(c, ast.Compare) and len(c.comparators) == 1]
                    notes['span'].append((v, bounds, st))
                for t in st.targets:
                    if isinstance(t, ast.Name):
                        env[t.id] = v
                    elif isinstance(t, ast.Subscript) and isinstance(t.value, ast.Name):
                        # difference[RPH_COLS] = to_180_range(difference[RPH_COLS])
                        old = env.get(t.value.id)
                        if v != old:
                            env[t.value.id] = None if v is None else \
                                (old if old == v else ('mixed', old, v))
                return None
            if isinstance(st, ast.AugAssign):
                if isinstance(st.op, ast.Mult) and isinstance(st.target, ast.Attribute) and \
                        isinstance(st.target.value, ast.Name):
                    # in-place scaling of one column: sign of the factor
                    sgn = _factor_sign(st.value)
                    flips.setdefault(st.target.attr, []).append((sgn, st))
                    return None
                if isinstance(st.target, ast.Name):
                    env[st.target.id] = None
                return None
            if isinstance(st, ast.If):
                if not dec:
                    raise _Fork()
                d = dec.pop(0)
                taken.append((st, d))
                density_test(st.test, d)
                return block(st.body if d else st.orelse)
            if isinstance(st, ast.Return):
                return ('ret', val(st.value), st)
            if isinstance(st, ast.Raise):
                return ('raise', None, st)
            return None
        r = block(f.node.body)
        return r, taken, flips, notes

    # enumerate decision vectors breadth-first
    todo = [[]]
    seen = 0
    while todo and seen < 200:
        d = todo.pop(0)
        seen += 1
        try:
            r, taken, flips, notes = run(d)
        except _Fork:
            todo.append(d + [True])
            todo.append(d + [False])
            continue
        if r is not None:
            paths.append((d, r, taken, flips, notes))
    rets = [p for p in paths if p[1][0] == 'ret']
    ctx.floor('DIFF-ORIENT', len(rets), 3, 'returning paths')
    for d, (kind, v, node), taken, flips, notes in rets:
        desc = ' / '.join('%s=%s' % (norm_text(t.test)[:50], dd) for t, dd in taken)
        ok = v == (1, -1)
        # a value the sign interpreter could not follow is not a finding
        ctx.need(isinstance(v, tuple) and len(v) == 2 and
                 all(isinstance(c_, (int, float)) for c_ in v),
                 'compute_state_difference: the returned value on the path [%s] is not read as '
                 'a signed combination of the operands' % desc[:120])
        ctx.ob('DIFF-ORIENT', ok, None, 'path [%s] returns +first -second' % desc, f=f,
               node=node, key='path-' + ''.join('T' if x else 'F' for x in d),
               why='on the path [%s] the result is %s*first + %s*second: the difference is not '
                   'antisymmetric / has the wrong sign' % (
                       desc, *(v if isinstance(v, tuple) and len(v) == 2 else ('?', '?'))))
    # the interpolated operand is the one sampled more densely
    ctx.rule('DIFF-DENSER', 'on every path that interpolates, the interpolated operand is the one '
             'with the smaller median sampling interval (so that a table against a sub-sampling '
             'of itself is evaluated at original rows only)')
    n_d = 0
    for d, (kind, v, node), taken, flips, notes in rets:
        for rs in notes['resampled']:
            for denser, sparser, tie in notes['denser']:
                n_d += 1
                ok = rs == denser or tie
                desc = ''.join('T' if x else 'F' for x in d)
                ctx.ob('DIFF-DENSER', ok, None,
                       'path %s: resampled operand %s is the denser one' % (desc, rs), f=f,
                       node=node, key='denser-' + desc,
                       why='on path %s the operand with the LARGER sampling interval is '
                           'interpolated onto the time index of the denser one: interpolation '
                           'error enters the difference (a table against a sub-sampling of itself '
                           'is no longer exactly zero)' % desc)
    ctx.floor('DIFF-DENSER', n_d, 2, 'interpolating paths')
    # the times kept are those of the table that is NOT interpolated, cut to the span of the one
    # that is (round-10 seed C18-stale-index-after-swap: the span bounds came from a local that
    # held the index of the second argument from before the operands were exchanged)
    ctx.rule('DIFF-SPAN', 'on every interpolating path the time index of the table that is kept is '
             'cut to the span of the table that is interpolated (times outside are discarded)')
    n_s = 0
    for d, (kind, v, node), taken, flips, notes in rets:
        desc = ''.join('T' if x else 'F' for x in d)
        for rs in notes['resampled']:
            ctx.need(notes['span'], 'compute_state_difference: no common-span filter read on '
                                    'path %s' % desc)
            for base, bounds, st_ in notes['span']:
                ctx.need(isinstance(base, tuple) and base[:1] == ('idx',) and bounds and
                         all(isinstance(b, tuple) and b[:1] == ('idx',) for b in bounds),
                         'compute_state_difference: span filter `%s` not read' % norm_text(st_)[:60])
                n_s += 1
                ok = all(b[1] == rs for b in bounds) and base[1] != rs
                ctx.ob('DIFF-SPAN', ok, None, 'path %s: kept times cut to the span of the '
                       'interpolated table' % desc, f=f, node=st_, key='span-' + desc,
                       why='on path %s the time index of operand %s is cut to the span of '
                           'operand(s) %s, while operand %s is the one interpolated: times outside '
                           'its span are not discarded (all-NaN rows, and d(a, b) != -d(b, a))'
                           % (desc, base[1], sorted({b[1] for b in bounds}), rs))
    ctx.floor('DIFF-SPAN', n_s, 2, 'span filters on interpolating paths')
    # position columns: lat, lon scaled positively, alt negatively (down = -alt), renamed
    any_flips = [p[3] for p in rets if p[3]]
    if any_flips:
        fl = any_flips[0]
        want = {'lat': 1, 'lon': 1, 'alt': -1}
        for col, sg in want.items():
            got = fl.get(col, [])
            prod = 1
            for s_, _ in got:
                prod = prod * s_ if s_ is not None else None
                if prod is None:
                    break
            # a factor whose sign is not read is not a finding
            ctx.need(prod is not None, "compute_state_difference: the sign of the factor of "
                     "column '%s' is not read" % col)
            ctx.ob('DIFF-ORIENT', prod == sg and len(got) >= 1, None,
                   "column '%s' scaled with sign %+d" % (col, sg), f=f,
                   node=(got[0][1] if got else f.node), key='col-' + col,
                   why="position column '%s' is scaled with sign %s, expected %+d (north/east "
                       "positive with lat/lon, down = -alt)" % (col, prod, sg))
        ren = [n for n in ast.walk(f.node) if isinstance(n, ast.Call) and
               isinstance(n.func, ast.Attribute) and n.func.attr == 'rename']
        okr = False
        for n in ren:
            for a in n.args:
                try:
                    m = ctx.repo.fold(a, f.module)
                except ValueError:
                    continue
                okr = m == {'lat': 'north', 'lon': 'east', 'alt': 'down'}
        ctx.ob('DIFF-ORIENT', okr, None, 'lat/lon/alt renamed to north/east/down', f=f,
               key='rename', why='position difference columns are not renamed '
                                 'lat->north, lon->east, alt->down')
    else:
        ctx.ob('DIFF-ORIENT', False, None, 'metre conversion present', f=f, key='metres',
               why='no in-place metre conversion of lat/lon/alt found')


def _factor_sign(node):
    """sign of a multiplicative factor built from radii (positive), positive constants,
    DEG_TO_RAD and literals."""
    if isinstance(node, ast.Constant) and isinstance(node.value, (int, float)):
        return 1 if node.value > 0 else (-1 if node.value < 0 else 0)
    if isinstance(node, ast.UnaryOp) and isinstance(node.op, ast.USub):
        s = _factor_sign(node.operand)
        return None if s is None else -s
    if isinstance(node, ast.BinOp) and isinstance(node.op, (ast.Mult, ast.Div)):
        a, b = _factor_sign(node.left), _factor_sign(node.right)
        return None if a is None or b is None else a * b
    if isinstance(node, (ast.Name, ast.Attribute)):
        return 1        # rn, rp, DEG_TO_RAD: positive quantities (ROLE-RADII checks which)
    if isinstance(node, ast.Call) and isinstance(node.func, ast.Attribute) and \
            node.func.attr in ('deg2rad', 'rad2deg', 'radians', 'degrees') and len(node.args) == 1:
        return _factor_sign(node.args[0])     # positive scalings (DIFF-SCALE decides the value)
    return None


# -------------------------------------------------------------------- DIFF-SYM
def diff_sym(ctx):
    """Antisymmetry needs more than the orientation of the subtraction: the factors that turn
    degrees into metres must not depend on which operand is called `first`."""
    ctx.rule('DIFF-SYM', 'the metre scale of the position difference is evaluated at a point that '
             'is symmetric in the two operands (e.g. their mid-point): d(a, b) = -d(b, a) also '
             'for states that are far apart')
    from ..nf import Alg
    f = ctx.repo.function('transform.compute_state_difference')
    res = lambda n: f.module.resolve(n, f.local_names())
    sub = None
    for st in ast.walk(f.node):
        if isinstance(st, ast.Assign) and isinstance(st.value, ast.BinOp) and \
                isinstance(st.value.op, ast.Sub) and isinstance(st.value.left, ast.Name) and \
                isinstance(st.value.right, ast.Name):
            sub = st
    ctx.need(sub is not None, 'compute_state_difference: `difference = A - B` not found')
    a, b = sub.value.left.id, sub.value.right.id
    calls = [n for n in ast.walk(f.node) if isinstance(n, ast.Call) and
             res(n.func) == 'pyins.earth.principal_radii']
    ctx.floor('DIFF-SYM', len(calls), 1, 'principal_radii calls')
    A = Alg()

    def ev(e, swap):
        if isinstance(e, ast.Constant) and isinstance(e.value, (int, float)):
            return A.const(e.value)
        if isinstance(e, ast.Attribute) and isinstance(e.value, ast.Name) and \
                e.value.id in (a, b):
            who = e.value.id
            if swap:
                who = b if who == a else a
            return A.sym('%s_%s' % (e.attr, 'A' if who == a else 'B'))
        if isinstance(e, ast.Subscript) and isinstance(e.value, ast.Name) and \
                e.value.id in (a, b) and isinstance(e.slice, ast.Constant):
            who = e.value.id
            if swap:
                who = b if who == a else a
            return A.sym('%s_%s' % (e.slice.value, 'A' if who == a else 'B'))
        if isinstance(e, ast.BinOp):
            x, y = ev(e.left, swap), ev(e.right, swap)
            if isinstance(e.op, ast.Add):
                return A.add(x, y)
            if isinstance(e.op, ast.Sub):
                return A.sub(x, y)
            if isinstance(e.op, ast.Mult):
                return A.mul(x, y)
            if isinstance(e.op, ast.Div):
                return A.div(x, y)
        if isinstance(e, ast.UnaryOp) and isinstance(e.op, ast.USub):
            return A.neg(ev(e.operand, swap))
        if isinstance(e, ast.Name):
            # a local: follow its single definition
            defs = [s2 for s2 in ast.walk(f.node) if isinstance(s2, ast.Assign) and
                    len(s2.targets) == 1 and isinstance(s2.targets[0], ast.Name) and
                    s2.targets[0].id == e.id]
            if len(defs) == 1 and e.id not in (a, b):
                return ev(defs[0].value, swap)
        raise ValueError(norm_text(e))
    for call in calls:
        try:
            same = all(A.eq(ev(x, False), ev(x, True)) for x in call.args)
            why = ''
        except ValueError as e:
            raise AnalysisError('compute_state_difference: argument `%s` of principal_radii not '
                                'understood' % e)
        ctx.ob('DIFF-SYM', same, None, 'principal_radii(%s) is unchanged when `%s` and `%s` are '
               'exchanged' % (', '.join(norm_text(x) for x in call.args), a, b), f=f, node=call,
               key='scale',
               why='the radii that scale the lat/lon difference into metres are evaluated at '
                   '`%s`, which changes when the operands are exchanged: d(a, b) + d(b, a) is of '
                   'the order (separation / Earth radius) * separation instead of zero'
                   % ', '.join(norm_text(x) for x in call.args))


# ------------------------------------------------------------------ DIFF-SCALE
def diff_scale(ctx):
    """`position differences in NED metres`: the factor each position column of the difference is
    multiplied with, evaluated in N1 over the outputs of principal_radii and the module
    constants, is rn * DEG_TO_RAD (lat -> north), rp * DEG_TO_RAD (lon -> east), -1 (alt -> down):
    the first-order inverse of perturb_lla (GEO-PERTURB), the same factors as the array sibling
    compute_lla_difference (GEO-DIFF).  DIFF-ORIENT reads only the sign of these factors and
    ROLE-RADII only which radius meets which column (survey: `rn / DEG_TO_RAD`, `rn * RAD_TO_DEG`
    and a dropped DEG_TO_RAD passed both)."""
    ctx.rule('DIFF-SCALE', 'the factors that turn the lat/lon/alt columns of the difference into '
             'north/east/down are rn*DEG_TO_RAD, rp*DEG_TO_RAD, -1 (N1 equality over the outputs '
             'of principal_radii)')
    from ..nf import Alg
    f = ctx.repo.function('transform.compute_state_difference')
    res = lambda n: f.module.resolve(n, f.local_names())
    A = Alg()
    radii = {}
    for st in ast.walk(f.node):
        if isinstance(st, ast.Assign) and isinstance(st.value, ast.Call) and \
                res(st.value.func) == 'pyins.earth.principal_radii' and \
                isinstance(st.targets[0], ast.Tuple) and len(st.targets[0].elts) == 3:
            for k, e in enumerate(st.targets[0].elts):
                if isinstance(e, ast.Name) and e.id != '_':
                    radii[e.id] = k
    ctx.need(radii, 'compute_state_difference: no unpacked principal_radii call')
    assigned = {}
    for st in ast.walk(f.node):
        if isinstance(st, ast.Assign):
            for t in st.targets:
                for x in (t.elts if isinstance(t, ast.Tuple) else [t]):
                    if isinstance(x, ast.Name):
                        assigned.setdefault(x.id, []).append(st)

    def ev(e):
        if isinstance(e, ast.Constant) and isinstance(e.value, (int, float)) and \
                not isinstance(e.value, bool):
            return A.const(e.value)
        if isinstance(e, ast.UnaryOp) and isinstance(e.op, ast.USub):
            return A.neg(ev(e.operand))
        if isinstance(e, ast.UnaryOp) and isinstance(e.op, ast.UAdd):
            return ev(e.operand)
        if isinstance(e, ast.BinOp) and isinstance(e.op, (ast.Add, ast.Sub, ast.Mult, ast.Div)):
            x, y = ev(e.left), ev(e.right)
            return {ast.Add: A.add, ast.Sub: A.sub, ast.Mult: A.mul, ast.Div: A.div}[type(e.op)](x, y)
        if isinstance(e, ast.Name) and e.id in radii and len(assigned.get(e.id, [])) == 1:
            return A.sym('@R%d' % radii[e.id])
        if isinstance(e, (ast.Name, ast.Attribute)):
            q = res(e)
            if q == 'pyins.transform.DEG_TO_RAD':
                return A.sym(A.D2R)
            if q == 'pyins.transform.RAD_TO_DEG':
                return A.sym(A.R2D)
            if q == 'numpy.pi':
                return A.mul(A.const(180), A.sym(A.D2R))
            if q is not None:
                try:
                    v = ctx.repo.fold_fq(q)
                except ValueError:
                    v = None
                if isinstance(v, (int, float)) and not isinstance(v, bool):
                    return A.const(v)
            if isinstance(e, ast.Name) and len(assigned.get(e.id, [])) == 1 and \
                    isinstance(assigned[e.id][0].targets[0], ast.Name):
                return ev(assigned[e.id][0].value)
        if isinstance(e, ast.Call) and e.args and len(e.args) == 1 and not e.keywords:
            q = res(e.func)
            if q == 'numpy.deg2rad':
                return A.mul(ev(e.args[0]), A.sym(A.D2R))
            if q == 'numpy.rad2deg':
                return A.mul(ev(e.args[0]), A.sym(A.R2D))
        raise ValueError(norm_text(e))

    def column_of(t):
        if isinstance(t, ast.Attribute) and isinstance(t.value, ast.Name):
            return t.value.id, t.attr
        if isinstance(t, ast.Subscript) and isinstance(t.value, ast.Name) and \
                isinstance(t.slice, ast.Constant) and isinstance(t.slice.value, str):
            return t.value.id, t.slice.value
        return None
    factors = {}
    for st in walk_no_nested_funcs(f.node):
        if isinstance(st, ast.AugAssign) and isinstance(st.op, (ast.Mult, ast.Div)):
            c = column_of(st.target)
            if c and c[1] in ('lat', 'lon', 'alt'):
                factors.setdefault(c[1], []).append((st, isinstance(st.op, ast.Div)))
    ctx.floor('DIFF-SCALE', len(factors), 3, 'scaled position columns')
    want = {'lat': (A.mul(A.sym('@R0'), A.sym(A.D2R)), 'rn * DEG_TO_RAD (output 0 of principal_radii)'),
            'lon': (A.mul(A.sym('@R2'), A.sym(A.D2R)), 'rp * DEG_TO_RAD (output 2 of principal_radii)'),
            'alt': (A.const(-1), '-1')}
    for col in ('lat', 'lon', 'alt'):
        total = A.const(1)
        try:
            for st, inv in factors[col]:
                v = ev(st.value)
                total = A.div(total, v) if inv else A.mul(total, v)
        except ValueError as e:
            raise AnalysisError('compute_state_difference: factor `%s` of column %s not '
                                'understood' % (e, col))
        ok = A.eq(total, want[col][0])
        st0 = factors[col][0][0]
        ctx.ob('DIFF-SCALE', ok, None, "column '%s' is multiplied by %s" % (col, want[col][1]),
               f=f, node=st0, key='scale-' + col,
               why="the position column '%s' of the difference is scaled by `%s`, which is not "
                   "%s: the result is not the displacement in metres along %s (a perturbation "
                   "applied with perturb_lla is not recovered)" % (
                       col, ' ; '.join(norm_text(s_.value) for s_, _ in factors[col])[:120],
                       want[col][1], {'lat': 'north', 'lon': 'east', 'alt': 'down'}[col]))


# ------------------------------------------------------------------- DIFF-COLS
def diff_cols(ctx):
    """`any column subsets`: the two tables may carry different columns; the difference is taken
    over the columns both have.  The column set that both operands are restricted to is the
    intersection of their column indexes (hand-made probe: `.union` - a KeyError / all-NaN
    columns as soon as the sets differ)."""
    ctx.rule('DIFF-COLS', 'both tables are restricted to the intersection of their columns before '
             'they are subtracted')
    f = ctx.repo.function('transform.compute_state_difference')
    p1, p2 = f.params[0], f.params[1]
    n = 0
    for st in ast.walk(f.node):
        if not (isinstance(st, ast.Assign) and len(st.targets) == 1 and
                isinstance(st.targets[0], ast.Name)):
            continue
        v = st.value
        both = {x.value.id for x in ast.walk(v) if isinstance(x, ast.Attribute) and
                x.attr == 'columns' and isinstance(x.value, ast.Name)}
        if not ({p1, p2} <= both):
            continue
        name = st.targets[0].id
        used = sum(1 for x in ast.walk(f.node) if isinstance(x, ast.Subscript) and
                   any(isinstance(y, ast.Name) and y.id == name for y in ast.walk(x.slice)))
        if used < 2:
            continue
        n += 1
        meth = v.func.attr if isinstance(v, ast.Call) and isinstance(v.func, ast.Attribute) else \
            ('&' if isinstance(v, ast.BinOp) and isinstance(v.op, ast.BitAnd) else None)
        if meth is None and isinstance(v, ast.ListComp):
            meth = 'intersection' if any(isinstance(c, ast.Compare) and
                                         isinstance(c.ops[0], ast.In)
                                         for g in v.generators for c in g.ifs) else None
        ctx.need(meth in ('intersection', '&', 'union', '|', 'difference', 'symmetric_difference',
                          'append'), 'compute_state_difference: common column set `%s` not read'
                 % norm_text(v)[:60])
        ctx.ob('DIFF-COLS', meth in ('intersection', '&'), None, 'common columns = intersection',
               f=f, node=st, key='common-columns',
               why='the column set both tables are restricted to is `%s`, not the intersection of '
                   'their columns: with tables that carry different column subsets a column is '
                   'requested from a table that does not have it' % norm_text(v)[:70])
    ctx.floor('DIFF-COLS', n, 1, 'common column sets')


# ------------------------------------------------------------------ WRAP-RANGE
class Iv:
    """interval with open/closed ends and the accumulated shift."""
    def __init__(self, lo, lc, hi, hc, shift=0, sg=1):
        # value = sg * input + shift (modulo the reduction)
        self.lo, self.lc, self.hi, self.hc, self.shift, self.sg = lo, lc, hi, hc, shift, sg

    def empty(self):
        return self.lo > self.hi or (self.lo == self.hi and not (self.lc and self.hc))

    def __repr__(self):
        return '%s%s, %s%s%+d%s' % ('[' if self.lc else '(', self.lo, self.hi,
                                    ']' if self.hc else ')', self.shift,
                                    '' if self.sg == 1 else ' (negated)')


def _split(iv, op, c):
    """(part satisfying x op c, rest)."""
    if op == '<':
        a = Iv(iv.lo, iv.lc, min(iv.hi, c), iv.hc if iv.hi < c else False, iv.shift, iv.sg)
        b = Iv(max(iv.lo, c), iv.lc if iv.lo > c else True, iv.hi, iv.hc, iv.shift, iv.sg)
    elif op == '<=':
        a = Iv(iv.lo, iv.lc, min(iv.hi, c), iv.hc if iv.hi < c else True, iv.shift, iv.sg)
        b = Iv(max(iv.lo, c), iv.lc if iv.lo > c else False, iv.hi, iv.hc, iv.shift, iv.sg)
    elif op == '>':
        b = Iv(iv.lo, iv.lc, min(iv.hi, c), iv.hc if iv.hi < c else True, iv.shift, iv.sg)
        a = Iv(max(iv.lo, c), iv.lc if iv.lo > c else False, iv.hi, iv.hc, iv.shift, iv.sg)
    elif op == '>=':
        b = Iv(iv.lo, iv.lc, min(iv.hi, c), iv.hc if iv.hi < c else False, iv.shift, iv.sg)
        a = Iv(max(iv.lo, c), iv.lc if iv.lo > c else True, iv.hi, iv.hc, iv.shift, iv.sg)
    else:
        raise AnalysisError('comparison %s' % op)
    return ([a] if not a.empty() else []), ([b] if not b.empty() else [])


OPS = {ast.Lt: '<', ast.LtE: '<=', ast.Gt: '>', ast.GtE: '>='}


INF = float('inf')


class _Wrap:
    """Abstract interpreter for angle-reduction code: a value is a list of intervals (open /
    closed ends) each carrying the constant accumulated relative to the input (`shift`);
    x % M maps anything onto [0, M) and keeps the congruence class; comparisons with constants
    split intervals; tests that do not inspect the value fork the analysis into paths."""

    def __init__(self, ctx, f):
        self.ctx, self.f = ctx, f
        self.mods = []          # (modulus, node)
        self.paths = []         # (description, result pieces, node)
        self.res = lambda n: f.module.resolve(n, f.local_names())

    def fold(self, n):
        return self.ctx.repo.fold(n, self.f.module)

    def const(self, n):
        try:
            v = self.fold(n)
        except ValueError:
            return None
        return v if isinstance(v, (int, float)) and not isinstance(v, bool) else None

    # ---- expressions -> list of Iv, or None when the expression is not an angle value
    def ev(self, e, env):
        if isinstance(e, ast.Name):
            return env.get(e.id)
        if isinstance(e, ast.BinOp):
            if isinstance(e.op, ast.Mod):
                a, M = self.ev(e.left, env), self.const(e.right)
                return self.mod(a, M, e)
            if isinstance(e.op, (ast.Add, ast.Sub)):
                a, b = self.ev(e.left, env), self.ev(e.right, env)
                ca, cb = self.const(e.left), self.const(e.right)
                if b is not None and ca is not None and isinstance(e.op, ast.Sub):
                    return [Iv(ca - x.hi, x.hc, ca - x.lo, x.lc, ca - x.shift, -x.sg) for x in b]
                if a is not None and cb is not None:
                    k = cb if isinstance(e.op, ast.Add) else -cb
                    return [Iv(x.lo + k, x.lc, x.hi + k, x.hc, x.shift + k, x.sg) for x in a]
                if b is not None and ca is not None and isinstance(e.op, ast.Add):
                    return [Iv(x.lo + ca, x.lc, x.hi + ca, x.hc, x.shift + ca, x.sg) for x in b]
                if a is not None or b is not None:
                    raise AnalysisError('angle arithmetic `%s` not understood' % norm_text(e))
            return None
        if isinstance(e, ast.UnaryOp) and isinstance(e.op, (ast.USub, ast.UAdd)):
            a = self.ev(e.operand, env)
            if a is None or isinstance(e.op, ast.UAdd):
                return a
            return [Iv(-x.hi, x.hc, -x.lo, x.lc, -x.shift, -x.sg) for x in a]
        if isinstance(e, ast.Call):
            q = self.res(e.func) or ''
            if q in ('numpy.negative',) and e.args:
                a = self.ev(e.args[0], env)
                return None if a is None else [Iv(-x.hi, x.hc, -x.lo, x.lc, -x.shift, -x.sg)
                                               for x in a]
            if q in ('numpy.mod', 'numpy.remainder') and len(e.args) == 2:
                return self.mod(self.ev(e.args[0], env), self.const(e.args[1]), e)
            if q in ('numpy.asarray', 'numpy.array', 'numpy.atleast_1d', 'numpy.asanyarray',
                     'numpy.copy') and e.args:
                return self.ev(e.args[0], env)
            if isinstance(e.func, ast.Attribute) and e.func.attr in ('copy', 'astype') and \
                    not q.startswith('numpy'):
                return self.ev(e.func.value, env)
            if q == 'numpy.where' and len(e.args) == 3:
                sp = self.split(e.args[0], env)
                if sp is None:
                    raise AnalysisError('np.where condition `%s` not understood'
                                        % norm_text(e.args[0]))
                name, sat, uns = sp
                a = self.ev(e.args[1], dict(env, **{name: sat})) if sat else []
                b = self.ev(e.args[2], dict(env, **{name: uns})) if uns else []
                if a is None or b is None:
                    raise AnalysisError('np.where arms not understood')
                return a + b
        return None

    def mod(self, a, M, node):
        if a is None:
            return None
        self.mods.append((M, node))
        if not isinstance(M, (int, float)) or M <= 0:
            raise AnalysisError('modulus of `%s` is not a positive constant' % norm_text(node))
        out, seen = [], set()
        for x in a:
            if x.hi - x.lo < M:
                raise AnalysisError('modulo of a bounded interval')
            if (x.shift, x.sg) not in seen:
                seen.add((x.shift, x.sg))
                out.append(Iv(0, True, M, False, x.shift, x.sg))
        return out

    def split(self, test, env):
        """value test `X cmp c` -> (X, pieces satisfying, pieces not satisfying)"""
        if isinstance(test, ast.Compare) and len(test.ops) == 1 and type(test.ops[0]) in OPS and \
                isinstance(test.left, ast.Name) and env.get(test.left.id) is not None:
            c = self.const(test.comparators[0])
            if c is None:
                return None
            sat, uns = [], []
            for iv in env[test.left.id]:
                a, b = _split(iv, OPS[type(test.ops[0])], c)
                sat += a
                uns += b
            return test.left.id, sat, uns
        # |X| cmp c
        if isinstance(test, ast.Compare) and len(test.ops) == 1 and type(test.ops[0]) in OPS and \
                isinstance(test.left, ast.Call) and \
                norm_text(test.left.func) in ('abs', 'np.abs', 'np.fabs', 'np.absolute') and \
                len(test.left.args) == 1 and isinstance(test.left.args[0], ast.Name) and \
                env.get(test.left.args[0].id) is not None:
            c = self.const(test.comparators[0])
            if c is None:
                return None
            name = test.left.args[0].id
            op = OPS[type(test.ops[0])]
            inside, outside = [], []
            for iv in env[name]:
                if op in ('<', '<='):
                    lo_sat, lo_uns = _split(iv, '>' if op == '<' else '>=', -c)
                    for p_ in lo_sat:
                        a, b = _split(p_, op, c)
                        inside += a
                        outside += b
                    outside += lo_uns
                else:
                    hi_sat, hi_uns = _split(iv, op, c)            # X > c
                    outside += hi_sat
                    for p_ in hi_uns:
                        a, b = _split(p_, '<' if op == '>' else '<=', -c)   # X < -c
                        outside += a
                        inside += b
            if op in ('<', '<='):
                return name, inside, outside
            return name, outside, inside
        # np.all(test): true -> every element satisfies it; false -> nothing known.
        # np.any(test): false -> no element satisfies it; true -> nothing known.
        if isinstance(test, ast.Call) and len(test.args) == 1 and not test.keywords and \
                norm_text(test.func) in ('np.all', 'all', 'np.any', 'any'):
            inner = self.split(test.args[0], env)
            if inner is not None:
                name, sat, uns = inner
                whole = list(env[name])
                if norm_text(test.func) in ('np.all', 'all'):
                    return name, sat, whole
                return name, whole, uns
        return None

    # ---- statements; returns list of (env, description) continuing paths
    def run(self, body, env, desc):
        states = [(env, desc)]
        for st in body:
            nxt = []
            for env, desc in states:
                nxt += self.step(st, env, desc)
            states = nxt
        return states

    def step(self, st, env, desc):
        if isinstance(st, ast.Expr) and isinstance(st.value, ast.Constant):
            return [(env, desc)]
        if isinstance(st, ast.Return):
            v = self.ev(st.value, env) if st.value is not None else None
            if v is None:
                raise AnalysisError('to_180_range returns `%s`, not an angle value'
                                    % norm_text(st.value))
            self.paths.append((desc or 'only path', v, st))
            return []
        if isinstance(st, ast.Assign) and len(st.targets) == 1 and \
                isinstance(st.targets[0], ast.Name):
            v = self.ev(st.value, env)
            env = dict(env)
            env[st.targets[0].id] = v
            return [(env, desc)]
        if isinstance(st, ast.AugAssign) and isinstance(st.op, (ast.Add, ast.Sub)):
            k = self.const(st.value)
            if isinstance(st.target, ast.Name) and env.get(st.target.id) is not None and \
                    k is not None:
                k = k if isinstance(st.op, ast.Add) else -k
                env = dict(env)
                env[st.target.id] = [Iv(x.lo + k, x.lc, x.hi + k, x.hc, x.shift + k, x.sg)
                                     for x in env[st.target.id]]
                return [(env, desc)]
            if isinstance(st.target, ast.Subscript) and isinstance(st.target.value, ast.Name) and \
                    k is not None:
                sp = self.split(st.target.slice, env)
                if sp is not None and sp[0] == st.target.value.id:
                    k = k if isinstance(st.op, ast.Add) else -k
                    name, sat, uns = sp
                    env = dict(env)
                    env[name] = [Iv(x.lo + k, x.lc, x.hi + k, x.hc, x.shift + k, x.sg)
                                 for x in sat] + uns
                    return [(env, desc)]
            if (isinstance(st.target, ast.Name) and env.get(st.target.id) is not None) or \
                    (isinstance(st.target, ast.Subscript) and
                     isinstance(st.target.value, ast.Name) and
                     env.get(st.target.value.id) is not None):
                raise AnalysisError('update `%s` not understood' % norm_text(st))
            return [(env, desc)]
        if isinstance(st, ast.If):
            sp = self.split(st.test, env)
            if sp is not None:
                name, sat, uns = sp
                out = []
                if sat:
                    out += self.run(st.body, dict(env, **{name: sat}), desc)
                if uns:
                    out += self.run(st.orelse, dict(env, **{name: uns}), desc)
                # merge continuing paths of the two value branches piecewise
                if len(out) >= 2 and all(o[1] == desc for o in out):
                    merged = dict(out[0][0])
                    for k_ in set().union(*[set(o[0]) for o in out]):
                        vals = [o[0].get(k_) for o in out]
                        if all(isinstance(v_, list) for v_ in vals):
                            merged[k_] = [p_ for v_ in vals for p_ in v_] if k_ == name \
                                else vals[0]
                    return [(merged, desc)]
                return out
            t = norm_text(st.test)
            shape_only = set()
            for n_ in ast.walk(st.test):
                if isinstance(n_, ast.Attribute) and isinstance(n_.value, ast.Name) and \
                        n_.attr in ('ndim', 'shape', 'size', 'dtype', 'index', 'columns'):
                    shape_only.add(id(n_.value))
                if isinstance(n_, ast.Call) and norm_text(n_.func) in ('isinstance', 'len',
                                                                     'np.ndim', 'np.shape'):
                    for a_ in n_.args[:1]:
                        if isinstance(a_, ast.Name):
                            shape_only.add(id(a_))
            if any(isinstance(n_, ast.Name) and env.get(n_.id) is not None and
                   id(n_) not in shape_only for n_ in ast.walk(st.test)):
                # a test that inspects the angle value in a way the interval domain does not
                # understand must not be treated as value-independent
                raise AnalysisError('test `%s` on the angle value not understood' % t[:60])
            a = self.run(st.body, env, (desc + ', ' if desc else '') + '`%s`' % t[:40])
            b = self.run(st.orelse, env, (desc + ', ' if desc else '') + 'not `%s`' % t[:40])
            return a + b
        # anything else must not touch angle values
        for n in ast.walk(st):
            if isinstance(n, ast.Name) and isinstance(n.ctx, ast.Store) and \
                    env.get(n.id) is not None:
                raise AnalysisError('statement `%s` not understood' % norm_text(st)[:60])
        return [(env, desc)]


def wrap_rules(ctx):
    ctx.rule('WRAP-RANGE', 'to_180_range maps every real angle into (-180, 180] on every path '
             '(interval analysis with open/closed ends)')
    ctx.rule('WRAP-CONG', 'every adjustment in to_180_range is a multiple of the modulus 360: the '
             'result is congruent to the input')
    f = ctx.repo.function('util.to_180_range')
    ctx.need(f.params, 'to_180_range has no parameter')
    W = _Wrap(ctx, f)
    env = {f.params[0]: [Iv(-INF, False, INF, False, 0)]}
    rest = W.run(f.node.body, env, '')
    ctx.need(not rest, 'to_180_range: a path ends without return')
    ctx.need(W.paths, 'to_180_range: no returning path')
    ctx.need(W.mods, 'to_180_range: modulo reduction not found')
    for M, node in W.mods[:1]:
        ctx.ob('WRAP-CONG', all(m == 360 for m, _ in W.mods), None, 'reduction modulo 360', f=f,
               node=node, key='modulus',
               why='angle is reduced modulo %r, not 360: the result is not congruent to the input'
                   % ([m for m, _ in W.mods],))
    M = 360
    seen = set()
    for k, (desc, cur, node) in enumerate(W.paths):
        sig = repr(sorted((iv.lo, iv.lc, iv.hi, iv.hc, iv.shift) for iv in cur))
        name = 'path %d' % (k + 1)
        bounded = all(iv.lo > -INF and iv.hi < INF for iv in cur)
        ok = bounded and all((iv.lo > -180 or (iv.lo == -180 and not iv.lc)) and
                             (iv.hi < 180 or (iv.hi == 180)) for iv in cur)
        ctx.ob('WRAP-RANGE', ok, None, '%s (%s): result set %s is inside (-180, 180]'
               % (name, desc, cur), f=f, node=node, key='range-' + name,
               why='to_180_range can return values outside (-180, 180] on the path [%s]: '
                   'reachable set %s' % (desc, cur))
        okc = all(iv.shift % M == 0 and iv.sg == 1 for iv in cur)
        ctx.ob('WRAP-CONG', okc, None, '%s: accumulated adjustments are multiples of %s' % (name, M),
               f=f, node=node, key='cong-' + name,
               why='to_180_range shifts by %s on the path [%s], not a multiple of %s'
                   % (sorted({iv.shift for iv in cur}), desc, M))
        # returns under tests of the VALUE partition the input between them: the images of all
        # returning paths that share the same non-value decisions add up
        if desc in seen:
            continue
        seen.add(desc)
        group = [c_ for d_, c_, _ in W.paths if d_ == desc]
        gb = all(iv.lo > -INF and iv.hi < INF for c_ in group for iv in c_)
        tot = sum(iv.hi - iv.lo for c_ in group for iv in c_) if gb else INF
        ctx.ob('WRAP-RANGE', tot == M, None, '%s: image has total length %s' % (name, M), f=f,
               node=node, key='measure-' + name,
               why='image of the reduction has length %s on the path [%s]' % (tot, desc))
        seen.add(sig)
    ctx.floor('WRAP-RANGE', len(W.paths), 1, 'returning paths')


# ----------------------------------------------------------------------- RES-*
def res_rules(ctx):
    ctx.rule('RES-CLIP', 'resample_state: requested times clipped to [index[0], index[-1]] before '
             'any interpolation')
    ctx.rule('RES-COLS', 'resample_state: result re-indexed by state.columns (order kept)')
    ctx.rule('RES-SLERP', 'resample_state: exactly RPH columns go through Slerp (from_euler xyz '
             'degrees), the complement through interp1d')
    f = ctx.repo.function('transform.resample_state')
    state, times = f.params[0], f.params[1]
    res = lambda n: f.module.resolve(n, f.local_names())
    body = f.node.body
    clip_i = None
    for i, st in enumerate(body):
        if isinstance(st, ast.Assign) and norm_text(st.targets[0]) == times and \
                isinstance(st.value, ast.Subscript) and isinstance(st.value.slice, ast.BinOp) \
                and isinstance(st.value.slice.op, ast.BitAnd):
            l, r = st.value.slice.left, st.value.slice.right
            ops = {}
            for side in (l, r):
                if isinstance(side, ast.Compare) and norm_text(side.left) == times and \
                        len(side.ops) == 1:
                    ops[type(side.ops[0]).__name__] = norm_text(side.comparators[0])
            if ops.get('GtE') == '%s.index[0]' % state and ops.get('LtE') == '%s.index[-1]' % state:
                clip_i = i
    use_i = None
    for i, st in enumerate(body):
        for n in ast.walk(st):
            if isinstance(n, ast.Call) and not (res(n.func) or '').startswith('numpy.') and \
                    any(isinstance(a, ast.Name) and a.id == times for a in n.args) and \
                    not isinstance(st, ast.Assign) or (
                        isinstance(n, ast.Call) and isinstance(st, ast.Assign) and
                        norm_text(st.targets[0]) != times and
                        any(isinstance(a, ast.Name) and a.id == times for a in n.args) or
                        isinstance(n, ast.keyword) and isinstance(n.value, ast.Name) and
                        n.value.id == times):
                if use_i is None:
                    use_i = i
    ctx.ob('RES-CLIP', clip_i is not None and (use_i is None or clip_i < use_i), None,
           'times clipped to the span (>= index[0] and <= index[-1]) before first use', f=f,
           node=body[clip_i if clip_i is not None else 0], key='clip',
           why='requested times are not clipped to [state.index[0], state.index[-1]] before '
               'interpolation: times outside the span are extrapolated or raise')
    # names by role (dataflow), not by spelling
    R = S = I = O = None
    slerp_call = interp_call = None
    for n in ast.walk(f.node):
        if isinstance(n, ast.Assign) and isinstance(n.targets[0], ast.Name) and \
                isinstance(n.value, ast.Call):
            q = res(n.value.func)
            if q == 'pandas.DataFrame' and any(k.arg == 'index' and norm_text(k.value) == times
                                               for k in n.value.keywords):
                R = n.targets[0].id
            elif q == 'scipy.spatial.transform.Slerp':
                S, slerp_call = n.targets[0].id, n.value
            elif q == 'scipy.interpolate.interp1d':
                I, interp_call = n.targets[0].id, n.value
            elif norm_text(n.value) == '%s.columns.difference(RPH_COLS)' % state:
                O = n.targets[0].id
    rets = [n for n in walk_no_nested_funcs(f.node) if isinstance(n, ast.Return)]
    ctx.need(len(rets) == 1 and R is not None, 'resample_state: result table / single return not '
                                               'found')
    rv = rets[0].value
    if isinstance(rv, ast.Name) and rv.id != R:
        ds = [n for n in walk_no_nested_funcs(f.node) if isinstance(n, ast.Assign) and
              len(n.targets) == 1 and isinstance(n.targets[0], ast.Name) and
              n.targets[0].id == rv.id]
        if len(ds) == 1:
            rv = ds[0].value
    colsel = '%s.columns' % state
    # spellings of "the result with the columns in the order of the input"
    reordered = (isinstance(rv, ast.Subscript) and norm_text(rv.value) == R and
                 norm_text(rv.slice) == colsel) or \
        (isinstance(rv, ast.Subscript) and norm_text(rv.value) == R + '.loc' and
         norm_text(rv.slice) == ':, ' + colsel) or \
        (isinstance(rv, ast.Call) and norm_text(rv.func) == R + '.reindex' and not rv.args and
         [k.arg for k in rv.keywords] == ['columns'] and
         norm_text(rv.keywords[0].value) == colsel)
    # recognisably something else: the table as assembled, or another selection of it
    different = (isinstance(rv, ast.Name) and rv.id == R) or \
        (isinstance(rv, ast.Subscript) and norm_text(rv.value) in (R, R + '.loc'))
    ctx.need(reordered or different, 'resample_state: the returned expression `%s` is not read'
             % norm_text(rv)[:60])
    ok = reordered
    ctx.ob('RES-COLS', ok, None, 'result table (indexed by the clipped times) returned as '
           'result[state.columns]', f=f, node=(rets[0] if rets else f.node), key='cols',
           why='result is not re-ordered by state.columns: the column order of the input is lost')
    slerp_ok = False
    if slerp_call is not None and len(slerp_call.args) >= 2:
        a0, a1 = slerp_call.args[:2]
        slerp_ok = norm_text(a0) == '%s.index' % state and isinstance(a1, ast.Call) and \
            (res(a1.func) or '').endswith('Rotation.from_euler') and \
            isinstance(a1.args[0], ast.Constant) and a1.args[0].value == 'xyz' and \
            norm_text(a1.args[1]) == '%s[RPH_COLS]' % state and \
            ((len(a1.args) > 2 and norm_text(a1.args[2]) == 'True') or
             any(k.arg == 'degrees' and norm_text(k.value) == 'True' for k in a1.keywords))
    ctx.ob('RES-SLERP', slerp_ok, None, "RPH columns -> Slerp(state.index, from_euler('xyz', "
           "state[RPH_COLS], degrees))", f=f, node=(slerp_call or f.node), key='slerp',
           why='attitude columns are not interpolated by SLERP over the state index with the '
               "library's Euler convention")
    interp_ok = False
    if interp_call is not None and len(interp_call.args) >= 2 and O is not None:
        interp_ok = norm_text(interp_call.args[0]) == '%s.index' % state and \
            norm_text(interp_call.args[1]) in ('%s[%s].values' % (state, O),
                                               '%s[%s]' % (state, O),
                                               '%s[%s].to_numpy()' % (state, O)) and \
            any(k.arg == 'axis' and norm_text(k.value) == '0' for k in interp_call.keywords)
    ctx.ob('RES-SLERP', interp_ok, None, 'complement of RPH columns -> interp1d over state.index '
           'along axis 0', f=f, node=(interp_call or f.node), key='interp',
           why='non-attitude columns are not exactly the complement of RPH_COLS interpolated '
               'linearly over the state index')
    if interp_call is not None:
        # `interpolates other columns linearly`: interp1d's default kind, or 'linear' spelled out
        kind = None
        if len(interp_call.args) >= 3:
            kind = interp_call.args[2]
        for k in interp_call.keywords:
            if k.arg == 'kind':
                kind = k.value
        kv = 'linear'
        if kind is not None:
            try:
                kv = ctx.repo.fold(kind, f.module)
            except ValueError:
                kv = None
            ctx.need(kv is not None, 'resample_state: interp1d kind `%s` not read' % norm_text(kind))
        ctx.ob('RES-SLERP', kv in ('linear', 'slinear', 1), None, 'interp1d interpolates linearly',
               f=f, node=interp_call, key='interp-kind',
               why='non-attitude columns are interpolated with kind=%r, not linearly' % (kv,))
    stores = {}
    for st in ast.walk(f.node):
        if isinstance(st, ast.Assign) and isinstance(st.targets[0], ast.Subscript) and \
                R is not None and norm_text(st.targets[0].value) == R:
            stores[norm_text(st.targets[0].slice)] = st.value
    v1, v2 = stores.get('RPH_COLS'), stores.get(O or '?')
    ok = v1 is not None and v2 is not None and S is not None and I is not None and \
        norm_text(v1) in ("%s(%s).as_euler('xyz', True)" % (S, times),
                          "%s(%s).as_euler('xyz', degrees=True)" % (S, times)) and \
        norm_text(v2) == '%s(%s)' % (I, times)
    ctx.ob('RES-SLERP', ok, None, 'result[RPH_COLS] <- slerp(times) as xyz degrees, result[other] '
           '<- interpolator(times)', f=f, key='stores',
           why='interpolated blocks are stored under the wrong columns or evaluated at other '
               'times: %s' % {k: norm_text(v)[:60] for k, v in stores.items()})


def diff_wrap_cols(ctx):
    """Which columns of the difference are reduced: every angle column.  The operands may carry
    un-normalised angles (a perturbed state with roll 180.2, a [0, 360) convention) while the
    resampled operand comes back normalised by the rotation library - the final reduction is what
    reconciles them, for roll and pitch as for heading."""
    ctx.rule('DIFF-WRAP', 'compute_state_difference reduces all three angle differences (roll, pitch, '
             'heading) with util.to_180_range before returning, on a path taken whenever they are '
             'present')
    repo = ctx.repo
    f = repo.function('transform.compute_state_difference')
    ctx.touch(f)
    rph = list(repo.const('util.RPH_COLS'))
    res = lambda n: f.module.resolve(n, f.local_names())
    wrapped = set()
    sites = []
    for st in ast.walk(f.node):
        if not (isinstance(st, ast.Assign) and isinstance(st.targets[0], ast.Subscript) and
                isinstance(st.value, ast.Call) and
                (res(st.value.func) or '').endswith('util.to_180_range') and st.value.args):
            continue
        try:
            tcols = repo.fold(st.targets[0].slice, f.module)
        except ValueError:
            tcols = None
        a0 = st.value.args[0]
        try:
            scols = repo.fold(a0.slice, f.module) if isinstance(a0, ast.Subscript) else None
        except ValueError:
            scols = None
        tcols = [tcols] if isinstance(tcols, str) else (list(tcols) if tcols else None)
        scols = [scols] if isinstance(scols, str) else (list(scols) if scols else None)
        ctx.need(tcols is not None and scols is not None,
                 'compute_state_difference: columns of `%s` not constant' % norm_text(st)[:60])
        sites.append((st, tcols, scols))
        ctx.ob('DIFF-WRAP', tcols == scols and norm_text(st.targets[0].value) ==
               norm_text(a0.value), None, 'reduction of %s is stored back into the same columns'
               % tcols, f=f, node=st, key='same-' + ','.join(tcols),
               why='`%s` reduces columns %s but stores the result into %s'
                   % (norm_text(st)[:70], scols, tcols))
        wrapped |= set(tcols)
    ctx.floor('DIFF-WRAP', len(sites), 1, 'angle reductions in compute_state_difference')
    missing = [c for c in rph if c not in wrapped]
    ctx.ob('DIFF-WRAP', not missing, None, 'all of %s are reduced' % rph, f=f,
           node=sites[0][0], key='all-angles',
           why='the %s difference is returned as a raw subtraction (only %s reduced): for angles '
               'on either side of +-180 deg (an inverted platform, an operand that is not '
               'normalised against a resampled one) the difference is off by 360 deg'
               % ('/'.join(missing), sorted(wrapped)))
    # the reduction is reached whenever the columns are present: its guard is a presence test of
    # (a superset of) the reduced columns, not of something else
    bad_iter = []

    def presence_cols(test):
        """the column names whose presence `test` asserts (a membership test, directly or in a
        helper of the package resolved through the module / the enclosing function); None when
        the test is not read as a presence test"""
        def labels_arg(e):
            # an iterable of the LABELS of a frame or a series: .index / .columns / .keys();
            # iterating the object itself yields the column labels of a frame but the VALUES
            # of a series
            if isinstance(e, ast.Call) and norm_text(e.func) in ('set', 'list', 'tuple') and e.args:
                e = e.args[0]
            return (isinstance(e, ast.Attribute) and e.attr in ('index', 'columns')) or \
                (isinstance(e, ast.Call) and isinstance(e.func, ast.Attribute) and
                 e.func.attr == 'keys')

        def cols_in(body):
            for n in ast.walk(body):
                if isinstance(n, ast.Call) and isinstance(n.func, ast.Attribute) and \
                        n.func.attr in ('issubset', 'issuperset') and n.args and \
                        not labels_arg(n.args[0]) and not labels_arg(n.func.value):
                    bad_iter.append(n)
            has_in = any(isinstance(n, ast.Compare) and any(isinstance(o, ast.In) for o in n.ops)
                         for n in ast.walk(body)) or any(
                isinstance(n, ast.Call) and isinstance(n.func, ast.Attribute) and
                n.func.attr in ('issubset', 'isin', 'issuperset') for n in ast.walk(body)) or any(
                isinstance(n, ast.Compare) and any(isinstance(o, (ast.LtE, ast.GtE)) for o in n.ops)
                and any(isinstance(c, ast.Call) and norm_text(c.func) == 'set'
                        for c in ast.walk(n)) for n in ast.walk(body))
            if not has_in:
                return None
            out = set()
            for n in ast.walk(body):
                if isinstance(n, (ast.Name, ast.Attribute, ast.List, ast.Tuple, ast.Constant)):
                    try:
                        c = repo.fold(n, f.module)
                    except ValueError:
                        continue
                    if isinstance(c, str):
                        out.add(c)
                    elif isinstance(c, (list, tuple)) and c and all(isinstance(x, str) for x in c):
                        out |= set(c)
            return out
        if isinstance(test, ast.Call) and isinstance(test.func, ast.Name) and len(test.args) == 1:
            for n in ast.walk(f.node):
                if isinstance(n, ast.FunctionDef) and n is not f.node and n.name == test.func.id:
                    return cols_in(n)
            q = res(test.func)
            g = repo.lookup(q) if q else None
            if g is not None and hasattr(g, 'node'):
                return cols_in(g.node)
            return None
        return cols_in(test)

    for st, tcols, _ in sites:
        guards = [x for x in ast.walk(f.node) if isinstance(x, ast.If) and
                  any(y is st for y in ast.walk(x))]
        for gd in guards:
            t = norm_text(gd.test)
            if any(isinstance(n, ast.Call) and res(n.func) == 'builtins.isinstance'
                   for n in ast.walk(gd.test)):
                continue          # the table / series dispatch
            pc = presence_cols(gd.test)
            ctx.need(pc is not None, 'compute_state_difference: guard `%s` of the angle reduction '
                                     'is not read as a presence test' % t[:60])
            for bi in bad_iter:
                ctx.ob('DIFF-WRAP', False, None, 'presence is tested on labels', f=f, node=gd,
                       key='guard-iterates-' + norm_text(bi)[:30],
                       why='the guard of the angle reduction tests `%s`: set membership by '
                           'iterating the object yields the column labels of a DataFrame but the '
                           'VALUES of a Series, so for a pair of Series the angles are never '
                           'reduced' % norm_text(bi)[:60])
            del bad_iter[:]
            okg = set(tcols) <= pc
            ctx.ob('DIFF-WRAP', okg, None, 'the reduction of %s is guarded by their presence'
                   % tcols, f=f, node=gd, key='guard-' + ','.join(tcols),
                   why='the reduction of %s runs only under `%s`, which is not a test that these '
                       'columns are present' % (tcols, t[:60]))
