"""NAME-BOUND - every name a function reads is bound somewhere it can be found.

Scoping is taken from the standard library's `symtable` (the compiler's own resolution: locals,
cells, comprehension scopes, class bodies, `global` declarations).  A name that the compiler
resolves as an *implicit global* of a function and that is neither bound at module level (an
assignment, import, def or class - in any branch) nor a builtin raises NameError on every
execution of the statement that reads it.  Typical origin: a statement that bound a local was
edited to bind another name (`rho2 = V2 / re` for `rho1 = ...`), or a rarely taken branch uses a
name from a sibling function.  The rule is definite (no flow analysis is involved); a local that
is bound on some paths only is NOT judged here.
"""
import ast
import builtins
import re
import symtable

from ..model import norm_text


def _first_load(fnode, name):
    best = None
    for n in ast.walk(fnode):
        if isinstance(n, ast.Name) and n.id == name and isinstance(n.ctx, ast.Load):
            if best is None or (n.lineno, n.col_offset) < (best.lineno, best.col_offset):
                best = n
    return best


def name_bound(ctx, modules=None):
    ctx.rule('NAME-BOUND', 'every name read in a function is a local, an enclosing-scope variable, '
             'a module-level binding or a builtin (compiler scoping via symtable): no NameError')
    repo = ctx.repo
    n_fn = 0
    for mod in repo.modules.values():
        short = mod.name.split('.')[-1]
        if modules and short not in modules:
            continue
        if short.startswith('test_') or '.tests' in mod.name:
            continue
        src = mod.source if hasattr(mod, 'source') else open(mod.path).read()
        top = symtable.symtable(src, mod.relpath, 'exec')
        module_names = {s.get_name() for s in top.get_symbols()
                        if s.is_assigned() or s.is_imported() or s.is_namespace()}
        # `from x import *` would defeat the rule
        star = any(isinstance(n, ast.ImportFrom) and any(a.name == '*' for a in n.names)
                   for n in ast.walk(mod.tree))
        if star:
            continue
        fnodes = {}
        for n in ast.walk(mod.tree):
            if isinstance(n, (ast.FunctionDef, ast.AsyncFunctionDef, ast.Lambda)):
                fnodes.setdefault((getattr(n, 'name', 'lambda'), n.lineno), n)

        def visit(tab, owner):
            nonlocal n_fn
            for ch in tab.get_children():
                node = fnodes.get((ch.get_name(), ch.get_lineno()))
                own = owner
                if ch.get_type() == 'function' and node is not None and \
                        not isinstance(node, ast.Lambda):
                    own = node
                    n_fn += 1
                if ch.get_type() == 'function':
                    for s in ch.get_symbols():
                        nm = s.get_name()
                        if s.is_referenced() and s.is_global() and not s.is_declared_global() \
                                and nm not in module_names and not hasattr(builtins, nm):
                            at = _first_load(own if own is not None else mod.tree, nm)
                            f = None
                            if own is not None:
                                for fi in repo.all_functions():
                                    if fi.module is mod and fi.node is own:
                                        f = fi
                            ctx.ob('NAME-BOUND', False, mod.relpath, "name '%s' is bound" % nm,
                                   f=f, node=at, key='%s:%s' % (getattr(own, 'name', '?'), nm),
                                   why="`%s` reads the name '%s', which is not bound in the "
                                       'function, in an enclosing scope, at module level or as a '
                                       'builtin: NameError whenever this statement runs'
                                       % (getattr(own, 'name', '<module>'), nm))
                visit(ch, own)
        visit(top, None)
    ctx.ob('NAME-BOUND', True, None, '%d functions: every implicit global is bound' % n_fn,
           key='scanned')
    ctx.floor('NAME-BOUND', n_fn, 1, 'functions')


def arg_order(ctx, modules=None):
    """ARG-ORDER - a local passed positionally under the name of ANOTHER parameter of the callee.

    When a call to a function of the package passes plain names (or attributes) positionally and
    two or more of them coincide with parameter names of the callee, the author named them after
    those parameters; one of them sitting at the position of a different parameter
    (`principal_radii(alt, lat)`, `kalman.correct(P, x, …)`) contradicts that stated belief.  On the
    pinned tree 25 calls have two or more name-matching arguments and none is misplaced."""
    from ..model import FunctionInfo, ClassInfo
    ctx.rule('ARG-ORDER', 'positional arguments that carry the name of a parameter of the callee sit '
             'at the position of that parameter')
    repo = ctx.repo
    n = 0
    for f in repo.all_functions():
        short = f.module.name.split('.')[-1]
        if modules and short not in modules:
            continue
        if '.tests' in f.module.name:
            continue
        for call in ast.walk(f.node):
            if not isinstance(call, ast.Call):
                continue
            q = f.module.resolve(call.func, f.local_names())
            tgt = repo.lookup(q) if q and q.startswith('pyins') else None
            params = None
            if isinstance(tgt, ClassInfo):
                h = repo.class_member(tgt, '__init__')
                params = h.params[1:] if isinstance(h, FunctionInfo) else None
            elif isinstance(tgt, FunctionInfo):
                params = tgt.params[1:] if (tgt.cls is not None and not tgt.is_static and
                                            isinstance(call.func, ast.Attribute)) else tgt.params
            if not params:
                continue
            from ..model import positional_layout
            lay = positional_layout(repo, f.module, f.local_names(), call)
            both = []
            for (pos, a), k_ in zip(lay, range(len(lay))):
                nm = a.id if isinstance(a, ast.Name) else (
                    a.attr if isinstance(a, ast.Attribute) else None)
                if nm in params and pos is not None:
                    both.append((pos, nm, a))
            if len(both) < 2:
                continue
            n += 1
            for i, nm, anode in both:
                j = params.index(nm)
                ok = i == j or i >= len(params)
                ctx.ob('ARG-ORDER', ok, None, '%s: `%s` at the position of parameter %s'
                       % (f.qualname, nm, nm), f=f, node=anode,
                       key='%s->%s:%s' % (f.qualname, norm_text(call.func), nm),
                       why='%s calls `%s` with `%s` at the position of the parameter `%s`, while '
                           'the callee has a parameter named `%s` at position %d: arguments '
                           'exchanged' % (f.qualname, norm_text(call)[:70], nm,
                                          params[i] if i < len(params) else '?', nm, j + 1))
    ctx.ob('ARG-ORDER', True, None, '%d calls with two or more name-matching arguments' % n,
           key='scanned')


_TABLE_KINDS = ('Imu', 'Trajectory', 'Increments', 'TrajectoryError')
_ROW_KINDS = ('Pva', 'PvaError')


def col_byname(ctx, modules=None):
    """COL-BYNAME - the documented kinds (tables Imu, Trajectory, Increments, TrajectoryError;
    rows Pva, PvaError) are defined by their column / index NAMES ("the same kinds of data have
    the same set of columns (or index in case of Series)", pyins/__init__.py); a public function
    that takes one of them as a whole by position (`.values`, `.to_numpy()`, `np.asarray(x)`,
    `np.hsplit(x, ...)`, `.iloc[:, k]`; for a row also `.iloc[k]`, `x[a:b]`, `x[3]`) silently
    reads the wrong signals from an object whose labels come in another order (a file read with
    pandas, a Series built from a dict).  Row-positional access to a table (`.iloc[k]`,
    `.iloc[a:b]`) carries no such obligation.  On the pinned tree no documented parameter is
    used this way."""
    ctx.rule('COL-BYNAME', 'a parameter documented as Imu / Trajectory / Increments / TrajectoryError '
             '/ Pva / PvaError is never taken column-wise by position')
    n = 0
    for f in ctx.repo.public_surface():
        short = f.module.name.split('.')[-1]
        if modules and short not in modules:
            continue
        try:
            params = f.doc_kinds().get('params', {})
        except Exception:
            params = {}
        for p, kind in params.items():
            k = str(kind)
            words = set(re.findall(r'[A-Za-z]+', k)) - {'or', 'optional', 'None'}
            if not words or not words <= set(_TABLE_KINDS + _ROW_KINDS):
                continue
            row_only = words <= set(_ROW_KINDS)
            n += 1
            res = lambda x: f.module.resolve(x, f.local_names()) or ''
            for node in ast.walk(f.node):
                bad = None
                if isinstance(node, ast.Attribute) and isinstance(node.value, ast.Name) and \
                        node.value.id == p and node.attr in ('values', 'to_numpy', 'array'):
                    bad = norm_text(node)
                if isinstance(node, ast.Subscript) and isinstance(node.value, ast.Attribute) and \
                        isinstance(node.value.value, ast.Name) and node.value.value.id == p and \
                        node.value.attr in ('iloc', 'iat'):
                    sl = node.slice
                    if isinstance(sl, ast.Tuple) and len(sl.elts) == 2 and not (
                            isinstance(sl.elts[1], ast.Slice) and sl.elts[1].lower is None and
                            sl.elts[1].upper is None and sl.elts[1].step is None):
                        bad = norm_text(node)
                    elif row_only:
                        bad = norm_text(node)
                if row_only and isinstance(node, ast.Subscript) and \
                        isinstance(node.value, ast.Name) and node.value.id == p and (
                            isinstance(node.slice, ast.Slice) or
                            (isinstance(node.slice, ast.Constant) and
                             isinstance(node.slice.value, int)) or
                            (isinstance(node.slice, ast.UnaryOp) and
                             isinstance(node.slice.operand, ast.Constant) and
                             isinstance(node.slice.operand.value, int))):
                    bad = norm_text(node)
                if isinstance(node, ast.Call) and res(node.func) in (
                        'numpy.asarray', 'numpy.array', 'numpy.hsplit', 'numpy.split',
                        'numpy.ascontiguousarray', 'numpy.asanyarray', 'numpy.asfarray',
                        'numpy.atleast_1d', 'numpy.atleast_2d', 'numpy.ravel',
                        'builtins.list', 'builtins.tuple') \
                        and node.args and isinstance(node.args[0], ast.Name) and \
                        node.args[0].id == p:
                    bad = norm_text(node)
                if bad:
                    ctx.ob('COL-BYNAME', False, None, '%s of %s by name' % (p, f.qualname), f=f,
                           node=node, key='%s:%s:%s' % (f.qualname, p, bad[:40]),
                           why='%s takes its %s parameter `%s` column-wise by position (`%s`): the '
                               'kind is defined by its labels, an object with the same labels in '
                               'another order is read as the wrong signals' % (f.qualname, k[:30],
                                                                               p, bad[:60]))
    ctx.ob('COL-BYNAME', True, None, '%d documented table parameters examined' % n, key='scanned')


def len_dispatch(ctx, modules=('transform', 'earth', 'util', 'error_model')):
    """FORM-LEN - the functions of these modules take one item (a triple, a 3x3 matrix) or a
    stack of items and tell the two apart by the NUMBER OF DIMENSIONS.  A test of the length of
    the leading axis against a constant (`len(rph) != 3`, `x.shape[0] == 3`) cannot: a stack of
    exactly that many items has the same length as a single item, and is then read transposed /
    as one item.  On the pinned tree no such test exists."""
    ctx.rule('FORM-LEN', 'single items and stacks are told apart by ndim, never by comparing the '
             'length of the leading axis with a constant')
    n = 0
    for f in ctx.repo.all_functions():
        short = f.module.name.split('.')[-1]
        if short not in modules or '.tests' in f.module.name:
            continue
        n += 1
        for c in ast.walk(f.node):
            if not (isinstance(c, ast.Compare) and len(c.ops) == 1 and
                    isinstance(c.ops[0], (ast.Eq, ast.NotEq)) and
                    isinstance(c.comparators[0], ast.Constant) and
                    isinstance(c.comparators[0].value, int) and
                    not isinstance(c.comparators[0].value, bool) and
                    c.comparators[0].value >= 2):
                continue
            l_ = c.left
            is_len = isinstance(l_, ast.Call) and isinstance(l_.func, ast.Name) and \
                l_.func.id == 'len' and len(l_.args) == 1
            is_shape0 = isinstance(l_, ast.Subscript) and isinstance(l_.value, ast.Attribute) and \
                l_.value.attr == 'shape' and isinstance(l_.slice, ast.Constant) and \
                l_.slice.value == 0
            if not (is_len or is_shape0):
                continue
            # only tests that steer the computation (an `if` / conditional expression), not
            # argument validation that raises
            par = [x for x in ast.walk(f.node) if isinstance(x, (ast.If, ast.IfExp)) and
                   any(y is c for y in ast.walk(x.test))]
            if not par or all(isinstance(x, ast.If) and x.body and
                              isinstance(x.body[0], ast.Raise) for x in par):
                continue
            ctx.ob('FORM-LEN', False, None, 'forms told apart by ndim', f=f, node=c,
                   key='%s:%s' % (f.qualname, norm_text(c)[:40]),
                   why='%s branches on `%s`: a stack of exactly %d items has the same leading '
                       'length as a single item, so such a stack is taken for (or transposed '
                       'like) a single one - the stacked form then disagrees with the items '
                       'converted one by one' % (f.qualname, norm_text(c),
                                                 c.comparators[0].value))
    ctx.ob('FORM-LEN', True, None, '%d functions scanned' % n, key='scanned')
    ctx.floor('FORM-LEN', n, 20, 'functions')


def attr_bound(ctx, modules=None):
    """ATTR-BOUND - every attribute a method reads on `self` / `cls` / its own class is bound
    somewhere in the class (class body, a `self.x = ...` in any method, a method, a property)
    or in a base class of the package.  The class-level counterpart of NAME-BOUND: a renamed
    class constant (`DRN = 0` -> `DRE = 0`) leaves every `self.DRN` an AttributeError.  Classes
    with a base outside the package, `__getattr__`, `__slots__` tricks or `setattr` are not
    judged."""
    ctx.rule('ATTR-BOUND', 'every attribute read on self / cls / the class itself is bound in the '
             'class or in a base class of the package: no AttributeError')
    repo = ctx.repo
    n = 0
    for mod in repo.modules.values():
        short = mod.name.split('.')[-1]
        if modules and short not in modules:
            continue
        if '.tests' in mod.name:
            continue
        for cname, ci in getattr(mod, 'classes', {}).items():
            node = ci.node
            # bases: only classes of the same module (or none / object)
            chain, ok_bases = [node], True
            todo = list(node.bases)
            while todo:
                b = todo.pop()
                bn = b.id if isinstance(b, ast.Name) else None
                if bn in ('object',):
                    continue
                if bn is not None and bn in mod.classes:
                    chain.append(mod.classes[bn].node)
                    todo.extend(mod.classes[bn].node.bases)
                else:
                    ok_bases = False
            if not ok_bases:
                continue
            bound = set()
            dynamic = False
            for cn in chain:
                for st in cn.body:
                    if isinstance(st, (ast.FunctionDef, ast.AsyncFunctionDef, ast.ClassDef)):
                        bound.add(st.name)
                        if st.name in ('__getattr__', '__getattribute__'):
                            dynamic = True
                    elif isinstance(st, (ast.Assign, ast.AnnAssign, ast.AugAssign)):
                        for t in (st.targets if isinstance(st, ast.Assign) else [st.target]):
                            for x in ast.walk(t):
                                if isinstance(x, ast.Name):
                                    bound.add(x.id)
                for x in ast.walk(cn):
                    if isinstance(x, ast.Attribute) and isinstance(x.ctx, ast.Store) and \
                            isinstance(x.value, ast.Name) and x.value.id in ('self', 'cls'):
                        bound.add(x.attr)
                    if isinstance(x, ast.Call) and isinstance(x.func, ast.Name) and \
                            x.func.id in ('setattr', 'vars') or \
                            (isinstance(x, ast.Attribute) and x.attr == '__dict__'):
                        dynamic = True
            if dynamic:
                continue
            n += 1
            for x in ast.walk(node):
                if isinstance(x, ast.Attribute) and isinstance(x.ctx, ast.Load) and \
                        isinstance(x.value, ast.Name) and x.value.id in ('self', 'cls', cname) and \
                        x.attr not in bound and not (x.attr.startswith('__') and
                                                     x.attr.endswith('__')):
                    f = None
                    for fi in repo.all_functions():
                        if fi.module is mod and any(y is x for y in ast.walk(fi.node)):
                            f = fi
                    ctx.ob('ATTR-BOUND', False, mod.relpath, "attribute '%s' is bound" % x.attr,
                           f=f, node=x, key='%s.%s' % (cname, x.attr),
                           why="%s reads `%s`, but no attribute '%s' is bound in the class %s (nor "
                               'in a base class): AttributeError whenever this expression is '
                               'evaluated' % (f.qualname if f else cname, norm_text(x), x.attr,
                                              cname))
    ctx.ob('ATTR-BOUND', True, None, '%d classes: every attribute read on self / cls is bound' % n,
           key='scanned')


def local_before_def(ctx, modules=None):
    """LOCAL-ORDER - a local variable is not read before the textually first statement that
    binds it.  Python decides at compile time that a name assigned anywhere in a function is a
    local; reading it before any binding has run raises UnboundLocalError - on the first
    iteration when the binding sits later in the same loop body.  Typical origin: the target of
    an assignment was edited (`V1 = ...` -> `V2 = ...`) while later statements still read the
    old name, which is bound further down.  Definite whenever the reading statement runs;
    names bound only on some of the earlier paths are NOT judged."""
    ctx.rule('LOCAL-ORDER', 'no local is read before the textually first statement binding it '
             '(UnboundLocalError)')
    repo = ctx.repo
    n = 0

    class _Raw:
        pass
    raw_functions = []
    for mod in repo.modules.values():
        short = mod.name.split('.')[-1]
        if (modules and short not in modules) or '.tests' in mod.name:
            continue
        # textual order is a property of the FILE: the program model's tree has helper code
        # inlined with borrowed positions, so this rule reads the source as written
        try:
            raw = ast.parse(mod.source)
        except SyntaxError:
            continue
        infos = [fi for fi in repo.all_functions() if fi.module is mod]

        def walk(node, prefix):
            for ch in ast.iter_child_nodes(node):
                if isinstance(ch, (ast.FunctionDef, ast.AsyncFunctionDef)):
                    r_ = _Raw()
                    r_.node, r_.qualname = ch, prefix + ch.name
                    r_.info = next((fi for fi in infos if fi.qualname == r_.qualname), None)
                    raw_functions.append(r_)
                    walk(ch, prefix + ch.name + '.')
                elif isinstance(ch, ast.ClassDef):
                    walk(ch, prefix + ch.name + '.')
                else:
                    walk(ch, prefix)
        walk(raw, '')
    for f in raw_functions:
        n += 1
        a_ = f.node.args
        params = {x.arg for x in a_.posonlyargs + a_.args + a_.kwonlyargs}
        for x in (a_.vararg, a_.kwarg):
            if x is not None:
                params.add(x.arg)
        nested = set()
        for sub in ast.walk(f.node):
            if sub is not f.node and isinstance(sub, (ast.FunctionDef, ast.AsyncFunctionDef,
                                                      ast.Lambda, ast.ClassDef, ast.ListComp,
                                                      ast.SetComp, ast.DictComp,
                                                      ast.GeneratorExp)):
                nested |= {id(y) for y in ast.walk(sub)}
        globs = set()
        for st in ast.walk(f.node):
            if isinstance(st, (ast.Global, ast.Nonlocal)):
                globs |= set(st.names)
        first_store, first_load = {}, {}
        for x in ast.walk(f.node):
            if id(x) in nested or not isinstance(x, ast.Name):
                continue
            pos = (x.lineno, x.col_offset)
            if isinstance(x.ctx, (ast.Store, ast.Del)):
                if x.id not in first_store or pos < first_store[x.id][0]:
                    first_store[x.id] = (pos, x)
            else:
                if x.id not in first_load or pos < first_load[x.id][0]:
                    first_load[x.id] = (pos, x)
        # `x += ...` reads x: the target of an augmented assignment counts as a load as well
        for st in ast.walk(f.node):
            if id(st) in nested:
                continue
            if isinstance(st, ast.AugAssign) and isinstance(st.target, ast.Name):
                pos = (st.target.lineno, st.target.col_offset - 0.5)
                if st.target.id not in first_load or pos < first_load[st.target.id][0]:
                    first_load[st.target.id] = (pos, st.target)
        # the value of `x = <e>` is evaluated before x is bound although it stands to the right
        for st in ast.walk(f.node):
            if id(st) in nested or not isinstance(st, (ast.Assign, ast.AnnAssign)):
                continue
            tg = st.targets if isinstance(st, ast.Assign) else [st.target]
            stored = {y.id for t in tg for y in ast.walk(t) if isinstance(y, ast.Name) and
                      isinstance(y.ctx, ast.Store)}
            if st.value is None:
                continue
            for y in ast.walk(st.value):
                if isinstance(y, ast.Name) and isinstance(y.ctx, ast.Load) and y.id in stored \
                        and id(y) not in nested and y.id in first_store and \
                        first_store[y.id][0] >= (st.lineno, st.col_offset):
                    pos = (st.lineno, st.col_offset - 0.5)
                    if pos < first_load.get(y.id, ((1e9, 0), None))[0]:
                        first_load[y.id] = (pos, y)
        for nm, (lp, lnode) in sorted(first_load.items()):
            if nm in params or nm in globs or nm not in first_store:
                continue
            sp = first_store[nm][0]
            if lp < sp:
                ctx.ob('LOCAL-ORDER', False, None, "local '%s' is bound before it is read" % nm,
                       f=f.info, node=lnode, key='%s:%s' % (f.qualname, nm),
                       why="%s reads the local '%s' on line %d, but the first statement that binds "
                           'it is on line %d: UnboundLocalError when the reading statement runs '
                           '(on the first iteration, if both sit in one loop body)'
                           % (f.qualname, nm, lnode.lineno, sp[0]))
    ctx.ob('LOCAL-ORDER', True, None, '%d functions scanned' % n, key='scanned')
    ctx.floor('LOCAL-ORDER', n, 1, 'functions')



# ------------------------------------------------------------------ GLOBAL-STATE
_VIEW_CALLS = ('numpy.asarray', 'numpy.asanyarray', 'numpy.atleast_1d', 'numpy.atleast_2d',
               'numpy.atleast_3d', 'numpy.ascontiguousarray', 'numpy.require', 'numpy.ravel',
               'numpy.reshape', 'numpy.squeeze', 'numpy.transpose', 'numpy.asarray_chkfinite')


def _alias_closure(f):
    """names of f that may denote (a view of) an argument object: parameters, and locals bound
    to a view expression of one (fixed point; no copy, arithmetic or constructor in between)"""
    loc = f.local_names()
    res = lambda e: f.module.resolve(e, loc) if isinstance(e, (ast.Name, ast.Attribute)) else None
    params = [p for p in f.params + f.kwonly if p not in ('self', 'cls')]
    al = {p: p for p in params}

    def view_of(e):
        if isinstance(e, ast.Name):
            return al.get(e.id)
        if isinstance(e, ast.Call) and res(e.func) in _VIEW_CALLS and e.args:
            return view_of(e.args[0])
        if isinstance(e, ast.Attribute) and e.attr in ('T', 'values', 'real', 'flat'):
            return view_of(e.value)
        if isinstance(e, ast.Call) and isinstance(e.func, ast.Attribute) and \
                e.func.attr in ('view', 'reshape', 'ravel', 'squeeze', 'transpose', 'swapaxes',
                                'to_numpy') and res(e.func) is None:
            return view_of(e.func.value)
        if isinstance(e, ast.Subscript):
            return view_of(e.value)
        return None
    for _ in range(4):
        for st in ast.walk(f.node):
            if isinstance(st, ast.Assign) and len(st.targets) == 1 and \
                    isinstance(st.targets[0], ast.Name):
                v = view_of(st.value)
                if v is not None and st.targets[0].id not in al:
                    al[st.targets[0].id] = v
    return al, view_of


def global_state(ctx, modules=None):
    """A function that re-binds a module-level name (`global X; X = ...`) carries state from one
    call into the next.  When what it remembers is (a view of) an argument object - not a copy -
    the memory changes under it when the caller later writes into that array: a comparison of
    the new argument with the remembered one compares an object with itself, and the result
    remembered for the old contents is handed out for the new ones (round-9 seeds C08 and C17:
    one-entry caches keyed by the argument array).  The effect analysis (PUR-GLOBAL) sees writes
    *into* module-level arrays; this rule sees the re-binding."""
    ctx.rule('GLOBAL-STATE', 'no function keeps a reference to an argument object in module-level '
             'state (`global X; X = <argument or a view of it>`): results would depend on what '
             'the caller does to its own arrays between calls')
    n = 0
    for f in ctx.repo.all_functions():
        short = f.module.name.split('.')[-1]
        if modules and short not in modules:
            continue
        n += 1
        gl = set()
        for st in ast.walk(f.node):
            if isinstance(st, (ast.Global, ast.Nonlocal)):
                gl |= set(st.names)
        if not gl:
            continue
        al, view_of = _alias_closure(f)
        bad = False
        for st in ast.walk(f.node):
            if not isinstance(st, (ast.Assign, ast.AnnAssign)):
                continue
            tg = st.targets if isinstance(st, ast.Assign) else [st.target]
            names_ = [t.id for t in tg if isinstance(t, ast.Name)]
            if not (set(names_) & gl) or st.value is None:
                continue
            parts = st.value.elts if isinstance(st.value, (ast.Tuple, ast.List)) else [st.value]
            kept = [(norm_text(e), view_of(e)) for e in parts if view_of(e) is not None]
            for txt, par in kept:
                bad = True
                ctx.ob('GLOBAL-STATE', False, None, '%s keeps no argument in module state'
                       % f.qualname, f=f, node=st, key='global-%s-%s' % (names_[0], par),
                       why='%s stores `%s` - the caller\'s own `%s`, not a copy - in the '
                           'module-level name `%s`: when the caller changes that array in place '
                           'and calls again, the remembered object has changed with it (an '
                           'equality test against it compares the array with itself) and what '
                           'was remembered for the old contents is used for the new ones'
                           % (f.qualname, txt, par, names_[0]))
        if not bad:
            ctx.ob('GLOBAL-STATE', True, None, '%s re-binds module state %s without keeping an '
                   'argument object' % (f.qualname, sorted(gl)), f=f, key='global-' + f.qualname)
    ctx.ob('GLOBAL-STATE', True, None, '%d functions examined for `global` re-bindings' % n,
           key='summary')
    if not ctx.cache.get('global-state-fixture'):
        ctx.cache['global-state-fixture'] = True
        src = ('_last = None\n'
               'def memo(x, y):\n    global _last\n    x = np.asarray(x, dtype=float)\n'
               '    _last = (x, y.copy())\n    return x\n')
        fn = ast.parse(src).body[1]

        class _M:
            @staticmethod
            def resolve(e, loc):
                t = norm_text(e)
                return t.replace('np.', 'numpy.', 1) if t.startswith('np.') else None

        class _F:
            node, module, params, kwonly = fn, _M, ['x', 'y'], []

            @staticmethod
            def local_names():
                return {'x', 'y'}
        al, view_of = _alias_closure(_F)
        tup = [s_ for s_ in ast.walk(fn) if isinstance(s_, ast.Assign) and
               isinstance(s_.value, ast.Tuple)][0].value.elts
        if [view_of(e) for e in tup] != ['x', None]:
            raise AssertionError('GLOBAL-STATE fixture not recognised')
        ctx.ob('GLOBAL-STATE', True, None, 'positive fixture: a remembered asarray view is an '
               'argument object, a remembered copy is not', key='fixture')


# ------------------------------------------------------------------ FIELD-STATE
def field_state(ctx, modules=None):
    """The instance form of GLOBAL-STATE: a method (not the constructor) stores its argument, or
    a view of it, in `self.<attr>` and some method of the class tests an argument against that
    attribute (`is`, `==`, np.array_equal, np.allclose ...) - a memo keyed by the caller's own
    object.  When the caller changes the object in place, the key changes with it (or, for an
    identity test, stays the same object with other contents) and the remembered result is
    handed out for the new contents."""
    ctx.rule('FIELD-STATE', 'no method remembers an argument object (not a copy) in a field and '
             'later compares an argument with it: results would depend on what the caller does to '
             'its own arrays between calls')
    n = 0
    for f in ctx.repo.all_functions():
        short = f.module.name.split('.')[-1]
        if modules and short not in modules:
            continue
        if f.cls is None or f.is_static or not f.params or f.name in ('__init__', '__new__'):
            continue
        n += 1
        me = f.params[0]
        al, view_of = _alias_closure(f)
        stored = {}
        for st in ast.walk(f.node):
            if isinstance(st, ast.Assign) and len(st.targets) == 1 and \
                    isinstance(st.targets[0], ast.Attribute) and \
                    isinstance(st.targets[0].value, ast.Name) and st.targets[0].value.id == me:
                par = view_of(st.value)
                if par is not None and par != me:
                    stored[st.targets[0].attr] = (st, par)
        if not stored:
            continue
        # is an argument compared with the remembered object anywhere in the class?
        for attr, (st, par) in sorted(stored.items()):
            hit = None
            for m in f.cls.methods.values():
                if not m.params:
                    continue
                me2 = m.params[0]
                for c in ast.walk(m.node):
                    texts = []
                    if isinstance(c, ast.Compare):
                        texts = [c.left] + list(c.comparators)
                    elif isinstance(c, ast.Call) and norm_text(c.func).split('.')[-1] in (
                            'array_equal', 'allclose', 'isclose', 'array_equiv', 'equals'):
                        texts = list(c.args) + ([c.func.value] if isinstance(c.func, ast.Attribute)
                                                else [])
                    flat = []
                    for t_ in texts:
                        flat += [x for x in ast.walk(t_)]
                    reads_attr = any(isinstance(x, ast.Attribute) and x.attr == attr and
                                     isinstance(x.value, ast.Name) and x.value.id == me2
                                     for x in flat) or any(
                        isinstance(x, ast.Call) and norm_text(x.func) == 'getattr' and
                        len(x.args) >= 2 and isinstance(x.args[1], ast.Constant) and
                        x.args[1].value == attr for x in flat)
                    reads_param = any(isinstance(x, ast.Name) and x.id in m.params[1:]
                                      for x in flat)
                    if reads_attr and reads_param:
                        hit = (m, c)
            if hit is None:
                ctx.ob('FIELD-STATE', True, None, '%s: self.%s keeps `%s` but no argument is '
                       'compared with it' % (f.qualname, attr, par), f=f, node=st,
                       key='field-%s-%s' % (f.qualname, attr))
                continue
            ctx.ob('FIELD-STATE', False, None, '%s keeps no argument as a memo key' % f.qualname,
                   f=f, node=st, key='field-%s-%s' % (f.qualname, attr),
                   why='%s stores the caller\'s own `%s` (not a copy) in self.%s, and %s tests an '
                       'argument against it (`%s`): after the caller has changed that object in '
                       'place the test still succeeds and what was computed for the old contents '
                       'is returned for the new ones' % (f.qualname, par, attr, hit[0].qualname,
                                                         norm_text(hit[1])[:70]))
    ctx.ob('FIELD-STATE', True, None, '%d methods examined' % n, key='summary')


# ------------------------------------------------------------------ TIME-RTOL
def time_rtol(ctx, modules=None):
    """np.isclose / np.allclose have a *relative* default tolerance (1e-5 * |b| + 1e-8).  Applied
    to time stamps it grows with absolute time: at t = 4e5 s (GPS seconds of week, a long log)
    stamps 4 s apart are "close".  A decision (branch, mask) taken on such a comparison treats
    genuinely different epochs as equal for large time values and as different for small ones
    (round-9 seed C18: resampling skipped for tables offset by half a sample; round-3 seed C06).
    Judged: calls whose compared operands are read as time stamps (`<x>.index`, or a local bound
    to one) and whose result feeds a test or a mask, without `rtol=0`."""
    ctx.rule('TIME-RTOL', 'no branch or mask is decided by np.isclose / np.allclose on time stamps '
             'with a relative tolerance (it scales with absolute time)')
    n = 0
    for f in ctx.repo.all_functions():
        short = f.module.name.split('.')[-1]
        if modules and short not in modules:
            continue
        loc = f.local_names()
        res = lambda e: f.module.resolve(e, loc) if isinstance(e, (ast.Name, ast.Attribute)) \
            else None
        stamps = set()
        for _ in range(3):
            for st in ast.walk(f.node):
                if isinstance(st, ast.Assign) and len(st.targets) == 1 and \
                        isinstance(st.targets[0], ast.Name):
                    if _is_stamp(st.value, stamps):
                        stamps.add(st.targets[0].id)
        tests = []
        for x in ast.walk(f.node):
            if isinstance(x, (ast.If, ast.While, ast.IfExp, ast.Assert)):
                tests.append(x.test)
            elif isinstance(x, ast.Subscript):
                tests.append(x.slice)
        tested_names = {y.id for t in tests for y in ast.walk(t) if isinstance(y, ast.Name)}
        for call in ast.walk(f.node):
            if not (isinstance(call, ast.Call) and res(call.func) in ('numpy.isclose',
                                                                       'numpy.allclose')
                    and len(call.args) >= 2):
                continue
            if not (_is_stamp(call.args[0], stamps) or _is_stamp(call.args[1], stamps)):
                continue
            # does the result decide something?
            decides = any(call is y for t in tests for y in ast.walk(t))
            if not decides:
                for st in ast.walk(f.node):
                    if isinstance(st, ast.Assign) and any(call is y for y in ast.walk(st.value)) \
                            and any(isinstance(t, ast.Name) and t.id in tested_names
                                    for t in st.targets):
                        decides = True
            if not decides:
                continue
            n += 1
            rtol = None
            if len(call.args) >= 3:
                rtol = call.args[2]
            for kw in call.keywords:
                if kw.arg == 'rtol':
                    rtol = kw.value
            zero = False
            if rtol is not None:
                try:
                    zero = ctx.repo.fold(rtol, f.module, f.cls) == 0
                except (ValueError, TypeError):
                    zero = False
            ctx.ob('TIME-RTOL', zero, None, '%s: time stamps compared with rtol=0' % f.qualname,
                   f=f, node=call, key='rtol-%s' % f.qualname,
                   why='`%s` decides a branch / mask by comparing time stamps with the default '
                       'relative tolerance (1e-5 * |t|): for large time values (t ~ 4e5 s: stamps '
                       'seconds apart) different epochs are taken as equal' % norm_text(call)[:90])
    ctx.ob('TIME-RTOL', True, None, '%d tolerance comparisons of time stamps decide a branch' % n,
           key='summary')


def _is_stamp(e, stamps):
    if isinstance(e, ast.Name):
        return e.id in stamps
    if isinstance(e, ast.Attribute) and e.attr == 'index':
        return True
    if isinstance(e, ast.Attribute) and e.attr in ('values', 'T'):
        return _is_stamp(e.value, stamps)
    if isinstance(e, ast.Subscript):
        return _is_stamp(e.value, stamps)
    if isinstance(e, ast.Call) and e.args and norm_text(e.func) in (
            'np.asarray', 'np.array', 'numpy.asarray', 'numpy.array', 'np.diff', 'np.ravel'):
        return _is_stamp(e.args[0], stamps) and norm_text(e.func) not in ('np.diff',)
    if isinstance(e, ast.Call) and isinstance(e.func, ast.Attribute) and \
            e.func.attr in ('to_numpy', 'copy', 'astype'):
        return _is_stamp(e.func.value, stamps)
    return False


# ------------------------------------------------------------------ FORM-SQUEEZE
def form_squeeze(ctx, modules=('transform', 'earth', 'util', 'error_model')):
    """A function that broadcasts several array-like arguments against each other (stack length
    `max(len(a), len(b))` / `max(a.size, b.size)`) returns the single-item form only when EVERY
    one of them is a single item.  A form test that asks one of them only (`lat.ndim == 0`)
    drops all but the first item of the result when that one is a scalar and another is a
    stack (round-9 seed C16-scalar-flag-from-latitude-only)."""
    ctx.rule('FORM-SQUEEZE', 'where several arguments are broadcast against each other, every test '
             'that selects the single-item form asks all of them')
    n = 0
    for f in ctx.repo.all_functions():
        short = f.module.name.split('.')[-1]
        if short not in modules or '.tests' in f.module.name:
            continue

        def sized(e):
            if isinstance(e, ast.Call) and isinstance(e.func, ast.Name) and e.func.id == 'len' \
                    and len(e.args) == 1 and isinstance(e.args[0], ast.Name):
                return e.args[0].id
            if isinstance(e, ast.Attribute) and e.attr == 'size' and isinstance(e.value, ast.Name):
                return e.value.id
            if isinstance(e, ast.Subscript) and isinstance(e.value, ast.Attribute) and \
                    e.value.attr == 'shape' and isinstance(e.value.value, ast.Name) and \
                    norm_text(e.slice) == '0':
                return e.value.value.id
            return None
        bcast = set()
        for c in ast.walk(f.node):
            if isinstance(c, ast.Call) and norm_text(c.func) in ('max', 'np.maximum', 'np.max') \
                    and len(c.args) >= 2:
                nm = [sized(a) for a in c.args]
                if all(nm) and len(set(nm)) >= 2:
                    bcast |= set(nm)
        # second idiom: several parameters each lifted by np.atleast_1d / np.atleast_2d and then
        # combined element-wise (transform.perturb_lla, compute_lla_difference)
        lifted = set()
        for st in ast.walk(f.node):
            if isinstance(st, ast.Assign) and len(st.targets) == 1 and \
                    isinstance(st.targets[0], ast.Name) and isinstance(st.value, ast.Call):
                c0 = st.value
                while isinstance(c0, ast.Call) and isinstance(c0.func, ast.Attribute) and \
                        c0.func.attr == 'copy':
                    c0 = c0.func.value
                if isinstance(c0, ast.Call) and norm_text(c0.func) in ('np.atleast_1d',
                                                                       'np.atleast_2d') and \
                        c0.args and isinstance(c0.args[0], ast.Name) and \
                        c0.args[0].id == st.targets[0].id and st.targets[0].id in f.params:
                    lifted.add(st.targets[0].id)
        if len(lifted) >= 2:
            bcast |= lifted
        if len(bcast) < 2:
            continue
        # form tests: conjunctions / single comparisons of `<name>.ndim` with 0 or 1
        def ndim_names(t):
            out = set()
            for x in ast.walk(t):
                if isinstance(x, ast.Compare) and isinstance(x.left, ast.Attribute) and \
                        x.left.attr == 'ndim' and isinstance(x.left.value, ast.Name) and \
                        len(x.ops) == 1 and isinstance(x.ops[0], (ast.Eq, ast.NotEq)) and \
                        isinstance(x.comparators[0], ast.Constant) and \
                        x.comparators[0].value in (0, 1):
                    out.add(x.left.value.id)
            return out
        tests = []
        for x in ast.walk(f.node):
            if isinstance(x, (ast.If, ast.IfExp)):
                tests.append((x.test, x))
            elif isinstance(x, ast.Assign) and len(x.targets) == 1 and \
                    isinstance(x.targets[0], ast.Name) and ndim_names(x.value):
                tests.append((x.value, x))
        for t, node in tests:
            S = ndim_names(t)
            if not (S & bcast):
                continue
            n += 1
            missing = sorted(bcast - S)
            ctx.ob('FORM-SQUEEZE', not missing, None, '%s: the form test `%s` asks every broadcast '
                   'argument' % (f.qualname, norm_text(t)[:50]), f=f, node=node,
                   key='squeeze-%s-%s' % (f.qualname, norm_text(t)[:40]),
                   why='%s broadcasts %s against each other (stack length = the largest of their '
                       'lengths) but decides the single-item form by `%s` alone: with a scalar '
                       'there and a stack in `%s` the result of the stacked computation is cut '
                       'down to its first item' % (f.qualname, sorted(bcast), norm_text(t)[:60],
                                                   ', '.join(missing)))
    ctx.floor('FORM-SQUEEZE', n, 1, 'form tests over broadcast arguments')


# ------------------------------------------------------------------ ZERO-BY-SUM
_CANCEL = ('sum', 'mean', 'nansum', 'nanmean', 'trace', 'average')
_NONNEG = ('abs', 'absolute', 'fabs', 'square', 'count_nonzero', 'any', 'all', 'hypot', 'linalg.norm',
           'norm')


def _zero_by_sum_sites(fnode):
    """[(selecting node, cancelling reduction node)] in one function"""
    defs = {}
    for st in ast.walk(fnode):
        if isinstance(st, ast.Assign) and len(st.targets) == 1 and \
                isinstance(st.targets[0], ast.Name):
            defs.setdefault(st.targets[0].id, []).append(st.value)

    def cancelling(e, depth=0):
        """the reduction call if e is a sum/mean of values that are not made non-negative"""
        if isinstance(e, ast.Name) and len(defs.get(e.id, [])) == 1 and depth < 3:
            return cancelling(defs[e.id][0], depth + 1)
        if not isinstance(e, ast.Call):
            return None
        fn = e.func
        nm = fn.attr if isinstance(fn, ast.Attribute) else getattr(fn, 'id', '')
        if nm not in _CANCEL:
            return None
        operand = None
        if isinstance(fn, ast.Attribute) and isinstance(fn.value, ast.Name) and \
                fn.value.id in ('np', 'numpy'):
            operand = e.args[0] if e.args else None
        elif isinstance(fn, ast.Attribute):
            operand = fn.value
        if operand is None:
            return None
        for x in ast.walk(operand):
            if isinstance(x, ast.Call):
                t = norm_text(x.func)
                if any(t.endswith(k) for k in _NONNEG):
                    return None
            if isinstance(x, ast.Compare):
                return None
            if isinstance(x, ast.BinOp) and isinstance(x.op, ast.Pow):
                return None
        return e
    out = []
    for c in ast.walk(fnode):
        red = None
        if isinstance(c, ast.Call) and norm_text(c.func) in (
                'np.flatnonzero', 'np.nonzero', 'np.argwhere', 'numpy.flatnonzero',
                'numpy.nonzero', 'numpy.argwhere') and c.args:
            red = cancelling(c.args[0])
        elif isinstance(c, ast.Call) and norm_text(c.func) in ('np.where', 'numpy.where') and \
                len(c.args) == 1:
            red = cancelling(c.args[0])
        elif isinstance(c, ast.Compare) and len(c.ops) == 1 and \
                isinstance(c.ops[0], (ast.NotEq, ast.Eq)) and \
                isinstance(c.comparators[0], ast.Constant) and c.comparators[0].value == 0 \
                and not isinstance(c.comparators[0].value, bool):
            red = cancelling(c.left)
        elif isinstance(c, ast.Call) and isinstance(c.func, ast.Attribute) and \
                c.func.attr == 'astype' and c.args and norm_text(c.args[0]) == 'bool':
            red = cancelling(c.func.value)
        if red is not None:
            out.append((c, red))
    return out


def zero_by_sum(ctx, modules=None):
    """`which entries / rows / columns are zero` decided through a reduction that can cancel:
    np.flatnonzero(H.sum(axis=0)), np.nonzero(A.mean(1)), (x.sum(axis=0) != 0) used as a mask.
    A column whose non-zero entries add up to zero is then taken for an all-zero one
    (round-9 seed C07: a sparse-H shortcut that drops such states from the update).  The
    non-cancelling spellings - any(), abs().sum(), count_nonzero, (x != 0).sum() - are silent."""
    ctx.rule('ZERO-BY-SUM', 'no selection (index list or mask) is derived from the non-zero pattern '
             'of a sum / mean of signed values: entries that cancel are not zero')
    n = 0
    for f in ctx.repo.all_functions():
        short = f.module.name.split('.')[-1]
        if modules and short not in modules:
            continue
        n += 1
        for c, red in _zero_by_sum_sites(f.node):
            ctx.ob('ZERO-BY-SUM', False, None, '%s: zero pattern read from the entries' % f.qualname,
                   f=f, node=c, key='zerosum-%s-%s' % (f.qualname, norm_text(c)[:40]),
                   why='`%s` takes an entry of `%s` that is zero for "nothing there": signed '
                       'entries that cancel (a row together with its negation, differenced '
                       'measurements) give a zero sum although they are not zero, and whatever is '
                       'selected by it leaves them out' % (norm_text(c)[:70], norm_text(red)[:50]))
    ctx.ob('ZERO-BY-SUM', True, None, '%d functions scanned' % n, key='summary')
    if not ctx.cache.get('zero-by-sum-fixture'):
        ctx.cache['zero-by-sum-fixture'] = True
        fx = ast.parse('def g(H, P):\n    a = np.flatnonzero(H.sum(axis=0))\n'
                       '    b = np.flatnonzero(np.abs(H).sum(axis=0))\n'
                       '    s = H.mean(0)\n    m = s != 0\n    k = (H != 0).sum(axis=0) != 0\n'
                       '    return a, b, m, k\n').body[0]
        got = sorted(norm_text(c)[:30] for c, _ in _zero_by_sum_sites(fx))
        if got != ['np.flatnonzero(H.sum(axis=0))', 's != 0']:
            raise AssertionError('ZERO-BY-SUM fixture not recognised: %s' % got)
        ctx.ob('ZERO-BY-SUM', True, None, 'positive fixture: sum / mean used as a zero test '
               'detected; abs().sum() and (x != 0).sum() silent', key='fixture')
