"""NAME-BOUND - every name a function reads is bound somewhere it can be found.

Scoping is taken from the standard library's `symtable` (the compiler's own resolution: locals,
cells, comprehension scopes, class bodies, `global` declarations).  A name that the compiler
resolves as an *implicit global* of a function and that is neither bound at module level (an
assignment, import, def or class - in any branch) nor a builtin raises NameError on every
execution of the statement that reads it.  Typical origin: a statement that bound a local was
edited to bind another name (`rho2 = V2 / re` for `rho1 = ...`), or a rarely taken branch uses a
name from a sibling function.  The rule is definite (no flow analysis is involved); a local that
is bound on some paths only is NOT judged here.
"""
import ast
import builtins
import symtable

from ..model import norm_text


def _first_load(fnode, name):
    best = None
    for n in ast.walk(fnode):
        if isinstance(n, ast.Name) and n.id == name and isinstance(n.ctx, ast.Load):
            if best is None or (n.lineno, n.col_offset) < (best.lineno, best.col_offset):
                best = n
    return best


def name_bound(ctx, modules=None):
    ctx.rule('NAME-BOUND', 'every name read in a function is a local, an enclosing-scope variable, '
             'a module-level binding or a builtin (compiler scoping via symtable): no NameError')
    repo = ctx.repo
    n_fn = 0
    for mod in repo.modules.values():
        short = mod.name.split('.')[-1]
        if modules and short not in modules:
            continue
        if short.startswith('test_') or '.tests' in mod.name:
            continue
        src = mod.source if hasattr(mod, 'source') else open(mod.path).read()
        top = symtable.symtable(src, mod.relpath, 'exec')
        module_names = {s.get_name() for s in top.get_symbols()
                        if s.is_assigned() or s.is_imported() or s.is_namespace()}
        # `from x import *` would defeat the rule
        star = any(isinstance(n, ast.ImportFrom) and any(a.name == '*' for a in n.names)
                   for n in ast.walk(mod.tree))
        if star:
            continue
        fnodes = {}
        for n in ast.walk(mod.tree):
            if isinstance(n, (ast.FunctionDef, ast.AsyncFunctionDef, ast.Lambda)):
                fnodes.setdefault((getattr(n, 'name', 'lambda'), n.lineno), n)

        def visit(tab, owner):
            nonlocal n_fn
            for ch in tab.get_children():
                node = fnodes.get((ch.get_name(), ch.get_lineno()))
                own = owner
                if ch.get_type() == 'function' and node is not None and \
                        not isinstance(node, ast.Lambda):
                    own = node
                    n_fn += 1
                if ch.get_type() == 'function':
                    for s in ch.get_symbols():
                        nm = s.get_name()
                        if s.is_referenced() and s.is_global() and not s.is_declared_global() \
                                and nm not in module_names and not hasattr(builtins, nm):
                            at = _first_load(own if own is not None else mod.tree, nm)
                            f = None
                            if own is not None:
                                for fi in repo.all_functions():
                                    if fi.module is mod and fi.node is own:
                                        f = fi
                            ctx.ob('NAME-BOUND', False, mod.relpath, "name '%s' is bound" % nm,
                                   f=f, node=at, key='%s:%s' % (getattr(own, 'name', '?'), nm),
                                   why="`%s` reads the name '%s', which is not bound in the "
                                       'function, in an enclosing scope, at module level or as a '
                                       'builtin: NameError whenever this statement runs'
                                       % (getattr(own, 'name', '<module>'), nm))
                visit(ch, own)
        visit(top, None)
    ctx.ob('NAME-BOUND', True, None, '%d functions: every implicit global is bound' % n_fn,
           key='scanned')
    ctx.floor('NAME-BOUND', n_fn, 1, 'functions')
