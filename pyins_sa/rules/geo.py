"""C16 - one coherent ellipsoidal geometry (symbolic identities in the N1 normal form,
with symbolic differentiation; valid for all lat/lon/alt where the expressions are defined).

GEO-FRAME    d r_e/d lat = D2R * rn * north,  d r_e/d lon = D2R * rp * east,
             d r_e/d alt = -down, with r_e = lla_to_ecef, (rn, re, rp) = principal_radii
             and north/east/down = columns of mat_en_from_ll
GEO-PERTURB  first-order ECEF displacement of perturb_lla(lla, d) = mat_en @ d
GEO-DIFF     mat_en @ compute_lla_difference(lla + D, lla) = d r_e (first order);
             lla_to_ned agrees with compute_lla_difference to first order
GEO-CURV     d(mat_en) under displacement d = mat_en @ skew(curvature_matrix @ d)
GEO-RATE     rate_n(lat) = mat_en^T @ (0, 0, RATE)
GEO-GRAV     gravitation_ecef(lla) = mat_en @ gravity_n(lat, alt) + W x (W x r_e)
PARITY-LAT   gravity, radii even; rate_n (even, 0, odd); curvature (odd only in [2,1])
ROLE-RADII   at every metre<->degree conversion the radius paired with lat/north is output 0
             of principal_radii and with lon/east output 2
"""
import ast

from ..expr import SymEval, SArray, Unsupported, Opaque, wrap_atoms as _wrap_atoms, strip_wraps as _strip_wraps
from ..model import AnalysisError, norm_text
from ..nf import Alg, Rat
from ..rotmodel import RotHooks


class _H(RotHooks):
    pass


def _setup(ctx):
    if 'geo' in ctx.cache:
        return ctx.cache['geo']
    repo = ctx.repo
    ev = SymEval(repo, Alg(), hooks=_H())
    A = ev.A
    lat, lon, alt = A.sym('lat'), A.sym('lon'), A.sym('alt')
    vec = lambda xs: SArray((len(xs),), {(i,): x for i, x in enumerate(xs)})
    lla = vec([lat, lon, alt])
    try:
        r = ev.call_function(repo.function('transform.lla_to_ecef'), [lla])
        C = ev.call_function(repo.function('transform.mat_en_from_ll'), [lat, lon])
        radii = ev.call_function(repo.function('earth.principal_radii'), [lat, alt])
    except Unsupported as e:
        raise AnalysisError('geodetic functions not analysable: %s' % e)
    ctx.need(isinstance(r, SArray) and r.shape == (3,), 'lla_to_ecef result not a 3-vector')
    ctx.need(isinstance(C, SArray) and C.shape == (3, 3), 'mat_en_from_ll result not 3x3')
    J = {}
    for k, nm in enumerate(['lat', 'lon', 'alt']):
        J[nm] = vec([A.diff(r.get((i,)), nm) for i in range(3)])
    g = dict(ev=ev, A=A, lat=lat, lon=lon, alt=alt, lla=lla, r=r, C=C, radii=radii, J=J,
             vec=vec)
    ctx.cache['geo'] = g
    for n in ('transform.lla_to_ecef', 'transform.mat_en_from_ll', 'earth.principal_radii'):
        ctx.touch(repo.function(n))
    return g


def _col(g, k):
    return g['vec']([g['C'].get((i, k)) for i in range(3)])


def _veq(A, a, b):
    return all(A.eq(a.get((i,)), b.get((i,))) for i in range(3))


def geo_frame(ctx):
    ctx.rule('GEO-FRAME', 'partial derivatives of lla_to_ecef are the NED axes of mat_en_from_ll '
             'scaled by the principal radii')
    g = _setup(ctx)
    A, ev = g['A'], g['ev']
    rn, re, rp = g['radii']
    d2r = A.sym(A.D2R)
    f = ctx.repo.function('transform.lla_to_ecef')
    specs = [('lat', A.mul(d2r, rn), 0, 'north', 'rn (output 0 of principal_radii)'),
             ('lon', A.mul(d2r, rp), 1, 'east', 'rp (output 2 of principal_radii)'),
             ('alt', A.const(-1), 2, 'down', '-1')]
    for var, scale, k, axis, what in specs:
        want = ev.emap(lambda x: A.mul(scale, x), _col(g, k))
        ok = _veq(A, g['J'][var], want)
        ctx.ob('GEO-FRAME', ok, None, 'd r_e / d %s == %s * %s axis of mat_en_from_ll'
               % (var, what, axis), f=f, key='d-' + var,
               why='the partial derivative of lla_to_ecef with respect to %s is not the %s '
                   'axis of mat_en_from_ll scaled by %s: ECEF conversion, NED frame and '
                   'principal radii do not describe the same ellipsoid' % (var, axis, what))


def _first_order(A, v, eps='@e'):
    return A.subst(A.diff(v, eps), {eps: A.const(0)})


def geo_perturb(ctx):
    ctx.rule('GEO-PERTURB', 'perturb_lla(lla, d): first-order ECEF displacement == mat_en @ d')
    ctx.rule('GEO-DIFF', 'compute_lla_difference and lla_to_ned recover a small displacement to '
             'first order, in NED metres of mat_en_from_ll')
    g = _setup(ctx)
    A, ev, vec = g['A'], g['ev'], g['vec']
    repo = ctx.repo
    eps = A.sym('@e')
    d = vec([A.sym('d%d' % i) for i in range(3)])
    pl = repo.function('transform.perturb_lla')
    try:
        lla2 = ev.call_function(pl, [g['lla'], ev.emap(lambda x: A.mul(eps, x), d)])
    except Unsupported as e:
        raise AnalysisError('perturb_lla not analysable: %s' % e)
    ctx.touch(pl)
    lla2_raw = lla2
    # ECEF position is 360-periodic in longitude: a reduction of the longitude output does not
    # move the point (its consistency with the difference maps is GEO-ROUNDTRIP below)
    lla2 = SArray((3,), dict(lla2.entries))
    lla2.entries[(1,)] = _strip_wraps(A, lla2.get((1,)))
    dl = [_first_order(A, lla2.get((k,))) for k in range(3)]
    zero = all(A.eq(A.subst(lla2.get((k,)), {'@e': A.const(0)}), g['lla'].get((k,)))
               for k in range(3))
    dr = vec([A.const(0)] * 3)
    for k, nm in enumerate(['lat', 'lon', 'alt']):
        dr = ev.emap(A.add, dr, ev.emap(lambda x: A.mul(dl[k], x), g['J'][nm]))
    want = ev.matmul(g['C'], d)
    ctx.ob('GEO-PERTURB', zero and _veq(A, dr, want), None,
           'd r_e(perturb_lla(lla, d)) == mat_en @ d to first order', f=pl, key='perturb',
           why='perturb_lla does not move the point by dr_n metres along the NED axes of '
               'mat_en_from_ll (to first order)')
    # compute_lla_difference(lla + e*D, lla)
    D = vec([A.sym('D%d' % i) for i in range(3)])
    lla1 = ev.emap(A.add, g['lla'], ev.emap(lambda x: A.mul(eps, x), D))
    cd = repo.function('transform.compute_lla_difference')
    try:
        dn = ev.call_function(cd, [lla1, g['lla']])
    except Unsupported as e:
        raise AnalysisError('compute_lla_difference not analysable: %s' % e)
    ctx.touch(cd)
    dn1 = vec([_first_order(A, dn.get((k,))) for k in range(3)])
    dr_true = vec([A.const(0)] * 3)
    for k, nm in enumerate(['lat', 'lon', 'alt']):
        dr_true = ev.emap(A.add, dr_true, ev.emap(lambda x, k=k: A.mul(D.get((k,)), x),
                                                  g['J'][nm]))
    ok = _veq(A, ev.matmul(g['C'], dn1), dr_true)
    ok0 = all(A.is_zero(A.subst(dn.get((k,)), {'@e': A.const(0)})) for k in range(3))
    ctx.ob('GEO-DIFF', ok and ok0, None,
           'mat_en @ compute_lla_difference(lla + D, lla) == d r_e to first order; zero for '
           'equal points', f=cd, key='lla-diff',
           why='compute_lla_difference does not return the displacement in NED metres of '
               'mat_en_from_ll to first order (or is non-zero for equal points)')
    # compute_lla_difference(perturb_lla(lla, e*d), lla) == e*d : the two maps are inverse to
    # each other to first order - including the treatment of the longitude range
    ctx.rule('GEO-ROUNDTRIP', 'compute_lla_difference(perturb_lla(lla, d), lla) == d to first order '
             'for every longitude (a modulo-360 reduction applied by one of the two maps is '
             'undone or shared by the other)')
    try:
        back = ev.call_function(cd, [lla2_raw, g['lla']])
    except Unsupported as e:
        raise AnalysisError('compute_lla_difference(perturb_lla(...)) not analysable: %s' % e)
    left = sorted({a for k in range(3) for a in _wrap_atoms(A, back.get((k,)))})
    if left:
        ctx.ob('GEO-ROUNDTRIP', False, None, 'difference of a perturbed point', f=pl,
               node=pl.node, key='roundtrip',
               why='the longitude is reduced modulo 360 by one of perturb_lla / '
                   'compute_lla_difference but not by the other (%s survives in the difference '
                   'of a perturbed point and the point itself): next to the +-180 meridian the '
                   'metre-difference of a perturbation is off by 360 degrees of longitude'
                   % left[0][:80])
    else:
        ok = all(A.eq(_first_order(A, back.get((k,))), d.get((k,))) for k in range(3)) and all(
            A.is_zero(A.subst(back.get((k,)), {'@e': A.const(0)})) for k in range(3))
        ctx.ob('GEO-ROUNDTRIP', ok, None, 'compute_lla_difference(perturb_lla(lla, d), lla) == d '
               'to first order', f=pl, node=pl.node, key='roundtrip',
               why='compute_lla_difference does not recover the metre perturbation applied by '
                   'perturb_lla (to first order)')
    # lla_to_ned(lla + e*D, origin=lla)
    ln = repo.function('transform.lla_to_ned')
    try:
        row = SArray((3,), dict(lla1.entries), None, True)
        rn_ = ev.call_function(ln, [row, g['lla']])
    except Unsupported as e:
        raise AnalysisError('lla_to_ned not analysable: %s' % e)
    ctx.touch(ln)
    ok = isinstance(rn_, SArray) and all(
        A.eq(_first_order(A, rn_.get((k,))), dn1.get((k,))) for k in range(3)) and all(
        A.is_zero(A.subst(rn_.get((k,)), {'@e': A.const(0)})) for k in range(3))
    ctx.ob('GEO-DIFF', ok, None, 'lla_to_ned(lla + D, origin=lla) == compute_lla_difference to '
           'first order', f=ln, key='lla-to-ned',
           why='lla_to_ned and compute_lla_difference disagree to first order about a small '
               'displacement')


def geo_curv(ctx):
    ctx.rule('GEO-CURV', 'rotation of the NED frame under a displacement d equals '
             'mat_en @ skew(curvature_matrix @ d)')
    ctx.rule('GEO-RATE', 'earth.rate_n(lat) == mat_en^T @ (0, 0, RATE)')
    ctx.rule('GEO-GRAV', 'gravitation_ecef == mat_en @ gravity_n + W x (W x r_e)')
    g = _setup(ctx)
    A, ev, vec = g['A'], g['ev'], g['vec']
    repo = ctx.repo
    rn, re, rp = g['radii']
    r2d = A.sym(A.R2D)
    d = vec([A.sym('d%d' % i) for i in range(3)])
    # first-order change of (lat, lon) for displacement d (GEO-PERTURB ties this to perturb_lla)
    dlat = A.div(A.mul(r2d, d.get((0,))), rn)
    dlon = A.div(A.mul(r2d, d.get((1,))), rp)
    C = g['C']
    dC = SArray((3, 3), {})
    for i in range(3):
        for j in range(3):
            dC.entries[(i, j)] = A.add(A.mul(A.diff(C.get((i, j)), 'lat'), dlat),
                                       A.mul(A.diff(C.get((i, j)), 'lon'), dlon))
    cm = repo.function('earth.curvature_matrix')
    sk = repo.function('util.skew_matrix')
    try:
        F = ev.call_function(cm, [g['lat'], g['alt']])
        S = ev.call_function(sk, [ev.matmul(F, d)])
    except Unsupported as e:
        raise AnalysisError('curvature_matrix not analysable: %s' % e)
    ctx.touch(cm)
    want = ev.matmul(C, S)
    bad = [(i, j) for i in range(3) for j in range(3)
           if not A.eq(dC.get((i, j)), want.get((i, j)))]
    ctx.ob('GEO-CURV', not bad, None, 'd(mat_en)[d] == mat_en @ skew(curvature_matrix @ d)', f=cm,
           key='curvature',
           why='curvature_matrix does not describe the rotation of the NED frame of '
               'mat_en_from_ll under a displacement (entries %s differ)' % bad[:4])
    # rate_n
    rt = repo.function('earth.rate_n')
    try:
        rate = ev.call_function(rt, [g['lat']])
    except Unsupported as e:
        raise AnalysisError('rate_n not analysable: %s' % e)
    ctx.touch(rt)
    W = vec([A.const(0), A.const(0), ev.global_value('pyins.earth.RATE')
             if hasattr(ev, 'cur') and False else A.sym('earth.RATE')])
    want = ev.matmul(ev.transpose(C), W)
    ctx.ob('GEO-RATE', _veq(A, rate, want), None, 'rate_n == mat_en^T @ (0, 0, RATE)', f=rt,
           key='rate', why='earth.rate_n is not the Earth rotation vector resolved in the NED '
                           'frame of mat_en_from_ll')
    # gravitation
    ge = repo.function('earth.gravitation_ecef')
    gn = repo.function('earth.gravity_n')
    try:
        g0 = ev.call_function(ge, [g['lla']])
        gvec = ev.call_function(gn, [g['lat'], g['alt']])
    except Unsupported as e:
        raise AnalysisError('gravitation_ecef not analysable: %s' % e)
    ctx.touch(ge)
    ctx.touch(gn)
    cen = ev.cross(W, ev.cross(W, g['r']))
    want = ev.emap(A.add, ev.matmul(C, gvec), cen)
    ctx.ob('GEO-GRAV', isinstance(g0, SArray) and _veq(A, g0, want), None,
           'gravitation_ecef == mat_en @ gravity_n + W x (W x r_e)', f=ge, key='gravitation',
           why='gravitation_ecef is not gravity with the centrifugal acceleration of the '
               'ECEF position removed: gravity, its NED vector and the ECEF gravitation are '
               'not the same field')
    # gravity_n = (0, 0, gravity)
    gf = repo.function('earth.gravity')
    gm = ev.call_function(gf, [g['lat'], g['alt']])
    ok = isinstance(gvec, SArray) and A.is_zero(gvec.get((0,))) and \
        A.is_zero(gvec.get((1,))) and A.eq(gvec.get((2,)), gm)
    ctx.ob('GEO-GRAV', ok, None, 'gravity_n == (0, 0, gravity)', f=gn, key='gravity-n',
           why='gravity_n is not the gravity magnitude along the down axis')


def parity(ctx):
    ctx.rule('PARITY-LAT', 'symmetry under lat -> -lat: gravity and radii even; rate_n (even, 0, '
             'odd); curvature matrix odd only in [2, 1]; north gravitation odd')
    g = _setup(ctx)
    A, ev = g['A'], g['ev']
    repo = ctx.repo
    flip = {'lat': A.neg(g['lat'])}
    par = lambda v: A.subst(v, flip)

    def check(name, v, sign, f):
        ok = A.eq(par(v), v if sign > 0 else A.neg(v))
        ctx.ob('PARITY-LAT', ok, None, '%s is %s in latitude' % (name, 'even' if sign > 0 else 'odd'),
               f=f, key='parity-' + name,
               why='%s is not %s under lat -> -lat: southern-hemisphere values are wrong'
                   % (name, 'even' if sign > 0 else 'odd'))
    gf = repo.function('earth.gravity')
    check('gravity', ev.call_function(gf, [g['lat'], g['alt']]), 1, gf)
    pr = repo.function('earth.principal_radii')
    for nm, v in zip(['rn', 're', 'rp'], g['radii']):
        check(nm, v, 1, pr)
    rt = repo.function('earth.rate_n')
    rate = ev.call_function(rt, [g['lat']])
    check('rate_n[north]', rate.get((0,)), 1, rt)
    check('rate_n[down]', rate.get((2,)), -1, rt)
    ctx.ob('PARITY-LAT', A.is_zero(rate.get((1,))), None, 'rate_n[east] == 0', f=rt,
           key='rate-east', why='Earth rate has an east component')
    cm = repo.function('earth.curvature_matrix')
    F = ev.call_function(cm, [g['lat'], g['alt']])
    for i in range(3):
        for j in range(3):
            v = F.get((i, j))
            if A.is_zero(v):
                continue
            check('curvature[%d,%d]' % (i, j), v, -1 if (i, j) == (2, 1) else 1, cm)
    ge = repo.function('earth.gravitation_ecef')
    sub = SymEval(repo, A, hooks=_H())
    sub.call_function(ge, [g['lla']])
    env = sub.last_env
    # the geodetic-frame vector before rotation: find the local that is a 3-vector with a
    # zero east component
    cand = [v for k, v in env.items() if isinstance(v, SArray) and v.shape == (3,) and
            all(i in v.entries or v.default is not None for i in v.indices())]
    loc = [v for v in cand if A.is_zero(v.get((1,))) and not A.is_zero(v.get((2,)))
           and 'earth.RATE' in ''.join(A.atoms_of(v.get((0,))))]
    ctx.need(len(loc) >= 1, 'gravitation_ecef: geodetic-frame vector not found')
    v = loc[0]
    check('gravitation[north]', v.get((0,)), -1, ge)
    check('gravitation[down]', v.get((2,)), 1, ge)


# ------------------------------------------------------------------ ROLE-RADII
def role_radii(ctx):
    ctx.rule('ROLE-RADII', 'at every call site of principal_radii the north radius (output 0) is '
             'used only with lat/north (component 0) and the parallel radius (output 2) only '
             'with lon/east (component 1)')
    repo = ctx.repo
    n = 0
    comp0 = {'lat', 'north', 'VN'}
    comp1 = {'lon', 'east', 'VE'}
    for f in repo.all_functions():
        if f.module.name.endswith('earth') and f.name in ('curvature_matrix', 'gravitation_ecef',
                                                          'principal_radii'):
            continue
        for st in ast.walk(f.node):
            if not (isinstance(st, ast.Assign) and isinstance(st.value, ast.Call) and
                    f.module.resolve(st.value.func, f.local_names()) ==
                    'pyins.earth.principal_radii' and isinstance(st.targets[0], ast.Tuple)
                    and len(st.targets[0].elts) == 3):
                continue
            names = [norm_text(e) for e in st.targets[0].elts]
            # other names for the three outputs: plain re-bindings `a = rn` / `a, b = rn, rp`
            alias = {nm_: [nm_] for nm_ in names if nm_ != '_'}
            for _ in range(3):
                for s2 in ast.walk(f.node):
                    if not (isinstance(s2, ast.Assign) and len(s2.targets) == 1):
                        continue
                    pairs_ = []
                    if isinstance(s2.targets[0], ast.Name) and isinstance(s2.value, ast.Name):
                        pairs_ = [(s2.targets[0].id, s2.value.id)]
                    elif isinstance(s2.targets[0], ast.Tuple) and isinstance(s2.value, ast.Tuple) \
                            and len(s2.targets[0].elts) == len(s2.value.elts):
                        pairs_ = [(a_.id, b_.id) for a_, b_ in zip(s2.targets[0].elts,
                                                                   s2.value.elts)
                                  if isinstance(a_, ast.Name) and isinstance(b_, ast.Name)]
                    for a_, b_ in pairs_:
                        for root, al in alias.items():
                            if b_ in al and a_ not in al:
                                al.append(a_)
            for out_i, want, label, nm in [(o_, w_, l_, a_)
                                           for o_, w_, l_ in ((0, 0, 'north radius'),
                                                              (2, 1, 'parallel radius'),
                                                              (1, None, 'east principal radius'))
                                           for a_ in alias.get(names[o_], [])]:
                if nm == '_':
                    continue
                if want is None and f.name == 'lla_to_ecef':
                    continue      # the ECEF formula legitimately uses re in all components
                for use in ast.walk(f.node):
                    if not isinstance(use, (ast.Assign, ast.AugAssign)):
                        continue
                    val = use.value
                    if not any(isinstance(x, ast.Name) and x.id == nm for x in ast.walk(val)):
                        continue
                    if use is st:
                        continue
                    comps = set()
                    tg = use.targets[0] if isinstance(use, ast.Assign) else use.target
                    for x in list(ast.walk(val)) + list(ast.walk(tg)):
                        if isinstance(x, ast.Subscript):
                            sl = x.slice
                            el = sl.elts if isinstance(sl, ast.Tuple) else [sl]
                            for e in el:
                                if isinstance(e, ast.Constant) and isinstance(e.value, int) \
                                        and e.value in (0, 1, 2) and len(el) >= 1 and \
                                        (len(el) == 2 or not isinstance(sl, ast.Tuple)):
                                    comps.add(e.value)
                        if isinstance(x, ast.Attribute) and x.attr in comp0:
                            comps.add(0)
                        if isinstance(x, ast.Attribute) and x.attr in comp1:
                            comps.add(1)
                    if not comps:
                        continue
                    n += 1
                    if want is None:
                        ctx.ob('ROLE-RADII', not (comps <= {0, 1}), None,
                               '%s: east principal radius `%s` not used as a metre/degree '
                               'factor' % (f.qualname, nm), f=f, node=use,
                               why='`%s` converts component(s) %s with the east principal radius '
                                   're (output 1 of principal_radii); longitude needs the '
                                   'parallel radius rp = re*cos(lat) (output 2), latitude rn '
                                   '(output 0)' % (norm_text(use)[:100], sorted(comps)))
                        continue
                    ctx.ob('ROLE-RADII', comps == {want}, None,
                           '%s: %s `%s` used with component %d' % (f.qualname, label, nm, want),
                           f=f, node=use,
                           why='`%s` pairs the %s (output %d of principal_radii) with '
                               'component(s) %s; expected component %d (%s)'
                               % (norm_text(use)[:100], label, out_i, sorted(comps), want,
                                  'lat/north' if want == 0 else 'lon/east'))
    ctx.floor('ROLE-RADII', n, 8, 'radius uses')


# ------------------------------------------------------------------ PARITY-ECEF
class _EH(RotHooks):
    """evaluate ecef_to_lla for the generic sample under a named configuration:
    sign of z and the outcome of every other element-wise comparison."""

    def __init__(self, z_atom, z_negative, mask):
        self.z_atom, self.z_negative, self.mask = z_atom, z_negative, mask
        self.masks_seen = 0

    def compare(self, ev, node, a, b):
        A = ev.A
        try:
            ra, rb = ev.rat(a), ev.rat(b)
        except Exception:
            return None
        if A.is_const(ra) and A.is_const(rb):
            return None
        if ev.names_as_atoms:
            ra = ev.expand(ra)
        # z < 0 / z > 0 / z >= 0 ...
        import ast as _ast
        if A.key(ra) == A.key(A.sym(self.z_atom)) and A.is_const(rb) and A.const_of(rb) == 0:
            op = node.ops[0]
            if isinstance(op, (_ast.Lt, _ast.LtE)):
                return self.z_negative
            if isinstance(op, (_ast.Gt, _ast.GtE)):
                return not self.z_negative
        self.masks_seen += 1
        return self.mask

    def call(self, ev, q, node, args, kwargs, env):
        if q == 'builtins.abs' and args:
            A = ev.A
            v = args[0]
            if isinstance(v, Rat) and ev.names_as_atoms:
                v = ev.expand(v)
            if isinstance(v, Rat) and A.key(v) == A.key(A.sym(self.z_atom)):
                return A.neg(v) if self.z_negative else v
        return RotHooks.call(self, ev, q, node, args, kwargs, env)


def parity_ecef(ctx):
    ctx.rule('PARITY-ECEF', 'ecef_to_lla is mirror-symmetric: under z -> -z the latitude changes '
             'sign, longitude and altitude are unchanged (every comparison outcome)')
    repo = ctx.repo
    f = repo.function('transform.ecef_to_lla')
    n = 0
    for mask in (True, False):
        res = {}
        alg = Alg()
        for zneg in (False, True):
            h = _EH('z', zneg, mask)
            ev = SymEval(repo, alg, hooks=h)
            A = ev.A
            r = SArray((3,), {(0,): A.sym('x'), (1,): A.sym('y'), (2,): A.sym('z')}, None, True)
            try:
                out = ev.call_function(f, [r])
            except Unsupported as e:
                raise AnalysisError('ecef_to_lla not analysable (z<0=%s, mask=%s): %s'
                                    % (zneg, mask, e))
            ctx.need(isinstance(out, SArray) and out.shape == (3,), 'ecef_to_lla result shape')
            res[zneg] = out
        A = alg
        flip = {'z': A.neg(A.sym('z'))}
        names = ['latitude', 'longitude', 'altitude']
        for k in range(3):
            mirrored = A.subst(res[True].get((k,)), flip)      # southern formula at -z, z > 0
            want = A.neg(res[False].get((k,))) if k == 0 else res[False].get((k,))
            ok = A.eq(mirrored, want)
            n += 1
            ctx.ob('PARITY-ECEF', ok, None, '%s(x, y, -z) == %s%s(x, y, z)  [comparison outcome %s]'
                   % (names[k], '-' if k == 0 else '', names[k], mask), f=f,
                   key='mirror-%s-%s' % (names[k], mask),
                   why='ecef_to_lla is not mirror-symmetric in z: the %s of a southern point is '
                       'not the %s of its northern mirror image (e.g. a correction applied after '
                       'the hemisphere sign flip)' % (names[k], 'negated latitude' if k == 0
                                                      else 'same ' + names[k]))
    ctx.floor('PARITY-ECEF', n, 6, 'mirror identities')


# ------------------------------------------------------------ OLSON (ecef_to_lla accuracy)
class _OH(RotHooks):
    """northern-hemisphere sample of ecef_to_lla under one outcome of the branch comparison;
    records the argument of the inverse trigonometric call that starts the refinement."""

    def __init__(self, mask, z_value=None):
        self.mask, self.cut, self.zv = mask, {}, z_value

    def compare(self, ev, node, a, b):
        A = ev.A
        try:
            ra, rb = ev.rat(a), ev.rat(b)
        except Exception:
            return None
        if A.is_const(ra) and A.is_const(rb):
            return None
        if A.is_const(rb) and A.const_of(rb) == 0:
            return isinstance(node.ops[0], (ast.Gt, ast.GtE))        # z > 0
        return self.mask

    def call(self, ev, q, node, args, kwargs, env):
        if q == 'builtins.abs':
            return args[0]                                            # z > 0
        if q in ('numpy.arcsin', 'numpy.arccos'):
            self.cut[q] = args[0][0] if isinstance(args[0], list) else args[0]
        return RotHooks.call(self, ev, q, node, args, kwargs, env)


def olson_rules(ctx):
    """ecef_to_lla(lla_to_ecef(lat, lon, alt)) == (lat, lon, alt) to the accuracy of a Newton
    iteration started from a third-order-accurate guess:

    OLSON-INIT    the closed-form first approximation of sin(lat) / cos(lat) is exact through
                  second order in the squared eccentricity (power series in earth.E2 with
                  polynomial coefficients, for all lat and alt)
    OLSON-NEWTON  the refinement is a Newton step of the exact geometry: exact latitude and
                  altitude are a fixed point and a first-order error of the guess is cancelled
                  (d lat_out / d lat_guess = 0, d alt_out / d lat_guess = 0 at the solution)
    OLSON-LON     longitude = atan2(y, x) in degrees
    Together: guess error O(E2^3) ~ 1e-7 rad -> result error O(E2^6); an edit to a series
    constant or to the correction formula degrades this to centimetres or metres, below what
    the tests resolve."""
    from ..nf import EpsAlg
    ctx.rule('OLSON-INIT', 'first approximation of sin/cos(lat) in ecef_to_lla is exact through '
             'E2^2 for every latitude and altitude (series in E2 over lla_to_ecef)')
    ctx.rule('OLSON-NEWTON', 'refinement step of ecef_to_lla: exact (lat, alt) is a fixed point '
             'and first-order errors of the guess cancel')
    ctx.rule('OLSON-LON', 'longitude = rad2deg(arctan2(y, x))')
    repo = ctx.repo
    f = repo.function('transform.ecef_to_lla')
    g = repo.function('transform.lla_to_ecef')
    ctx.touch(f)
    ctx.touch(g)
    vec = lambda xs, sample=False: SArray((len(xs),), {(i,): x for i, x in enumerate(xs)},
                                          None, sample)
    for mask in (True, False):
        q = 'numpy.arcsin' if mask else 'numpy.arccos'
        fn = q.split('.')[-1]
        # ---------------- OLSON-INIT: series in E2 up to order 2
        A = EpsAlg('earth.E2', 2)
        lat = A.sym('lat')
        Hh = A.sym('H', 1.0)                      # H = A + alt > 0
        alt = A.sub(Hh, A.sym('earth.A'))
        try:
            fw = SymEval(repo, A).call_function(g, [vec([lat, A.const(0), alt])])
        except (Unsupported, ValueError) as e:
            raise AnalysisError('lla_to_ecef has no series in E2: %s' % e)
        phi = A.mul(A.sym(A.D2R), lat)
        sphi, cphi = A.sin(phi), A.cos(phi)
        A.nonneg = set(A.atoms_of(sphi)) | set(A.atoms_of(cphi))       # 0 < lat < 90
        h = _OH(mask)
        try:
            SymEval(repo, A, hooks=h).call_function(
                f, [vec([fw.get((0,)), fw.get((1,)), fw.get((2,))], True)])
        except (Unsupported, ValueError, ZeroDivisionError) as e_:
            import os as _os
            if _os.environ.get('PYINS_SA_DEBUG'):
                print('OLSON-INIT eval stopped:', type(e_).__name__, e_)
            pass                 # only the part up to the inverse trigonometric call is needed
        ctx.need(q in h.cut, 'ecef_to_lla: no %s call reached under comparison outcome %s'
                 % (fn, mask))
        try:
            d = A.sub(ev_rat(A, h.cut[q]), sphi if mask else cphi)
            ok = A.is_zero(d)
        except (ValueError, Unsupported) as e:
            raise AnalysisError('OLSON-INIT: series comparison failed: %s' % e)
        ctx.ob('OLSON-INIT', ok, None,
               'argument of %s equals %s(lat) + O(E2^3) on points of lla_to_ecef'
               % (fn, 'sin' if mask else 'cos'), f=f, key='init-' + fn,
               why='the first approximation handed to %s deviates from %s(lat) already at '
                   'second order in E2 (a constant of the series is wrong): the starting error '
                   'grows from ~1e-7 to ~1e-5..1e-3 rad and the single refinement step leaves '
                   'centimetres to metres' % (fn, 'sin' if mask else 'cos'))
        # ---------------- OLSON-NEWTON: exact algebra, refinement stage cut at the guess
        A = Alg()
        lat, alt = A.sym('lat'), A.sym('alt')
        fw = SymEval(repo, A).call_function(g, [vec([lat, A.const(0), alt])])
        h = _OH(mask)
        ev = SymEval(repo, A, hooks=h, names_as_atoms=True)
        W, Z, lam = A.sym('W', 1.0), A.sym('Z', 1.0), A.sym('lam')
        try:
            out = ev.call_function(f, [vec([A.mul(W, A.cos(lam)), A.mul(W, A.sin(lam)), Z], True)])
        except Unsupported as e:
            raise AnalysisError('ecef_to_lla not analysable: %s' % e)
        ctx.need(isinstance(out, SArray) and out.shape == (3,), 'ecef_to_lla result shape')
        cutv = ev_rat(A, h.cut.get(q))
        cut = sorted(A.atoms_of(cutv))
        ctx.need(len(cut) == 1 and A.eq(cutv, A.sym(cut[0])),
                 'ecef_to_lla: argument of %s is not a named intermediate' % fn)
        cut = cut[0]
        # ---- the refinement works on a CONSISTENT pair: whatever the branch took as its
        # guess, the sine and cosine it hands to the Newton step satisfy s^2 + c^2 = 1 as an
        # identity in the guess (one of them is recomputed from the other).  A pair that mixes
        # the guess with a stale approximation is an O(E2^3) inconsistency that the single
        # step does not remove (and it makes the algebra below explode).
        env_ = getattr(ev, 'last_env', {}) or {}
        pair = []
        # the pair by role: the two arrays that receive a square root under a branch mask
        # (each branch recomputes the partner of its guess that way)
        roots = []
        for st_ in ast.walk(f.node):
            if isinstance(st_, ast.Assign) and len(st_.targets) == 1 and \
                    isinstance(st_.targets[0], ast.Subscript) and \
                    isinstance(st_.targets[0].value, ast.Name):
                v0 = st_.value
                is_root = (isinstance(v0, ast.BinOp) and isinstance(v0.op, ast.Pow) and
                           isinstance(v0.right, ast.Constant) and v0.right.value == 0.5) or \
                    (isinstance(v0, ast.Call) and
                     (f.module.resolve(v0.func, f.local_names()) or '') in ('numpy.sqrt',
                                                                            'math.sqrt'))
                if is_root and st_.targets[0].value.id not in roots:
                    roots.append(st_.targets[0].value.id)
        for nm_ in (roots if len(roots) == 2 else ()):
            v_ = env_.get(nm_)
            if isinstance(v_, SArray) and v_.shape == () or isinstance(v_, Rat):
                pair.append(v_ if isinstance(v_, Rat) else v_.get(()))
        if len(pair) == 2:
            try:
                s_f = ev.expand(pair[0], stop={cut})
                c_f = ev.expand(pair[1], stop={cut})
                # one of the two is the guess itself, the other a function of the guess alone
                only_cut = A.atoms_of(s_f) | A.atoms_of(c_f)
                nested = set()
                for a_ in only_cut:
                    nested |= A._nested_atoms(a_)
                depends = {a_ for a_ in (only_cut | nested)
                           if a_ in ('W', 'Z', 'lam') or a_.startswith(('W', 'Z'))}
                okp = not depends
                if okp:
                    A.nonneg = set(getattr(A, 'nonneg', set())) | {cut}
                    okp = A.is_zero(A.sub(A.add(A.mul(s_f, s_f), A.mul(c_f, c_f)), A.const(1)))
            except (ValueError, Unsupported):
                okp = None
            if okp is not None:
                ctx.rule('OLSON-PAIR', 'the sine / cosine pair handed to the Newton step of '
                         'ecef_to_lla is consistent: s^2 + c^2 = 1 identically in the guess')
                ctx.ob('OLSON-PAIR', okp, None, 'consistent (sin, cos) pair on the %s branch' % fn,
                       f=f, key='pair-' + fn,
                       why='on the %s branch the refinement of ecef_to_lla works with a sine and '
                           'a cosine that do not belong to one angle (s^2 + c^2 = 1 is not an '
                           'identity in the guess: one of them is still the first approximation, '
                           'or is computed from it): the Newton step then converges to a '
                           'latitude / altitude that is off by centimetres' % fn)
                if not okp:
                    continue
        L = A.sym('L')
        sL, cL = A.sin(L), A.cos(L)
        A.nonneg = set(A.atoms_of(sL)) | set(A.atoms_of(cL))
        phi = A.mul(A.sym(A.D2R), lat)
        exact = {}
        for k, nm in ((0, 'latitude'), (2, 'altitude')):
            e = ev.expand(out.get((k,)), stop={cut})
            mp = {cut: sL if mask else cL}
            for a_ in A.atoms_of(e):
                if a_.startswith(fn + '('):
                    mp[a_] = L
            e = A.subst(e, mp)
            e = A.subst(e, {'W': fw.get((0,)), 'Z': fw.get((2,))})
            if k == 0:
                e = A.mul(e, A.sym(A.D2R))
            exact[nm] = e
        at = {'L': phi}
        want = {'latitude': phi, 'altitude': alt}
        pole = False
        for nm, e in exact.items():
            try:
                fix = A.is_zero(A.sub(A.subst(e, at), want[nm]))
                d1 = A.is_zero(A.subst(A.diff(e, 'L'), at))
            except ValueError as e2:
                raise AnalysisError('OLSON-NEWTON: %s' % e2)
            except ZeroDivisionError:
                # a denominator of the returned expression is IDENTICALLY zero (a polynomial
                # identity of the normal form) once the guess is the exact latitude
                ctx.ob('OLSON-NEWTON', False, None,
                       '%s: finite for an exact guess (%s branch)' % (nm, fn), f=f,
                       key='pole-%s-%s' % (nm, fn),
                       why='the %s returned by the %s branch of ecef_to_lla divides by a quantity '
                           'that vanishes identically when the guess is the exact latitude (the '
                           'residual or the correction itself): the better the first '
                           'approximation, the larger the error, and an exact guess gives inf / '
                           'nan' % (nm, fn))
                pole = True
                continue
            ctx.ob('OLSON-NEWTON', fix, None,
                   '%s: an exact guess is returned unchanged (%s branch)' % (nm, fn), f=f,
                   key='fixed-%s-%s' % (nm, fn),
                   why='with the exact latitude as the guess the %s branch of ecef_to_lla does '
                       'not return the exact %s of the point lla_to_ecef(lat, lon, alt)'
                       % (fn, nm))
            ctx.ob('OLSON-NEWTON', d1, None,
                   '%s: first-order error of the guess is cancelled (%s branch)' % (nm, fn),
                   f=f, key='newton-%s-%s' % (nm, fn),
                   why='d(%s)/d(guess) is not zero at the solution (%s branch): the correction '
                       'is not the Newton step of the ellipsoid geometry (wrong radius in the '
                       'denominator / wrong residual), so the ~1e-7 rad error of the guess is '
                       'only partly removed' % (nm, fn))
        if pole:
            continue
        try:
            d2 = A.is_zero(A.subst(A.diff(A.diff(exact['altitude'], 'L'), 'L'), at))
        except ValueError as e2:
            raise AnalysisError('OLSON-NEWTON: %s' % e2)
        ctx.ob('OLSON-NEWTON', d2, None,
               'altitude: second-order error of the guess is cancelled as well (%s branch)' % fn,
               f=f, key='newton2-altitude-' + fn,
               why='d2(altitude)/d(guess)^2 is not zero at the solution (%s branch): the '
                   'second-order height correction (half the tangential miss times the '
                   'latitude correction) has the wrong coefficient' % fn)
        lon = A.mul(ev.expand(out.get((1,))), A.sym(A.D2R))
        okl = A.eq(lon, lam) if False else None
        fa = getattr(A, 'func_arg', {})
        okl = False
        if len(lon.n.t) == 1:
            (m, c), = lon.n.t.items()
            if c == 1 and len(m) == 1 and m[0][0] in fa and fa[m[0][0]][0] == 'arctan2':
                Y, X = fa[m[0][0]][1]
                okl = A.eq(Y, A.mul(W, A.sin(lam))) and A.eq(X, A.mul(W, A.cos(lam)))
        ctx.ob('OLSON-LON', okl, None, 'longitude = rad2deg(arctan2(y, x)) (%s branch)' % fn, f=f,
               key='lon-' + fn, why='longitude is not rad2deg(arctan2(y, x)) of the input')


def ev_rat(A, v):
    if isinstance(v, list):
        v = v[0]
    if not isinstance(v, Rat):
        raise AnalysisError('scalar expected, got %r' % (v,))
    return v


# ---------------------------------------------------------------- constants the rest relies on
#: WGS-84 defining / derived constants (NIMA TR8350.2): value, relative tolerance
_WGS84 = {
    'A': (6378137.0, 1e-12),
    'E2': (2 / 298.257223563 - (1 / 298.257223563) ** 2, 1e-10),
    'GE': (9.7803253359, 1e-10),
    'GP': (9.8321849378, 1e-10),
    'RATE': (7.292115e-5, 1e-9),
}


def _const_node(ctx, fq):
    t = ctx.repo.lookup(fq)
    if not (isinstance(t, tuple) and t[0] == 'const'):
        raise AnalysisError('constant %s not found' % fq)
    return t[1], t[2]


def wgs_const(ctx):
    """The symbolic rules treat earth.A, E2, GE, GP, RATE, F and transform.DEG_TO_RAD /
    RAD_TO_DEG as opaque symbols; their VALUES are the remaining part of 'the closed-form
    WGS-84 ellipsoid' and of the degree convention, checked here."""
    import math
    ctx.rule('WGS-CONST', 'earth.A, E2, GE, GP, RATE have the WGS-84 values')
    ctx.rule('GRAV-ENDS', 'the normal-gravity formula returns GE at the equator and GP at the '
             'poles at zero altitude (with the defining expression of earth.F substituted)')
    repo = ctx.repo
    for name, (want, tol) in sorted(_WGS84.items()):
        owner, node = _const_node(ctx, 'pyins.earth.' + name)
        got = repo.const('earth.' + name)
        ctx.need(isinstance(got, (int, float)), 'earth.%s is not a number' % name)
        ctx.ob('WGS-CONST', abs(float(got) - want) <= tol * abs(want), owner.relpath,
               'earth.%s = %r (WGS-84: %.13g)' % (name, got, want),
               node=node, key='wgs-' + name,
               why='earth.%s = %r differs from the WGS-84 value %.13g: conversions no longer '
                   'describe the WGS-84 ellipsoid / its normal gravity' % (name, got, want))
    unit_const(ctx)
    _grav_ends(ctx)


def unit_const(ctx):
    import math
    ctx.rule('UNIT-CONST', 'transform.DEG_TO_RAD == pi / 180 and RAD_TO_DEG * DEG_TO_RAD == 1 '
             '(the symbolic rules identify them with the exact conversion factors)')
    repo = ctx.repo
    d2r = repo.const('transform.DEG_TO_RAD')
    r2d = repo.const('transform.RAD_TO_DEG')
    owner, node = _const_node(ctx, 'pyins.transform.DEG_TO_RAD')
    ctx.ob('UNIT-CONST', abs(float(d2r) - math.pi / 180) <= 4e-16 * math.pi / 180, owner.relpath,
           'transform.DEG_TO_RAD = %r == pi / 180' % d2r, node=node,
           key='d2r', why='transform.DEG_TO_RAD = %r is not pi / 180' % d2r)
    owner, node = _const_node(ctx, 'pyins.transform.RAD_TO_DEG')
    ctx.ob('UNIT-CONST', abs(float(r2d) * float(d2r) - 1) <= 1e-15, owner.relpath,
           'transform.RAD_TO_DEG * DEG_TO_RAD = %r == 1' % (float(r2d) * float(d2r)),
           node=node, key='r2d',
           why='transform.RAD_TO_DEG = %r is not the reciprocal of DEG_TO_RAD' % r2d)


def _grav_ends(ctx):
    # gravity at the ends of the latitude range
    repo = ctx.repo
    ev = SymEval(repo)
    A = ev.A
    f = repo.function('earth.gravity')
    ctx.touch(f)
    owner, fnode = _const_node(ctx, 'pyins.earth.F')

    class _Scope:
        module = owner
        cls = None
        name = '<module>'
    save = getattr(ev, 'cur', None)
    ev.cur = _Scope()
    try:
        Fd = ev.rat(ev.eval(fnode, {}))
    except Unsupported as e:
        raise AnalysisError('defining expression of earth.F not analysable: %s' % e)
    finally:
        ev.cur = save
    for lat, want, txt in ((0, 'earth.GE', 'equator'), (90, 'earth.GP', 'north pole'),
                           (-90, 'earth.GP', 'south pole')):
        try:
            g = ev.call_function(f, [A.const(lat), A.const(0)])
        except Unsupported as e:
            raise AnalysisError('earth.gravity not analysable: %s' % e)
        ctx.need(isinstance(g, Rat), 'earth.gravity(%d, 0) is not a scalar' % lat)
        g = A.subst(g, {'earth.F': Fd})
        ctx.ob('GRAV-ENDS', A.eq(g, A.sym(want)), owner.relpath,
               'gravity(%d, 0) == %s' % (lat, want),
               node=fnode if lat else f.node, key='grav-%d' % lat,
               why='normal gravity at the %s (zero altitude) is %s instead of %s: the Somigliana '
                   'constant earth.F or the formula is wrong' % (txt, A.key(g)[:120], want))
