"""C06 - measurement models (every subclass of measurements.Measurement).

MEAS-GUARD  `time not in self.data.index -> return None` dominates every data access
MEAS-DEP    every object attribute the residual z depends on reaches the Jacobian call
            that produces H, and in the callee that parameter reaches the result
MEAS-COND   the condition under which z adds a lever-arm term equals the condition under
            which the Jacobian does
MEAS-SHAPE  rows(z) = rows(H) = rows(R) = cols(R) and cols(H) = n_states in both altitude
            modes (evaluated from the code with the normalising evaluator)
MEAS-ORIENT residual = (+1) * predicted + (-1) * measured
MEAS-COLS   columns written by the simulators = columns selected by the constructors
"""
import ast

from ..flow import walk_no_nested_funcs, assigned_names
from ..model import AnalysisError, norm_text, FunctionInfo
from ..expr import SymEval, SArray, Rec, Obj, Opaque, Unsupported, BroadcastError, UNK
from ..nf import Rat, Alg


def _subclasses(ctx):
    base = ctx.repo.klass('measurements.Measurement')
    subs = ctx.repo.subclasses(base)
    ctx.floor('MEAS', len(subs), 3, 'subclasses of Measurement')
    out = []
    for c in subs:
        m = c.methods.get('compute_matrices')
        ctx.need(m is not None, '%s does not define compute_matrices' % c.name)
        out.append((c, m))
    return out


def _self_attrs(node, selfname='self'):
    s = set()
    for n in ast.walk(node):
        if isinstance(n, ast.Attribute) and isinstance(n.value, ast.Name) and \
                n.value.id == selfname:
            s.add(n.attr)
    return s


def _deps(fnode, target, params):
    """Names and self-attributes the value of local `target` may depend on (data and
    control dependence, transitive), by a flow-insensitive def-use closure."""
    defs = {}       # name -> list of (expr nodes it is computed from)

    def visit(block, conds):
        for st in block:
            if isinstance(st, ast.Assign):
                for t in st.targets:
                    for nm in _target_names(t):
                        defs.setdefault(nm, []).append([st.value] + conds +
                                                       _index_exprs(t))
            elif isinstance(st, ast.AugAssign):
                for nm in _target_names(st.target):
                    defs.setdefault(nm, []).append([st.value] + conds +
                                                   _index_exprs(st.target))
            elif isinstance(st, ast.If):
                visit(st.body, conds + [st.test])
                visit(st.orelse, conds + [st.test])
            elif isinstance(st, (ast.For, ast.While)):
                visit(st.body, conds + [st.iter if isinstance(st, ast.For) else st.test])
            elif isinstance(st, ast.Expr) and isinstance(st.value, ast.Call):
                # out-parameter style calls: f(a, out) -> treat every Name arg as defined
                pass
    visit(fnode.body, [])
    seen, attrs = set(), set()
    todo = [target]
    while todo:
        nm = todo.pop()
        if nm in seen:
            continue
        seen.add(nm)
        for exprs in defs.get(nm, []):
            for e in exprs:
                attrs |= _self_attrs(e)
                for n in ast.walk(e):
                    if isinstance(n, ast.Name) and isinstance(n.ctx, ast.Load):
                        todo.append(n.id)
    return seen, attrs


def _target_names(t):
    if isinstance(t, ast.Name):
        return [t.id]
    if isinstance(t, (ast.Tuple, ast.List)):
        out = []
        for e in t.elts:
            out += _target_names(e)
        return out
    if isinstance(t, (ast.Subscript, ast.Attribute)):
        b = t
        while isinstance(b, (ast.Subscript, ast.Attribute)):
            b = b.value
        if isinstance(b, ast.Name):
            return [b.id]
    return []


def _index_exprs(t):
    return [t.slice] if isinstance(t, ast.Subscript) else []


def _returned_names(m):
    rets = [n for n in walk_no_nested_funcs(m.node) if isinstance(n, ast.Return)
            and n.value is not None and not (isinstance(n.value, ast.Constant)
                                             and n.value.value is None)]
    return rets


TOLERANT = ('isclose', 'allclose', 'argmin', 'searchsorted', 'get_indexer', 'get_loc',
            'nearest', 'tolerance', 'round', 'abs', 'fabs')


def _exact_guard(st, tparam, selfname='self'):
    """`if <time> not in self.data.index: return None`"""
    return isinstance(st, ast.If) and isinstance(st.test, ast.Compare) and \
        len(st.test.ops) == 1 and isinstance(st.test.ops[0], ast.NotIn) and \
        norm_text(st.test.left) == tparam and \
        norm_text(st.test.comparators[0]) == '%s.data.index' % selfname and \
        len(st.body) == 1 and _returns_none(st.body[0])


def _returns_none(st):
    return isinstance(st, ast.Return) and (
        st.value is None or (isinstance(st.value, ast.Constant) and st.value.value is None))


def _guard_of(ctx, c, m):
    """(index of the guarding statement in m.body, verdict, reason).  The presence decision is
    either the exact membership test in the method itself, or a helper method of the class
    whose None result makes the method return None; the helper must decide by exact
    membership - a tolerance / nearest-sample match returns data for a time that is absent."""
    tparam = m.params[1]
    body = m.node.body
    for i, st in enumerate(body):
        if _exact_guard(st, tparam):
            return i, True, ''
    # helper form: v = self.h(time) ; if v is None: return None
    for i, st in enumerate(body):
        if isinstance(st, ast.Assign) and len(st.targets) == 1 and \
                isinstance(st.targets[0], ast.Name) and isinstance(st.value, ast.Call) and \
                isinstance(st.value.func, ast.Attribute) and \
                norm_text(st.value.func.value) == 'self' and \
                any(norm_text(a) == tparam for a in st.value.args):
            v = st.targets[0].id
            h = ctx.repo.class_member(c, st.value.func.attr)
            if not isinstance(h, FunctionInfo):
                continue
            nxt = body[i + 1] if i + 1 < len(body) else None
            if not (isinstance(nxt, ast.If) and norm_text(nxt.test) in
                    ('%s is None' % v,) and len(nxt.body) == 1 and _returns_none(nxt.body[0])):
                continue
            ctx.touch(h)
            hp = h.params[1 + [norm_text(a) for a in st.value.args].index(tparam)] \
                if len(h.params) > 1 else None
            tol = sorted({n.func.attr if isinstance(n.func, ast.Attribute) else n.func.id
                          for n in ast.walk(h.node) if isinstance(n, ast.Call) and
                          (n.func.attr if isinstance(n.func, ast.Attribute) else
                           getattr(n.func, 'id', '')) in TOLERANT})
            exact = None
            for k, hs in enumerate(h.node.body):
                if isinstance(hs, ast.Expr) and isinstance(hs.value, ast.Constant):
                    continue
                if hp and _exact_guard(hs, hp):
                    exact = k
                    break
                if 'self.data' in norm_text(hs) and 'len(self.data)' not in norm_text(hs):
                    break
            if exact is not None and not tol:
                return i + 1, True, ''
            return i + 1, False, (
                'the presence of the time is decided by %s.%s through %s, not by exact membership '
                'in the data index: a time that is absent but close to a sample returns that '
                "sample's measurement" % (c.name, h.name,
                                          ', '.join(tol) if tol else 'an unrecognised test'))
    return None, False, ('%s.compute_matrices reads self.data without first returning None for '
                         'a time that is not in the data' % c.name)


def meas_guard(ctx):
    ctx.rule('MEAS-GUARD', 'a time that is not (exactly) in the data index returns None before '
             'any access to the measured data (test in the method or in a helper of the class)')
    for c, m in _subclasses(ctx):
        guard_i, ok, why = _guard_of(ctx, c, m)
        first_use = None
        for i, st in enumerate(m.node.body):
            if isinstance(st, ast.Expr) and isinstance(st.value, ast.Constant):
                continue
            if 'self.data' in norm_text(st) and i != guard_i:
                first_use = i
                break
        if ok and first_use is not None and guard_i is not None and first_use < guard_i:
            ok = False
            why = ('%s.compute_matrices reads self.data before the absent-time test' % c.name)
        ctx.ob('MEAS-GUARD', ok, None, '%s: absent time returns None before the data is read'
               % c.name, f=m, node=m.node.body[guard_i if guard_i is not None else 0],
               key='guard', why=why)


def _jacobian_call(ctx, m, hname):
    """The call error_model.<jacobian>(...) that defines H."""
    em = m.params[3]
    calls = []
    for n in walk_no_nested_funcs(m.node):
        if isinstance(n, ast.Assign) and hname in _target_names(n.targets[0]) and \
                isinstance(n.value, ast.Call) and isinstance(n.value.func, ast.Attribute) \
                and norm_text(n.value.func.value) == em:
            calls.append(n.value)
    return calls


def meas_dep(ctx):
    ctx.rule('MEAS-DEP', 'attributes the residual depends on reach the Jacobian call, and the '
             'corresponding Jacobian parameter reaches its result')
    emc = ctx.repo.klass('error_model.InsErrorModel')
    for c, m in _subclasses(ctx):
        rets = _returned_names(m)
        ctx.need(len(rets) >= 1, '%s.compute_matrices has no (z, H, R) return' % c.name)
        r = rets[-1].value
        ctx.need(isinstance(r, ast.Tuple) and len(r.elts) == 3,
                 '%s.compute_matrices does not return a 3-tuple' % c.name)
        zn, hn = r.elts[0], r.elts[1]
        ctx.need(isinstance(zn, ast.Name) and isinstance(hn, ast.Name),
                 '%s: returned z/H are not local names' % c.name)
        _, zattrs = _deps(m.node, zn.id, m.params)
        zattrs -= {'data', 'R'}
        zattrs = {a for a in zattrs
                  if not isinstance(ctx.repo.class_member(c, a), FunctionInfo)}
        calls = _jacobian_call(ctx, m, hn.id)
        ctx.need(len(calls) == 1, '%s: Jacobian call defining H not found' % c.name)
        call = calls[0]
        jac = ctx.repo.class_member(emc, call.func.attr)
        ctx.need(isinstance(jac, FunctionInfo), 'Jacobian %s not found' % call.func.attr)
        ctx.touch(jac)
        # attribute -> callee parameter
        bound = {}

        def attrs_of(e):
            # attributes the argument carries: read directly, or through locals it depends on
            out = set(_self_attrs(e))
            for n in ast.walk(e):
                if isinstance(n, ast.Name) and n.id not in m.params and n.id != 'self':
                    out |= _deps(m.node, n.id, m.params)[1]
            return out
        for i, a in enumerate(call.args):
            for at in attrs_of(a):
                if i + 1 < len(jac.params):
                    bound[at] = jac.params[i + 1]
        for kw in call.keywords:
            for at in attrs_of(kw.value):
                bound[at] = kw.arg
        for at in sorted(zattrs):
            ctx.ob('MEAS-DEP', at in bound, None,
                   "%s: residual depends on self.%s, which is passed to %s"
                   % (c.name, at, jac.name), f=m, node=call, key='dep-%s' % at,
                   why="the residual z of %s depends on self.%s but H is computed by %s "
                       "without it: H is not the derivative of z when %s is set"
                       % (c.name, at, norm_text(call), at))
            if at in bound:
                rj = _returned_names(jac)
                ctx.need(rj and isinstance(rj[-1].value, ast.Name),
                         'Jacobian %s does not return a local' % jac.name)
                seen, _ = _deps(jac.node, rj[-1].value.id, jac.params)
                ctx.ob('MEAS-DEP', bound[at] in seen, None,
                       "%s: parameter %s reaches the result" % (jac.name, bound[at]), f=jac,
                       node=rj[-1], key='reach-%s' % bound[at],
                       why="Jacobian %s ignores its parameter %s" % (jac.name, bound[at]))
        ctx.ob('MEAS-DEP', True, None, '%s: D(z) = %s subset of D(H) = %s'
               % (c.name, sorted(zattrs), sorted(bound)), f=m, node=call, key='summary')


def _conds_on(fnode, what):
    out = set()
    for n in ast.walk(fnode):
        if isinstance(n, ast.If) and what in norm_text(n.test) and 'is not None' in \
                norm_text(n.test):
            t = n.test
            if isinstance(t, ast.BoolOp) and isinstance(t.op, ast.And):
                out.add(' and '.join(sorted(norm_text(v) for v in t.values)))
            else:
                out.add(norm_text(t))
    return out


# ----------------------------------------------------------------- evaluation
class _MeasHooks:
    """Evaluate compute_matrices on a symbolic pva / data row."""

    def __init__(self, ev, cols):
        self.ev = ev
        self.cols = cols
        self.data_atoms = {}

    def attr(self, ev, base, a, node):
        if isinstance(base, Opaque) and base.tag == 'data':
            if a == 'index':
                return Opaque('data.index')
            if a == 'loc':
                return Opaque('data.loc')
        return None

    def subscript(self, ev, base, idx, node, env):
        if isinstance(base, Opaque) and base.tag == 'data.loc' and not isinstance(idx, tuple):
            return Opaque('data.row')           # the whole row at that time
        if isinstance(base, Opaque) and base.tag in ('data.loc', 'data.row'):
            if base.tag == 'data.row':
                cols = idx
            else:
                cols = idx[1] if isinstance(idx, tuple) and len(idx) == 2 else None
            if isinstance(cols, (list, tuple)) and all(isinstance(c, str) for c in cols):
                out = SArray((len(cols),), {})
                for i, c in enumerate(cols):
                    out.entries[(i,)] = ev.A.sym('meas_' + c)
                    self.data_atoms[c] = 'meas_' + c
                return out
            raise Unsupported('data.loc index %r' % (idx,))
        if isinstance(base, Opaque) and base.tag == 'data':
            return base
        return None

    def compare(self, ev, node, a, b):
        # the row selected from the data table is a value, not None
        import ast as _ast
        op = node.ops[0]
        if isinstance(op, (_ast.Is, _ast.IsNot)):
            for x, y in ((a, b), (b, a)):
                if isinstance(x, Opaque) and x.tag == 'data.row' and y is None:
                    return isinstance(op, _ast.IsNot)
        return None

    def branch(self, ev, node, env):
        t = norm_text(node.test)
        if 'not in self.data.index' in t:
            return False
        return None

    def call(self, ev, q, node, args, kwargs, env):
        if q == 'pyins.transform.mat_from_rph':
            a = args[0]
            if isinstance(a, SArray) and getattr(a, 'rec', None) is not None:
                return a.rec.Cmat
            # argument is pva[RPH_COLS]
            return self.C
        return NotImplemented


def _eval_measurement(ctx, c, m, with_altitude, lever, has_rates):
    repo = ctx.repo
    ev = SymEval(repo, Alg())
    A = ev.A
    h = _MeasHooks(ev, None)
    ev.hooks = h
    cols = {}
    for cname in repo.const('util.TRAJECTORY_COLS'):
        cols[cname] = A.sym(cname)
    if has_rates:
        for cname in repo.const('util.RATE_COLS'):
            cols[cname] = A.sym(cname)
    pva = Rec(cols, 'series')
    h.C = SArray((3, 3), {(a, b): A.sym('C%d%d' % (a, b)) for a in range(3) for b in range(3)})
    h.has_rates = has_rates
    emc = repo.klass('error_model.InsErrorModel')
    em = Obj(emc)
    init = repo.class_member(emc, '__init__')
    ev.call_function(init, [with_altitude], {}, em)
    selfo = Obj(c)
    selfo.attrs['data'] = Opaque('data')
    selfo.attrs['R'] = SArray((3, 3), {(i, j): (A.sym('var%d' % i) if i == j else A.const(0))
                                       for i in range(3) for j in range(3)})
    if 'imu_to_antenna_b' in _all_attrs(c):
        selfo.attrs['imu_to_antenna_b'] = _lever_value(A, lever)
    try:
        ret = ev.call_function(m, [A.sym('time'), pva, em], {}, selfo)
    except BroadcastError as e:
        e.where = getattr(ev, 'last_stmt', None)
        raise
    return ev, ret, em


def _lever_value(A, lever):
    """None (no lever arm), a generic lever arm (l0, l1, l2), or - lever == 'partial' - one with
    an exactly zero component (l0, 0, l2): an antenna straight above / ahead of the IMU is
    ordinary input, and a guard that asks `np.all(lever)` instead of `lever is not None` treats
    it as absent on one side only (round-9 seed C06-lever-arm-all-components)"""
    if not lever:
        return None
    return SArray((3,), {(i,): (A.const(0) if lever == 'partial' and i == 1 else A.sym('l%d' % i))
                         for i in range(3)})


def _all_attrs(c):
    s = set()
    init = c.methods.get('__init__')
    if init is not None:
        for n in ast.walk(init.node):
            if isinstance(n, ast.Attribute) and isinstance(n.value, ast.Name) and \
                    n.value.id == 'self' and isinstance(n.ctx, ast.Store):
                s.add(n.attr)
    return s


def meas_shape(ctx):
    ctx.rule('MEAS-SHAPE', 'rows(z) = rows(H) = rows(R) = cols(R), cols(H) = n_states, in both '
             'altitude modes, with and without lever arm / body rates')
    ctx.rule('MEAS-ORIENT', 'residual = predicted - measured (coefficient -1 on every measured '
             'component, no measured value in H or R)')
    n = 0
    for c, m in _subclasses(ctx):
        has_lever = 'imu_to_antenna_b' in _all_attrs(c)
        for wa in (True, False):
            for lever in ((True, 'partial', False) if has_lever else (False,)):
                for rates in ((True, False) if has_lever else (False,)):
                    tag = '%s alt=%s lever=%s rates=%s' % (c.name, wa, lever, rates)
                    try:
                        ev, ret, em = _eval_measurement(ctx, c, m, wa, lever, rates)
                    except Unsupported as e:
                        if isinstance(e, BroadcastError):
                            wf, wst = getattr(e, 'where', None) or (m, None)
                            ctx.ob('MEAS-SHAPE', False, None, '%s: evaluates' % tag, f=wf or m,
                                   node=wst, key='broadcast-' + tag,
                                   why='%s: %s: ValueError at run time (a term is combined with '
                                       'z/H/R in a different row layout than they have at that '
                                       'point)' % (tag, e))
                            continue
                        if 'column' in str(e) and 'missing' in str(e):
                            ctx.ob('MEAS-SHAPE', False, None, '%s: evaluates' % tag, f=m,
                                   key='keyerror-' + tag,
                                   why='%s: the code reads a state element that is absent in '
                                       'this configuration (%s): KeyError at run time' % (tag, e))
                            continue
                        raise AnalysisError('%s.compute_matrices not analysable (%s): %s'
                                            % (c.name, tag, e))
                    ctx.need(isinstance(ret, tuple) and len(ret) == 3,
                             '%s: result is not (z, H, R)' % tag)
                    z, H, R = ret
                    ctx.need(all(isinstance(x, SArray) for x in ret),
                             '%s: z/H/R not arrays' % tag)
                    ns = 9 if wa else 7
                    rows = 3 if (wa or c.name == 'BodyVelocity') else 2
                    shp = (z.shape, H.shape, R.shape)
                    ok = (len(z.shape) == 1 and len(H.shape) == 2 and len(R.shape) == 2 and
                          z.shape[0] == H.shape[0] == R.shape[0] == R.shape[1] and
                          H.shape[1] == ns)
                    n += 1
                    ctx.ob('MEAS-SHAPE', ok, None, '%s: shapes z%s H%s R%s consistent'
                           % (tag, z.shape, H.shape, R.shape), f=m, key='shape-' + tag,
                           why='%s: z%s, H%s, R%s are not mutually consistent with %d states'
                               % (tag, z.shape, H.shape, R.shape, ns))
                    vertical = 3 if wa else 2
                    if c.name != 'BodyVelocity':
                        ctx.ob('MEAS-SHAPE', z.shape[0] == vertical, None,
                               '%s: %d rows (vertical row %s)' % (tag, vertical,
                                                                   'kept' if wa else 'dropped'),
                               f=m, key='rows-' + tag,
                               why='%s returns %d rows, expected %d' % (tag, z.shape[0], vertical))
                    # orientation / documented form of the residual
                    A = ev.A
                    want = _expected_residual(ctx, ev, c, lever, rates)
                    if want is not None:
                        k = z.shape[0]
                        okz = all(A.eq(z.get((i,)), want.get((i,))) for i in range(k))
                        ctx.ob('MEAS-ORIENT', okz, None,
                               '%s: z = predicted - measured in the documented units '
                               '(+ lever-arm term)' % tag, f=m, key='resid-' + tag,
                               why='%s: residual differs from (INS-predicted quantity at the '
                                   'measurement point) - (measured quantity)' % tag)
                    leak = [a_ for x in (H, R) for i in x.indices()
                            for a_ in A.atoms_of(x.get(i)) if a_.startswith('meas_')]
                    ctx.ob('MEAS-ORIENT', not leak, None, '%s: H and R do not depend on the '
                           'measured value' % tag, f=m, key='leak-' + tag,
                           why='%s: H or R depends on the measured value' % tag)
    ctx.floor('MEAS-SHAPE', n, 12, 'evaluated configurations')


def _expected_residual(ctx, ev, c, lever, rates):
    """Documented measurement models: predicted quantity at the measurement point minus
    the measured one.  Position: transform.compute_lla_difference(pred, meas) + C l;
    NED velocity: V + C (rate x l) - V_meas; body velocity: C^T V - V_meas."""
    A = ev.A
    repo = ctx.repo
    h = ev.hooks
    C = h.C
    vec = lambda names: SArray((len(names),), {(i,): A.sym(n) for i, n in enumerate(names)})
    l = _lever_value(A, lever) if lever else vec(['l0', 'l1', 'l2'])
    ev2 = SymEval(repo, A)
    if c.name == 'Position':
        cols = repo.const('util.LLA_COLS')
        f = repo.function('transform.compute_lla_difference')
        ctx.touch(f)
        d = ev2.call_function(f, [vec(cols), vec(['meas_' + x for x in cols])])
        if lever:
            d = ev2.emap(A.add, d, ev2.matmul(C, l))
        return d
    if c.name == 'NedVelocity':
        cols = repo.const('util.VEL_COLS')
        d = ev2.emap(A.sub, vec(cols), vec(['meas_' + x for x in cols]))
        if lever and rates:
            w = vec(repo.const('util.RATE_COLS'))
            d = ev2.emap(A.add, d, ev2.matmul(C, ev2.cross(w, l)))
        return d
    if c.name == 'BodyVelocity':
        cols = repo.const('util.VEL_COLS')
        pred = ev2.matmul(ev2.transpose(C), vec(cols))
        meas_atoms = sorted(set(h.data_atoms.values()))
        if len(h.data_atoms) != 3:
            return None
        order = list(h.data_atoms.values())
        return ev2.emap(A.sub, pred, vec(order))
    return None


def meas_cols(ctx):
    ctx.rule('MEAS-COLS', 'columns produced by sim.generate_*_measurements = columns selected by '
             'the measurement constructors')
    repo = ctx.repo
    pairs = [('sim.generate_position_measurements', 'measurements.Position'),
             ('sim.generate_ned_velocity_measurements', 'measurements.NedVelocity'),
             ('sim.generate_body_velocity_measurements', 'measurements.BodyVelocity')]
    for gen, cls in pairs:
        g = repo.function(gen)
        c = repo.klass(cls)
        init = c.methods.get('__init__')
        ctx.need(init is not None, '%s has no constructor' % cls)
        prod = None
        for n in ast.walk(g.node):
            if isinstance(n, ast.Call) and g.module.resolve(n.func) == 'pandas.DataFrame':
                for kw in n.keywords:
                    if kw.arg == 'columns':
                        try:
                            prod = repo.fold(kw.value, g.module)
                        except ValueError:
                            prod = None
        cons = None
        for n in ast.walk(init.node):
            if isinstance(n, ast.Subscript) and isinstance(n.value, ast.Name) and \
                    n.value.id == init.params[1]:
                try:
                    cons = repo.fold(n.slice, init.module, c)
                except ValueError:
                    cons = None
        used = set()
        m = c.methods.get('compute_matrices')
        for n in ast.walk(m.node):
            if isinstance(n, ast.Subscript) and 'self.data.loc' in norm_text(n.value):
                if isinstance(n.slice, ast.Tuple) and len(n.slice.elts) == 2:
                    try:
                        used = set(repo.fold(n.slice.elts[1], m.module, c))
                    except ValueError:
                        pass
        ok = prod is not None and cons is not None and list(prod) == list(cons) and \
            used <= set(cons)
        ctx.ob('MEAS-COLS', ok, None, '%s columns %s = %s constructor selection %s'
               % (gen.split('.')[-1], prod, cls.split('.')[-1], cons), f=g, key='cols-' + cls,
               why='simulator writes columns %s, %s selects %s and reads %s'
                   % (prod, cls, cons, sorted(used)))


# ------------------------------------------------------------------ H-JACOBIAN
from ..rotmodel import RotHooks, EulerOf          # noqa: E402


class _JH(RotHooks):
    """hooks for evaluating correct_pva and compute_matrices on the same symbolic state."""

    def __init__(self):
        self.series = None
        self.data_atoms = {}

    def call(self, ev, q, node, args, kwargs, env):
        r = RotHooks.call(self, ev, q, node, args, kwargs, env)
        if r is not NotImplemented:
            return r
        if q == 'numpy.hstack' and any(isinstance(x, EulerOf) for x in args[0]):
            return Opaque('hstack', *args[0])
        if q == 'pandas.Series':
            self.series = (args, kwargs)
            return Opaque('Series')
        return NotImplemented

    def attr(self, ev, base, a, node):
        if isinstance(base, Opaque) and base.tag == 'data':
            if a == 'index':
                return Opaque('data.index')
            if a == 'loc':
                return Opaque('data.loc')
        return RotHooks.attr(self, ev, base, a, node)

    def subscript(self, ev, base, idx, node, env):
        if isinstance(base, Opaque) and base.tag == 'data.loc' and not isinstance(idx, tuple):
            return Opaque('data.row')           # the whole row at that time
        if isinstance(base, Opaque) and base.tag in ('data.loc', 'data.row'):
            if base.tag == 'data.row':
                cols = idx
            else:
                cols = idx[1] if isinstance(idx, tuple) and len(idx) == 2 else None
            if isinstance(cols, (list, tuple)) and all(isinstance(c, str) for c in cols):
                out = SArray((len(cols),), {})
                for i, c in enumerate(cols):
                    out.entries[(i,)] = ev.A.sym('meas_' + c)
                    self.data_atoms[c] = 'meas_' + c
                return out
        if isinstance(base, Rec) and getattr(base, 'euler', None) is not None and \
                isinstance(idx, (list, tuple)) and list(idx) == list(self.rph_cols):
            return base.euler
        return None

    def compare(self, ev, node, a, b):
        # the row selected from the data table is a value, not None
        import ast as _ast
        op = node.ops[0]
        if isinstance(op, (_ast.Is, _ast.IsNot)):
            for x, y in ((a, b), (b, a)):
                if isinstance(x, Opaque) and x.tag == 'data.row' and y is None:
                    return isinstance(op, _ast.IsNot)
        return None

    def branch(self, ev, node, env):
        if 'not in self.data.index' in norm_text(node.test):
            return False
        return None


def meas_jacobian(ctx):
    ctx.rule('H-JACOBIAN', 'H == - d z(correct_pva(pva, x)) / d x at x = 0 (evaluated at zero '
             'position residual): the measurement matrix is the derivative of the residual with '
             'respect to the error state under the library\'s own correction convention, '
             'including lever-arm and angular-rate terms, in both altitude modes')
    repo = ctx.repo
    emc = repo.klass('error_model.InsErrorModel')
    tcols = repo.const('util.TRAJECTORY_COLS')
    rcols = repo.const('util.RATE_COLS')
    lla_c = repo.const('util.LLA_COLS')
    n = 0
    for c, m in _subclasses(ctx):
        has_lever = 'imu_to_antenna_b' in _all_attrs(c)
        for wa in (True, False):
            for lever, rates in (((True, True), (True, False), ('partial', True),
                                  (False, False)) if has_lever else ((False, False),)):
                tag = '%s alt=%s lever=%s rates=%s' % (c.name, wa, lever, rates)
                h = _JH()
                h.rph_cols = repo.const('util.RPH_COLS')
                ev = SymEval(repo, Alg(), hooks=h)
                A = ev.A
                em = Obj(emc)
                ev.call_function(emc.methods['__init__'], [wa], {}, em)
                ns = 9 if wa else 7
                cols = {k: A.sym(k) for k in tcols}
                if rates:
                    for k in rcols:
                        cols[k] = A.sym(k)
                pva = Rec(cols, 'series')
                selfo = Obj(c)
                selfo.attrs['data'] = Opaque('data')
                selfo.attrs['R'] = SArray((3, 3), {(i, j): (A.sym('var%d' % i) if i == j else A.const(0))
                                                   for i in range(3) for j in range(3)})
                if has_lever:
                    selfo.attrs['imu_to_antenna_b'] = _lever_value(A, lever)
                try:
                    z0, H, R = ev.call_function(m, [A.sym('time'), pva, em], {}, selfo)
                    xs = [A.sym('x%d' % i) for i in range(ns)]
                    eps = A.sym('@e')
                    x = SArray((ns,), {(i,): A.mul(eps, xs[i]) for i in range(ns)})
                    A.trunc = ('@e', 1)
                    h.series = None
                    ev.call_function(emc.methods['correct_pva'],
                                     [Rec({k: cols[k] for k in tcols}, 'series'), x], {}, em)
                    args, kwargs = h.series
                    data = kwargs.get('data', args[0] if args else None)
                    lla2, v2, rph2 = data.parts
                    c2 = {}
                    for i, k in enumerate(tcols[:3]):
                        c2[k] = lla2.get((i,))
                    for i, k in enumerate(tcols[3:6]):
                        c2[k] = v2.get((i,))
                    for k in tcols[6:]:
                        c2[k] = A.sym('unused_' + k)
                    if rates:
                        for k in rcols:
                            c2[k] = cols[k]
                    pva2 = Rec(c2, 'series')
                    pva2.euler = rph2
                    z1, _, _ = ev.call_function(m, [A.sym('time'), pva2, em], {}, selfo)
                except Unsupported as e:
                    A.trunc = None
                    raise AnalysisError('%s: Jacobian check not analysable: %s' % (tag, e))
                finally:
                    A.trunc = None
                zero_res = {'meas_' + k: cols[k] for k in lla_c}
                bad = []
                for i in range(z1.shape[0]):
                    d1 = A.subst(A.diff(z1.get((i,)), '@e'), {'@e': A.const(0)})
                    d1 = A.subst(d1, zero_res)
                    for k in range(ns):
                        want = A.neg(A.coeff(d1, 'x%d' % k)) if True else None
                        if not A.eq(H.get((i, k)), want):
                            bad.append((i, k))
                n += 1
                ctx.ob('H-JACOBIAN', not bad, None, '%s: H == -dz/dx' % tag, f=m,
                       key='jac-' + tag,
                       why='%s: measurement matrix differs from the derivative of the residual '
                           'with respect to the error state at entries (row, state) %s'
                           % (tag, bad[:6]))
    ctx.floor('H-JACOBIAN', n, 10, 'configurations')


def meas_noise(ctx):
    ctx.rule('MEAS-NOISE', 'the constructor stores R = sd^2 * I_3 for the supplied standard '
             'deviation; compute_matrices returns the block of R that belongs to the rows of z '
             '(all three, or north/east without altitude), untouched')
    repo = ctx.repo
    n = 0
    for c, m in _subclasses(ctx):
        init = c.methods.get('__init__')
        ctx.need(init is not None, '%s has no constructor' % c.name)
        ctx.touch(init)
        ev = SymEval(repo, Alg())
        A = ev.A
        sdp = [p_ for p_ in init.params[1:] if p_ == 'sd' or p_.endswith('_sd') or
               'sd' in p_.split('_')]
        ctx.need(len(sdp) == 1, '%s.__init__: standard-deviation parameter not identified'
                 % c.name)
        args = []
        for p_ in init.params[1:]:
            if p_ == sdp[0]:
                args.append(A.sym('sd'))
            elif p_ == 'data':
                args.append(Opaque('data'))
            else:
                args.append(None)
        o = Obj(c)

        class _H:
            def attr(self, ev_, base, a, node):
                if isinstance(base, Opaque) and base.tag in ('data', 'data.sel'):
                    return Opaque('data.sel')
                return None

            def subscript(self, ev_, base, idx, node, env):
                if isinstance(base, Opaque) and base.tag in ('data', 'data.sel'):
                    return Opaque('data.sel')
                return None
        ev.hooks = _H()
        try:
            ev.call_function(init, args, {}, o)
        except Unsupported as e:
            raise AnalysisError('%s.__init__ not analysable: %s' % (c.name, e))
        R = o.attrs.get('R')
        sd2 = A.mul(A.sym('sd'), A.sym('sd'))
        ctx.need(isinstance(R, SArray), '%s.__init__: the value stored in self.R is not modelled'
                 % c.name)
        ok = isinstance(R, SArray) and R.shape == (3, 3) and all(
            A.eq(R.get((i, j)), sd2 if i == j else A.const(0)) for i in range(3)
            for j in range(3))
        n += 1
        ctx.ob('MEAS-NOISE', ok, None, '%s: R = sd^2 * I_3' % c.name, f=init, key='ctor-' + c.name,
               why='%s stores a noise matrix that is not the variance sd^2 on the diagonal '
                   '(e.g. the standard deviation itself): the filter weights this sensor wrongly'
                   % c.name)
        # returned block
        for wa in (True, False):
            try:
                ev2, ret, em = _eval_measurement(ctx, c, m, wa, False, False)
            except Unsupported as e:
                raise AnalysisError('%s.compute_matrices not analysable: %s' % (c.name, e))
            z, H, Rr = ret
            k = z.shape[0]
            A2 = ev2.A
            ok = isinstance(Rr, SArray) and Rr.shape == (k, k) and all(
                A2.eq(Rr.get((i, j)), A2.sym('var%d' % i) if i == j else A2.const(0))
                for i in range(k) for j in range(k))
            n += 1
            ctx.ob('MEAS-NOISE', ok, None, '%s (with_altitude=%s): returned R is the leading %dx%d '
                   'block of self.R' % (c.name, wa, k, k), f=m, key='block-%s-%s' % (c.name, wa),
                   why='%s (with_altitude=%s): the noise matrix returned with a %d-row residual is '
                       'not the matching block of the stored one' % (c.name, wa, k))
    ctx.floor('MEAS-NOISE', n, 6, 'noise-matrix obligations')


# ------------------------------------------------------------------ MEAS-SIM
class _SimHooks:
    """Evaluate a measurement simulator on a symbolic Trajectory table: the random state yields
    one symbolic 3-vector of unit errors per row (scaled by the expansion parameter '@e'), the
    attitude matrix is the same symbolic C the measurement model is evaluated with, and the
    returned DataFrame is a record column -> value."""

    def __init__(self, C):
        self.C = C
        self.draws = 0
        self.frame = None

    def call(self, ev, q, node, args, kwargs, env):
        A = ev.A
        if q is not None and q.endswith('check_random_state'):
            return Opaque('rng')
        if q == 'pyins.transform.mat_from_rph':
            return self.C
        if q == 'pandas.DataFrame':
            data = kwargs.get('data', args[0] if args else None)
            cols = kwargs.get('columns', args[2] if len(args) > 2 else None)
            if isinstance(data, SArray) and len(data.shape) == 1 and isinstance(cols, (list, tuple)) \
                    and len(cols) == data.shape[0] and all(isinstance(c, str) for c in cols):
                self.frame = {c: data.get((i,)) for i, c in enumerate(cols)}
                return Rec(dict(self.frame), 'frame')
            raise Unsupported('DataFrame construction not recognised')
        return NotImplemented

    def attr(self, ev, base, a, node):
        if isinstance(base, Opaque) and base.tag == 'rng' and a in ('randn', 'standard_normal',
                                                                   'normal'):
            def draw(*shape, **kw):
                if a != 'randn':
                    shape = kw.get('size', shape[-1] if shape else ())
                    shape = tuple(shape) if isinstance(shape, (tuple, list)) else (shape,)
                if len(shape) != 2 or shape[1] != 3:
                    raise Unsupported('random draw of shape %r' % (shape,))
                self.draws += 1
                A = ev.A
                return SArray((3,), {(i,): A.mul(A.sym('@e'), A.sym('n%d' % i))
                                     for i in range(3)}, None, True)
            return draw
        return None


def meas_sim(ctx):
    """Simulator and measurement model composed: the residual of a simulated measurement at the
    true state is minus the injected error (C06: 'noise-free simulated measurements evaluated at
    the true state give a zero residual and an injected error e gives residual -e')."""
    ctx.rule('MEAS-SIM', 'compute_matrices at the true state on data from the matching '
             'sim.generate_*_measurements: 0 without error, and to first order -+ error_sd * (unit '
             'error of the same component) - the sign of a zero-mean random error is not '
             'observable (symbolic, all states)')
    repo = ctx.repo
    pairs = [('sim.generate_position_measurements', 'measurements.Position'),
             ('sim.generate_ned_velocity_measurements', 'measurements.NedVelocity'),
             ('sim.generate_body_velocity_measurements', 'measurements.BodyVelocity')]
    n = 0
    for gen, cq in pairs:
        g = repo.function(gen)
        c = repo.klass(cq)
        m = c.methods.get('compute_matrices')
        ctx.need(m is not None, '%s.compute_matrices missing' % cq)
        try:
            ev, ret, em = _eval_measurement(ctx, c, m, True, False, False)
        except Unsupported as e:
            raise AnalysisError('%s.compute_matrices not analysable: %s' % (cq, e))
        ctx.need(isinstance(ret, tuple) and len(ret) == 3 and isinstance(ret[0], SArray),
                 '%s: result is not (z, H, R)' % cq)
        z = ret[0]
        A = ev.A
        h = _SimHooks(ev.hooks.C)
        ev2 = SymEval(repo, A, hooks=h)
        ev2.stacked = ev2.columns_are_series = True
        cols = {k: A.sym(k) for k in repo.const('util.TRAJECTORY_COLS')}
        traj = Rec(cols, 'frame')
        ctx.need(len(g.params) >= 2, '%s signature' % gen)
        sd = A.sym('error_sd')
        try:
            ev2.call_function(g, [traj, sd], {})
        except Unsupported as e:
            raise AnalysisError('%s not analysable: %s' % (gen, e))
        ctx.need(h.frame is not None and h.draws == 1,
                 '%s: result table / single random draw not recognised' % gen)
        mp = {}
        used = sorted(a for k in range(z.shape[0]) for a in A.atoms_of(z.get((k,)))
                      if a.startswith('meas_'))
        missing = [a for a in used if a[5:] not in h.frame]
        ctx.need(not missing, '%s reads columns %s that %s does not produce'
                 % (cq, missing, gen))
        for a in used:
            mp[a] = ev2.rat(h.frame[a[5:]])
        ok0 = ok1 = True
        bad = ''
        taken = set()
        for k in range(z.shape[0]):
            zz = A.subst(z.get((k,)), mp)
            z0 = A.subst(zz, {'@e': A.const(0)})
            z1 = A.subst(A.diff(zz, '@e'), {'@e': A.const(0)})
            if not A.is_zero(z0):
                ok0 = False
                bad = bad or 'component %d without error is %s' % (k, A.key(z0)[:100])
            # sign and order of independent zero-mean unit errors are not observable: each
            # component must be +- error_sd * (one unit error of its own)
            hit = [j for j in range(3) if j not in taken and
                   (A.eq(z1, A.mul(sd, A.sym('n%d' % j))) or
                    A.eq(z1, A.neg(A.mul(sd, A.sym('n%d' % j)))))]
            if hit:
                taken.add(hit[0])
            else:
                ok1 = False
                bad = bad or 'component %d responds to the unit errors by %s, expected ' \
                             '-+ error_sd * (a unit error of its own)' % (k, A.key(z1)[:100])
        n += 1
        ctx.ob('MEAS-SIM', ok0 and ok1, None,
               '%s on data of %s: residual = -injected error' % (c.name, g.name), f=g,
               node=g.node, key='sim-' + c.name,
               why='the residual of %s at the true state, on data produced by %s, is not minus '
                   'the injected error: %s' % (c.name, g.name, bad))
    ctx.floor('MEAS-SIM', n, 3, 'simulator / model pairs')
