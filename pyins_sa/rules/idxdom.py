"""IDX-DOMAIN - positional cursors are typed by the time axis they enumerate.

A positional cursor (an integer obtained from np.searchsorted on a table's index, from
range(len(table)), or by +-constant / copy from another cursor) enumerates the rows of ONE time
axis.  Using it to address rows of a table with a different axis (`other.iloc[c]`,
`other.index[c]`) silently selects data of the wrong time whenever the two tables are not
row-aligned (decimated trajectory, increments that start earlier).  Time-label addressing
(`.loc[t0:t1]`) carries no such obligation.

Axes:   T (a table name), `T.index`, np.asarray(T.index), a local bound to one of those
        (`times = T.index`).  A table re-bound inside the function (`T = T.loc[...]`) is a new
        axis from that statement on.
Aligned axes (one class): established by the function itself - an index-equality guard that
        raises (`if (A.index != B.index).any(): raise`), or construction with `index=A.index`.
The rule is contradiction-only: a cursor class that addresses two axis classes is a violation,
reported at the sites of the axis addressed least often.
"""
import ast

from ..model import norm_text


class _UF:
    def __init__(self):
        self.p = {}

    def find(self, x):
        self.p.setdefault(x, x)
        while self.p[x] != x:
            self.p[x] = self.p[self.p[x]]
            x = self.p[x]
        return x

    def union(self, a, b):
        a, b = self.find(a), self.find(b)
        if a != b:
            self.p[b] = a


def _analyse(f):
    res = lambda n: f.module.resolve(n, f.local_names())
    body = f.node.body
    # --- table re-binding: (name, line) list
    rebind = {}
    for n in ast.walk(f.node):
        if isinstance(n, ast.Assign) and len(n.targets) == 1 and \
                isinstance(n.targets[0], ast.Name):
            t = n.targets[0].id
            v = n.value
            # T = T.loc[...] / T.iloc[...] / T.reindex(...): a new table under the old name
            if any(isinstance(x, ast.Name) and x.id == t for x in ast.walk(v)) and \
                    any(isinstance(x, ast.Attribute) and x.attr in ('loc', 'iloc', 'reindex')
                        for x in ast.walk(v)):
                rebind.setdefault(t, []).append(n.lineno)

    def version(name, line):
        k = sum(1 for l in rebind.get(name, ()) if l < line)
        return name if k == 0 else '%s#%d' % (name, k)

    alias = {}       # local -> axis key text (flow-insensitive; conflicting rebinding drops it)
    dropped = set()

    def axis_of(e, line):
        """axis key of an expression denoting a table or its index array, else None"""
        if isinstance(e, ast.Call) and res(e.func) in ('numpy.asarray', 'numpy.array') and e.args:
            return axis_of(e.args[0], line)
        if isinstance(e, ast.Attribute) and e.attr in ('index', 'values') :
            inner = e.value
            if e.attr == 'values':
                return axis_of(inner, line)
            if isinstance(inner, ast.Name):
                return version(inner.id, line)
            return norm_text(inner)
        if isinstance(e, ast.Name) and e.id in alias and e.id not in dropped:
            return alias[e.id]
        return None

    for n in ast.walk(f.node):
        if isinstance(n, ast.Assign) and len(n.targets) == 1 and \
                isinstance(n.targets[0], ast.Name):
            ax = axis_of(n.value, n.lineno) if not isinstance(n.value, ast.Name) else None
            t = n.targets[0].id
            if ax is not None:
                if t in alias and alias[t] != ax:
                    dropped.add(t)
                alias[t] = ax
            elif t in alias:
                dropped.add(t)

    tables = _UF()
    cursors = _UF()
    uses = []        # (cursor name, axis key, node, text)

    def cursor_names(e):
        """names that act as positions in an index expression: c, c + 1, c - k, c + d"""
        if isinstance(e, ast.Name):
            return [e.id]
        if isinstance(e, ast.BinOp) and isinstance(e.op, (ast.Add, ast.Sub)):
            return cursor_names(e.left) + cursor_names(e.right)
        return []

    def index_exprs(sl):
        if isinstance(sl, ast.Slice):
            return [x for x in (sl.lower, sl.upper) if x is not None]
        if isinstance(sl, ast.Tuple):
            return index_exprs(sl.elts[0]) if sl.elts else []
        return [sl]

    for n in ast.walk(f.node):
        # ---- alignment facts
        if isinstance(n, ast.If) and any(isinstance(s, ast.Raise) for s in n.body):
            for c in ast.walk(n.test):
                if isinstance(c, ast.Compare) and len(c.ops) == 1 and \
                        isinstance(c.ops[0], ast.NotEq):
                    a, b = axis_of(c.left, n.lineno), axis_of(c.comparators[0], n.lineno)
                    if a and b:
                        tables.union(a, b)
        if isinstance(n, ast.Assign) and len(n.targets) == 1 and \
                isinstance(n.targets[0], ast.Name) and isinstance(n.value, ast.Call):
            for kw in n.value.keywords:
                if kw.arg == 'index':
                    a = axis_of(kw.value, n.lineno)
                    if a:
                        tables.union(version(n.targets[0].id, n.lineno + 1), a)
        # ---- cursor definitions
        if isinstance(n, ast.Assign) and len(n.targets) == 1 and \
                isinstance(n.targets[0], ast.Name):
            t = n.targets[0].id
            v = n.value
            core = v
            while isinstance(core, ast.BinOp) and isinstance(core.op, (ast.Add, ast.Sub)) and \
                    isinstance(core.right, ast.Constant):
                core = core.left
            if isinstance(core, ast.Call) and res(core.func) == 'numpy.searchsorted' and core.args:
                a = axis_of(core.args[0], n.lineno)
                if a:
                    uses.append((t, a, core, 'np.searchsorted(%s, ...)' % norm_text(core.args[0])))
            elif isinstance(core, ast.Name):
                cursors.union(t, core.id)
        if isinstance(n, ast.For) and isinstance(n.target, ast.Name) and \
                isinstance(n.iter, ast.Call) and norm_text(n.iter.func) == 'range' and n.iter.args:
            a0 = n.iter.args[-1]
            core = a0
            while isinstance(core, ast.BinOp) and isinstance(core.right, ast.Constant):
                core = core.left
            if isinstance(core, ast.Call) and norm_text(core.func) == 'len' and core.args:
                a = axis_of(core.args[0], n.lineno) or (
                    version(core.args[0].id, n.lineno) if isinstance(core.args[0], ast.Name)
                    and core.args[0].id in table_names else None)
                if a:
                    uses.append((n.target.id, a, n.iter, 'range(len(%s))' % norm_text(core.args[0])))
        # ---- positional uses
        if isinstance(n, ast.Subscript):
            base = n.value
            a = None
            if isinstance(base, ast.Attribute) and base.attr == 'iloc':
                inner = base.value
                a = version(inner.id, n.lineno) if isinstance(inner, ast.Name) else norm_text(inner)
            else:
                a = axis_of(base, n.lineno)
            if a:
                for e in index_exprs(n.slice):
                    for c in cursor_names(e):
                        uses.append((c, a, n, norm_text(n)))
    return tables, cursors, uses


table_names = set()


def idx_domain(ctx, modules=('filters',), floor=8):
    ctx.rule('IDX-DOMAIN', 'a positional cursor addresses rows of one time axis only (its own '
             'table, or tables the function has established as index-aligned)')
    n_sites = 0
    for f in ctx.repo.all_functions():
        if modules and f.module.name.split('.')[-1] not in modules:
            continue
        tables, cursors, uses = _analyse(f)
        if not uses:
            continue
        ctx.touch(f)
        by_cur = {}
        for c, a, node, txt in uses:
            by_cur.setdefault(cursors.find(c), []).append((c, tables.find(a), a, node, txt))
        for cls, lst in by_cur.items():
            axes = {}
            for c, ta, a, node, txt in lst:
                axes.setdefault(ta, []).append((c, a, node, txt))
            major = max(axes, key=lambda k: (len(axes[k]), k))
            for ta, sites in axes.items():
                for c, a, node, txt in sites:
                    n_sites += 1
                    ok = len(axes) == 1 or ta == major
                    ctx.ob('IDX-DOMAIN', ok, None,
                           "cursor '%s' addresses axis '%s' in `%s`" % (c, a, txt[:60]),
                           f=f, node=node, key='%s@%s' % (c, a),
                           why="cursor '%s' enumerates the rows of '%s' (%d sites) but is used to "
                               "address rows of '%s', which this function has not established "
                               "as index-aligned: with a decimated or differently spanned table "
                               "the rows belong to other times"
                               % (c, major, len(axes[major]), a))
    ctx.floor('IDX-DOMAIN', n_sites, floor, 'positional cursor uses')
