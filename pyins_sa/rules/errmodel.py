"""C04 / C05 (and the Euler-Jacobian clause of C17) - error model and error-state transforms.

ES-INV     transform_to_internal = [S @] inv(X), transform_to_output = X [@ E] with the same
           builder X on the same argument, and S @ E = I_7 (left inverse by construction)
ES-FIRST   applying correct_pva(pva, x) changes the state, to first order in x, by exactly
           -transform_to_output(pva) @ x in output coordinates (NED metres via
           compute_lla_difference, NED velocity, Euler angles in degrees via the rotation
           model) - 3-D and 2-D; this includes: the attitude block of transform_to_output
           (_phi_to_delta_rph) is the derivative of the Euler angles w.r.t. a small rotation
ES-PERTURB sim.perturb_pva adds the given output-space error to first order
EM-2D      7-state matrices = S F E, S B with the 9-state F, B of the same code
EM-UNITS   dimensional homogeneity of every entry of F, B_gyro, B_accel, the output
           transform and the Jacobians (scaling symmetry in the normal form)
EM-FRAME   body-frame covariance: B(C Q) = B(C) Q, F independent of attitude
EM-CALLS   every call of the 2-D embedding passes (VN, VE) of the same state
PROP-CONSIST  propagate_errors: one-step map consistent with x' = F x + Bg eg + Ba ea
"""
import ast
from fractions import Fraction

from ..expr import SymEval, SArray, Rec, Obj, Opaque, Unsupported
from ..model import AnalysisError, norm_text, FunctionInfo
from ..nf import Alg, Rat
from ..rotmodel import RotHooks, EulerOf, RotObj


def _em(ctx, ev, with_altitude):
    emc = ctx.repo.klass('error_model.InsErrorModel')
    em = Obj(emc)
    ev.call_function(emc.methods['__init__'], [with_altitude], {}, em)
    return emc, em


def _pva(ctx, A, extra=()):
    cols = {k: A.sym(k) for k in ctx.repo.const('util.TRAJECTORY_COLS')}
    for k in extra:
        cols[k] = A.sym(k)
    return Rec(cols, 'series')


class _H(RotHooks):
    def __init__(self):
        self.series = None

    def call(self, ev, q, node, args, kwargs, env):
        r = RotHooks.call(self, ev, q, node, args, kwargs, env)
        if r is not NotImplemented:
            return r
        if q == 'numpy.hstack':
            seq = args[0]
            if any(isinstance(x, EulerOf) for x in seq):
                return Opaque('hstack', *seq)
        if q == 'pandas.Series':
            self.series = (args, kwargs)
            return Opaque('Series')
        return NotImplemented


def _eval_T(ctx, ev, em, emc, pva, name='transform_to_output'):
    try:
        return ev.call_function(emc.methods[name], [pva], {}, em)
    except Unsupported as e:
        raise AnalysisError('%s not analysable: %s' % (name, e))


# --------------------------------------------------------------------- ES-INV
class _TEval:
    """transform_to_output / transform_to_internal in the non-commutative normal form:
    X = the 9x9 builder at the argument, E = the 2-D embedding at (VN, VE) of the argument,
    K:<name> = a class-level constant matrix, inv(.) by inverse atoms."""

    def __init__(self, ctx, emc, m, with_altitude):
        from .kal import NCAlg
        self.ctx, self.emc, self.m, self.wa = ctx, emc, m, with_altitude
        self.A = NCAlg()
        self.env = {}
        self.p = m.params[1]
        self.consts = set()
        self.res = lambda n: m.module.resolve(n, m.local_names())

    def named(self, name, inv_of=None):
        A = self.A
        if inv_of is not None:
            A.inverse[inv_of] = name
            A.inverse[name] = inv_of
        return A.atom(name)

    def ev(self, e):
        A = self.A
        if isinstance(e, ast.Name):
            if e.id in self.env:
                return self.env[e.id]
            raise AnalysisError('%s: `%s`' % (self.m.name, e.id))
        if isinstance(e, ast.Attribute) and isinstance(e.value, ast.Name) and \
                e.value.id in ('self', 'cls'):
            mem = self.ctx.repo.class_member(self.emc, e.attr)
            if isinstance(mem, tuple) and mem[0] == 'const':
                self.consts.add(e.attr)
                return A.atom('K:' + e.attr)
            raise AnalysisError('%s reads self.%s' % (self.m.name, e.attr))
        if isinstance(e, ast.IfExp):
            # `a if self.with_altitude else b` (and its negation): the arm of this mode
            t_ = norm_text(e.test)
            if t_ in ('self.with_altitude', 'self.with_altitude is True'):
                return self.ev(e.body if self.wa else e.orelse)
            if t_ in ('not self.with_altitude', 'self.with_altitude is False'):
                return self.ev(e.orelse if self.wa else e.body)
        if isinstance(e, ast.Attribute) and e.attr == 'T':
            return A.T(self.ev(e.value))
        if isinstance(e, ast.BinOp) and isinstance(e.op, ast.MatMult):
            return A.mul(self.ev(e.left), self.ev(e.right))
        if isinstance(e, ast.Call):
            q = self.res(e.func) or ''
            fn = e.func
            if isinstance(fn, ast.Attribute) and isinstance(fn.value, ast.Name) and \
                    fn.value.id in ('self', 'cls'):
                mem = self.ctx.repo.class_member(self.emc, fn.attr)
                args = [norm_text(a) for a in e.args]
                if isinstance(mem, FunctionInfo):
                    vn = {'%s.VN' % self.p, "%s['VN']" % self.p}
                    ve = {'%s.VE' % self.p, "%s['VE']" % self.p}
                    if len(args) == 2 and args[0] in vn and args[1] in ve:
                        self.embed = mem
                        return A.atom('E')
                    if args == [self.p]:
                        self.builder = mem
                        return A.atom('X:' + mem.name)
                    return A.atom('%s(%s)' % (mem.name, ', '.join(args)))
            if q in ('numpy.linalg.inv', 'scipy.linalg.inv') and len(e.args) == 1:
                v = self.ev(e.args[0])
                if len(v.t) == 1:
                    (mm, c), = v.t.items()
                    if c == 1 and len(mm) == 1 and not mm[0][1]:
                        return self.named('inv(%s)' % mm[0][0], mm[0][0])
                raise AnalysisError('%s: inverse of a composite matrix' % self.m.name)
            if q in ('numpy.linalg.pinv', 'scipy.linalg.pinv') and len(e.args) == 1:
                v = self.ev(e.args[0])
                return A.atom('pinv(%s)' % v.key())
            if q == 'pyins.util.mm_prod' and len(e.args) == 2 and not e.keywords:
                return A.mul(self.ev(e.args[0]), self.ev(e.args[1]))
            if q in ('numpy.dot', 'numpy.matmul') and len(e.args) == 2:
                return A.mul(self.ev(e.args[0]), self.ev(e.args[1]))
            if isinstance(fn, ast.Attribute) and fn.attr == 'dot' and len(e.args) == 1:
                return A.mul(self.ev(fn.value), self.ev(e.args[0]))
            if isinstance(fn, ast.Attribute) and fn.attr == 'transpose' and not e.args:
                return A.T(self.ev(fn.value))
            if q == 'numpy.transpose' and len(e.args) == 1 and not e.keywords:
                return A.T(self.ev(e.args[0]))
        raise AnalysisError('%s: expression `%s`' % (self.m.name, norm_text(e)[:50]))

    def run(self):
        def block(body):
            for st in body:
                if isinstance(st, ast.Expr) and isinstance(st.value, ast.Constant):
                    continue
                if isinstance(st, ast.Assign) and len(st.targets) == 1 and \
                        isinstance(st.targets[0], ast.Name):
                    self.env[st.targets[0].id] = self.ev(st.value)
                    continue
                if isinstance(st, ast.If):
                    t = norm_text(st.test)
                    if t in ('not self.with_altitude', 'self.with_altitude is False',
                             'self.with_altitude == False'):
                        r = block(st.body if not self.wa else st.orelse)
                    elif t in ('self.with_altitude', 'self.with_altitude is True'):
                        r = block(st.body if self.wa else st.orelse)
                    else:
                        raise AnalysisError('%s: test `%s`' % (self.m.name, t[:40]))
                    if r is not None:
                        return r
                    continue
                if isinstance(st, ast.Return):
                    return self.ev(st.value)
                if isinstance(st, (ast.Assert, ast.Pass)):
                    continue          # an assertion is assumed to hold (as in SymEval)
                raise AnalysisError('%s: statement `%s`' % (self.m.name, norm_text(st)[:50]))
            return None
        r = block(self.m.node.body)
        if r is None:
            raise AnalysisError('%s: no return' % self.m.name)
        return r


def es_inv(ctx):
    ctx.rule('ES-INV', 'transform_to_internal @ transform_to_output == I (3-D: inv(X) X; 2-D: a '
             'constant selection K of the 9 components with K E = I_7, applied to inv(X): what is '
             'dropped is exactly the down / vertical-velocity component, whatever its value)')
    repo = ctx.repo
    emc = repo.klass('error_model.InsErrorModel')
    ti, to = emc.methods['transform_to_internal'], emc.methods['transform_to_output']
    for wa in (True, False):
        I_, O_ = _TEval(ctx, emc, ti, wa), _TEval(ctx, emc, to, wa)
        # one algebra for both
        O_.A = I_.A
        vi, vo = I_.run(), O_.run()
        A = I_.A
        xs = sorted({a_ for v_ in (vi, vo) for mm_ in v_.t for a_, _ in mm_
                     if a_.startswith('X:')} | {k for k in A.inverse if k.startswith('X:')})
        if wa:
            ok = A.eq(A.mul(vi, vo), A.ident()) and len(xs) == 1
            ctx.ob('ES-INV', ok, None, '3-D: internal @ output == I (internal = inv(X), output = X '
                   'with the same builder on the argument)', f=ti, key='3d',
                   why='3-D transform_to_internal @ transform_to_output is `%s`, not the identity '
                       '(different builders, or not the inverse)' % A.mul(vi, vo).key()[:120])
            continue
        # 2-D: output = X E ; internal = K inv(X) with K a constant selection
        okO = len(xs) == 1 and A.eq(vo, A.mul(A.atom(xs[0]), A.atom('E')))
        ctx.ob('ES-INV', okO, None, '2-D output = X @ E(VN, VE) of the argument', f=to,
               key='2d-output', why='2-D transform_to_output is `%s`, not X @ '
                                    '_transform_3d_2d(VN, VE) of its argument' % vo.key()[:100])
        K = None
        if len(vi.t) == 1 and len(xs) == 1:
            (mm, c), = vi.t.items()
            if c == 1 and len(mm) == 2 and mm[1] == (A.inverse.get(xs[0]), False) and \
                    mm[0][0].startswith('K:') and not mm[0][1]:
                K = mm[0][0][2:]
        ctx.ob('ES-INV', K is not None, None, '2-D internal = K @ inv(X) with K a constant matrix',
               f=ti, key='2d-internal',
               why='2-D transform_to_internal is `%s`: the reduction from 9 to 7 components is '
                   'not a constant matrix applied to inv(X) (a state-dependent reduction such as '
                   'pinv(E) lets the vertical-velocity component of an output error leak into '
                   'the modelled states)' % vi.key()[:120])
        if K is None:
            continue
        ev = SymEval(repo, Alg())
        A2 = ev.A
        _, em = _em(ctx, ev, False)
        try:
            E = ev.call_function(emc.methods['_transform_3d_2d'], [A2.sym('VN'), A2.sym('VE')],
                                 {}, em)
            S = ev.global_value('pyins.error_model.InsErrorModel.' + K)
            SE = ev.matmul(S, E)
        except Unsupported as e:
            raise AnalysisError('2-D embedding not analysable: %s' % e)
        ok = SE.shape == (7, 7) and all(
            A2.eq(SE.get((i, j)), A2.const(1 if i == j else 0)) for i in range(7)
            for j in range(7))
        ctx.ob('ES-INV', ok, None, '%s @ _transform_3d_2d(VN, VE) == I_7' % K,
               f=emc.methods['_transform_3d_2d'], key='SE',
               why='selection and embedding of the 7-state model are not inverse to each other')
        # K is a selection: unit rows, and the dropped columns are the vertical components
        sel, unit = [], True
        for i in range(S.shape[0]):
            row = [S.get((i, j)) for j in range(S.shape[1])]
            ones = [j for j, v in enumerate(row) if A2.is_const(v) and A2.const_of(v) == 1]
            zeros = [j for j, v in enumerate(row) if A2.is_const(v) and A2.const_of(v) == 0]
            if len(ones) != 1 or len(ones) + len(zeros) != len(row):
                unit = False
            sel += ones
        dropped = sorted(set(range(S.shape[1])) - set(sel))
        try:
            want = sorted([repo.const('error_model.InsErrorModel.DRD'),
                           repo.const('error_model.InsErrorModel.DVD')])
        except AnalysisError:
            want = None
        ctx.ob('ES-INV', unit and len(set(sel)) == len(sel) and (want is None or dropped == want),
               None, '%s selects 7 of the 9 components and drops down position / vertical velocity '
               '%s' % (K, dropped), f=ti, key='selection',
               why='%s is not a selection of components that drops exactly the down-position and '
                   'vertical-velocity errors (dropped: %s)' % (K, dropped))


# -------------------------------------------------------------------- ES-FIRST
def es_first(ctx):
    ctx.rule('ES-FIRST', 'correct_pva(pva, x) changes the state by -transform_to_output(pva) @ x '
             'to first order (position in NED metres, NED velocity, Euler angles in degrees)')
    repo = ctx.repo
    cols = repo.const('util.TRAJECTORY_COLS')
    lla_c, vel_c, rph_c = (repo.const('util.LLA_COLS'), repo.const('util.VEL_COLS'),
                           repo.const('util.RPH_COLS'))
    for wa in (True, False):
        h = _H()
        ev = SymEval(repo, Alg(), hooks=h)
        A = ev.A
        emc, em = _em(ctx, ev, wa)
        ns = 9 if wa else 7
        pva = _pva(ctx, A)
        T = _eval_T(ctx, ev, em, emc, pva)
        ctx.need(isinstance(T, SArray) and T.shape == (9, ns), 'transform_to_output shape')
        eps = A.sym('@e')
        xs = [A.sym('x%d' % i) for i in range(ns)]
        x = SArray((ns,), {(i,): A.mul(eps, xs[i]) for i in range(ns)})
        A.trunc = ('@e', 1)
        try:
            cp = emc.methods['correct_pva']
            try:
                ev.call_function(cp, [pva, x], {}, em)
            except Unsupported as e:
                raise AnalysisError('correct_pva not analysable (with_altitude=%s): %s' % (wa, e))
            ctx.need(h.series is not None, 'correct_pva does not build a Series')
            args, kwargs = h.series
            data = kwargs.get('data', args[0] if args else None)
            ctx.need(isinstance(data, Opaque) and data.tag == 'hstack' and len(data.parts) == 3,
                     'correct_pva result layout not recognised')
            lla2, v2, rph2 = data.parts
            ctx.need(isinstance(rph2, EulerOf) and rph2.seq == 'xyz' and rph2.degrees is True,
                     'corrected attitude is not as_euler(xyz, degrees) of a matrix')
            # expected output-space change  T @ x  (per unit eps)
            Tx = [None] * 9
            for i in range(9):
                s = A.const(0)
                for k in range(ns):
                    s = A.add(s, A.mul(T.get((i, k)), xs[k]))
                Tx[i] = s
            err_cols = repo.const('util.TRAJECTORY_ERROR_COLS')
            # ---- position: compute_lla_difference(pva, corrected) = T x [0:3]
            vec = lambda v: SArray((len(v),), {(i,): y for i, y in enumerate(v)})
            cd = repo.function('transform.compute_lla_difference')
            A.trunc = None
            A.trunc = ('@e', 1)
            d = ev.call_function(cd, [vec([pva.cols[c] for c in lla_c]), lla2])
            for k in range(3):
                c1 = A.subst(A.diff(d.get((k,)), '@e'), {'@e': A.const(0)})
                c0 = A.subst(d.get((k,)), {'@e': A.const(0)})
                ok = A.is_zero(c0) and A.eq(c1, Tx[k])
                ctx.ob('ES-FIRST', ok, None, 'with_altitude=%s: %s error removed = (T x)[%s]'
                       % (wa, err_cols[k], err_cols[k]), f=cp, key='pos-%s-%d' % (wa, k),
                       why='with_altitude=%s: correcting with x moves the position by '
                           'something other than the %s component of transform_to_output @ x'
                           % (wa, err_cols[k]))
            # ---- velocity
            for k in range(3):
                dv = A.sub(pva.cols[vel_c[k]], v2.get((k,)))
                c1 = A.subst(A.diff(dv, '@e'), {'@e': A.const(0)})
                c0 = A.subst(dv, {'@e': A.const(0)})
                ok = A.is_zero(c0) and A.eq(c1, Tx[3 + k])
                ctx.ob('ES-FIRST', ok, None, 'with_altitude=%s: %s error removed = (T x)[%s]'
                       % (wa, err_cols[3 + k], err_cols[3 + k]), f=cp,
                       key='vel-%s-%d' % (wa, k),
                       why='with_altitude=%s: correcting with x changes %s by something other '
                           'than the matching row of transform_to_output @ x'
                           % (wa, err_cols[3 + k]))
            # ---- attitude: C' = M + e*dC ; dC must equal sum_k dM/da_k * (-(T x)[6+k])
            A.trunc = None
            M = ev.call_function(repo.function('transform.mat_from_rph'),
                                 [vec([pva.cols[c] for c in rph_c])])
            C2 = rph2.mat
            bad = []
            for i in range(3):
                for j in range(3):
                    c0 = A.subst(C2.get((i, j)), {'@e': A.const(0)})
                    c1 = A.subst(A.diff(C2.get((i, j)), '@e'), {'@e': A.const(0)})
                    want = A.const(0)
                    for k in range(3):
                        want = A.sub(want, A.mul(A.diff(M.get((i, j)), rph_c[k]), Tx[6 + k]))
                    if not (A.eq(c0, M.get((i, j))) and A.eq(c1, want)):
                        bad.append((i, j))
            ctx.ob('ES-FIRST', not bad, None,
                   'with_altitude=%s: rotation applied by the correction = change of '
                   'mat_from_rph under -(T x)[roll, pitch, heading]' % wa, f=cp,
                   key='att-%s' % wa,
                   why='with_altitude=%s: the attitude rows of transform_to_output '
                       '(_phi_to_delta_rph) are not the derivative of roll/pitch/heading with '
                       'respect to the small rotation applied by correct_pva (matrix entries %s)'
                       % (wa, bad[:4]))
        finally:
            A.trunc = None


def es_perturb(ctx):
    ctx.rule('ES-PERTURB', 'sim.perturb_pva adds the given output-space error to first order')
    repo = ctx.repo
    ev = SymEval(repo, Alg(), hooks=_H())
    A = ev.A
    pva = _pva(ctx, A)
    ecols = repo.const('util.TRAJECTORY_ERROR_COLS')
    eps = A.sym('@e')
    err = Rec({c: A.mul(eps, A.sym('e_' + c)) for c in ecols}, 'series')
    f = repo.function('sim.perturb_pva')
    try:
        res = ev.call_function(f, [pva, err])
    except Unsupported as e:
        raise AnalysisError('perturb_pva not analysable: %s' % e)
    ctx.need(isinstance(res, Rec), 'perturb_pva result not a Series')
    vec = lambda v: SArray((len(v),), {(i,): y for i, y in enumerate(v)})
    lla_c = repo.const('util.LLA_COLS')
    d = ev.call_function(repo.function('transform.compute_lla_difference'),
                         [vec([ev.rat(res.cols[c]) for c in lla_c]),
                          vec([pva.cols[c] for c in lla_c])])
    tcols = repo.const('util.TRAJECTORY_COLS')
    for k in range(9):
        if k < 3:
            v = d.get((k,))
        else:
            v = A.sub(ev.rat(res.cols[tcols[k]]), pva.cols[tcols[k]])
        c1 = A.subst(A.diff(v, '@e'), {'@e': A.const(0)})
        c0 = A.subst(v, {'@e': A.const(0)})
        ok = A.is_zero(c0) and A.eq(c1, A.sym('e_' + ecols[k]))
        ctx.ob('ES-PERTURB', ok, None, "perturbed - original = error['%s'] to first order"
               % ecols[k], f=f, key='perturb-' + ecols[k],
               why="perturb_pva does not add error['%s'] to the state (first order)" % ecols[k])
    ok = all(A.eq(ev.rat(pva.cols[c]), A.sym(c)) for c in tcols)
    ctx.ob('ES-PERTURB', ok, None, 'input state untouched', f=f, key='pure',
           why='perturb_pva modifies its input')


def jac_shape(ctx):
    """The measurement Jacobians of the error model have the documented shape on every path:
    rows = 3 (2 for position and NED velocity without altitude), columns = number of states -
    with and without a lever arm (a measurement class may slice again, a user's subclass of
    Measurement sizes its residual from the documented shape)."""
    ctx.rule('JAC-SHAPE', 'position / NED-velocity / body-velocity error Jacobians return '
             '(3 or 2) x n_states for both altitude modes, with and without a lever arm')
    repo = ctx.repo
    n = 0
    for wa in (True, False):
        for name, rows2 in (('position_error_jacobian', True),
                            ('ned_velocity_error_jacobian', True),
                            ('body_velocity_error_jacobian', False)):
            for lever in (False, True):
                ev = SymEval(repo, Alg(), hooks=_H())
                A = ev.A
                emc, em = _em(ctx, ev, wa)
                m = emc.methods.get(name)
                ctx.need(m is not None, 'InsErrorModel.%s missing' % name)
                ctx.touch(m)
                if lever and len(m.params) < 3:
                    continue
                pva = _pva(ctx, A, extra=repo.const('util.RATE_COLS'))
                args = [pva]
                if len(m.params) >= 3:
                    args.append(SArray((3,), {(i,): A.sym('l%d' % i) for i in range(3)})
                                if lever else None)
                try:
                    r = ev.call_function(m, args, {}, em)
                except Unsupported as e:
                    raise AnalysisError('%s not analysable (with_altitude=%s, lever=%s): %s'
                                        % (name, wa, lever, e))
                ctx.need(isinstance(r, SArray) and len(r.shape) == 2,
                         '%s: result is not a matrix' % name)
                want = (2 if (rows2 and not wa) else 3, 9 if wa else 7)
                n += 1
                ctx.ob('JAC-SHAPE', tuple(r.shape) == want, None,
                       '%s(with_altitude=%s, lever arm=%s) is %s x %s' % ((name, wa, lever) + want),
                       f=m, key='%s-%s-%s' % (name, wa, lever),
                       why='%s returns a %s x %s matrix for with_altitude=%s %s a lever arm; '
                           'documented %s x %s (a path that skips the row / column reduction)'
                           % (name, r.shape[0], r.shape[1], wa, 'with' if lever else 'without',
                              want[0], want[1]))
    ctx.floor('JAC-SHAPE', n, 8, 'Jacobian evaluations')


# ----------------------------------------------------------------------- EM-2D
def _sysmat(ctx, wa, hooks=None, alg=None):
    repo = ctx.repo
    ev = SymEval(repo, alg or Alg(), hooks=hooks or _H())
    A = ev.A
    emc, em = _em(ctx, ev, wa)
    pva = _pva(ctx, A)
    try:
        r = ev.call_function(emc.methods['system_matrices'], [pva], {}, em)
    except Unsupported as e:
        raise AnalysisError('system_matrices not analysable: %s' % e)
    ctx.need(isinstance(r, tuple) and len(r) == 3 and all(isinstance(x, SArray) for x in r),
             'system_matrices result not (F, B_gyro, B_accel)')
    return ev, emc, em, pva, r


class _HC(_H):
    """attitude as a free matrix C (for covariance / homogeneity checks)."""
    def call(self, ev, q, node, args, kwargs, env):
        if q == 'pyins.transform.mat_from_rph':
            return getattr(self, 'C', None) or self._mk(ev)
        return _H.call(self, ev, q, node, args, kwargs, env)

    def _mk(self, ev):
        A = ev.A
        self.C = SArray((3, 3), {(a, b): A.sym('C%d%d' % (a, b)) for a in range(3)
                                 for b in range(3)})
        return self.C


def em_2d(ctx):
    ctx.rule('EM-2D', '7-state system matrices == S F E and S B of the 9-state matrices')
    ctx.rule('EM-CALLS', 'every call of the 2-D embedding passes (VN, VE) of the state at hand')
    alg = Alg()
    h = _HC()
    ev9, emc, em9, pva, (F9, Bg9, Ba9) = _sysmat(ctx, True, h, alg)
    ev7, _, em7, _, (F7, Bg7, Ba7) = _sysmat(ctx, False, h, alg)
    A = alg
    f = emc.methods['system_matrices']
    ctx.need(F9.shape == (9, 9) and Bg9.shape == (9, 3) and Ba9.shape == (9, 3),
             '9-state shapes %s %s %s' % (F9.shape, Bg9.shape, Ba9.shape))
    S = ev9.global_value('pyins.error_model.InsErrorModel.TRANSFORM_2D_3D')
    E = ev9.call_function(emc.methods['_transform_3d_2d'], [pva.cols['VN'], pva.cols['VE']],
                          {}, em7)
    want = {'F': ev9.matmul(ev9.matmul(S, F9), E), 'B_gyro': ev9.matmul(S, Bg9),
            'B_accel': ev9.matmul(S, Ba9)}
    got = {'F': F7, 'B_gyro': Bg7, 'B_accel': Ba7}
    for k in want:
        ok = got[k].shape == want[k].shape and all(
            A.eq(got[k].get(i), want[k].get(i)) for i in want[k].indices())
        ctx.ob('EM-2D', ok, None, '2-D %s == reduction of the 3-D %s' % (k, k), f=f,
               key='reduce-' + k,
               why='the 7-state %s is not S @ %s%s of the 9-state model' % (
                   k, k, ' @ E' if k == 'F' else ''))
    # call sites of the embedding
    n = 0
    for m in emc.methods.values():
        for node in ast.walk(m.node):
            if isinstance(node, ast.Call) and isinstance(node.func, ast.Attribute) and \
                    node.func.attr == '_transform_3d_2d':
                n += 1
                a = [norm_text(x) for x in node.args]
                ok = len(a) == 2 and a[0].endswith('.VN') and a[1].endswith('.VE') and \
                    a[0][:-3] == a[1][:-3] and a[0][:-3] in m.params
                ctx.ob('EM-CALLS', ok, None, '%s: _transform_3d_2d(%s)' % (m.name, ', '.join(a)),
                       f=m, node=node,
                       why='%s calls the 2-D embedding with (%s); expected (<state>.VN, '
                           '<state>.VE) of its own state argument' % (m.name, ', '.join(a)))
    ctx.floor('EM-CALLS', n, 6, 'embedding call sites')


# -------------------------------------------------------------------- EM-UNITS
def _scale_map(A, ev, lam='@L', tau='@T'):
    """atom -> scaled atom for a change of the length unit (lam) and time unit (tau)."""
    L, T = A.sym(lam), A.sym(tau)
    iT = A.div(A.const(1), T)
    m = {}
    length = ['alt', 'earth.A', 'l0', 'l1', 'l2']
    speed = ['VN', 'VE', 'VD']
    for a in length:
        m[a] = A.mul(L, A.sym(a))
    for a in speed:
        m[a] = A.mul(A.mul(L, iT), A.sym(a))
    m['earth.RATE'] = A.mul(iT, A.sym('earth.RATE'))
    for a in ('earth.GE', 'earth.GP'):
        m[a] = A.mul(A.mul(L, A.mul(iT, iT)), A.sym(a))
    for a in ('rate_x', 'rate_y', 'rate_z'):
        m[a] = A.mul(iT, A.sym(a))
    return m


def _homog(A, v, smap, lexp, texp, lam='@L', tau='@T'):
    """does v scale as lam^lexp * tau^texp under the unit change?"""
    if A.is_zero(v):
        return True
    sv = A.subst(v, smap)
    want = v
    L, T = A.sym(lam), A.sym(tau)
    for _ in range(abs(lexp)):
        want = A.mul(want, L) if lexp > 0 else A.div(want, L)
    for _ in range(abs(texp)):
        want = A.mul(want, T) if texp > 0 else A.div(want, T)
    return A.eq(sv, want)


STATE_UNITS = {'DR': (1, 0), 'DV': (1, -1), 'PHI': (0, 0)}   # (length exp, time exp)
OUT_UNITS = [(1, 0)] * 3 + [(1, -1)] * 3 + [(0, 0)] * 3       # NED m, V m/s, angles (deg: 0)


def em_units(ctx):
    ctx.rule('EM-UNITS', 'every entry of F, B_gyro, B_accel, transform_to_output and the three '
             'Jacobians is dimensionally homogeneous: it scales with the length and time units '
             'as unit(row) / (unit(column) [* s])')
    repo = ctx.repo
    h = _HC()
    ev, emc, em, pva, (F, Bg, Ba) = _sysmat(ctx, True, h, Alg())
    A = ev.A
    smap = _scale_map(A, ev)
    idx = {}
    for g in ('DR', 'DV', 'PHI'):
        for i in repo.const('error_model.InsErrorModel.' + g):
            idx[i] = g
    f = emc.methods['system_matrices']
    n = 0
    bad = []
    for i in range(9):
        for j in range(9):
            ui, uj = STATE_UNITS[idx[i]], STATE_UNITS[idx[j]]
            ok = _homog(A, F.get((i, j)), smap, ui[0] - uj[0], ui[1] - uj[1] - 1)
            n += 1
            if not ok:
                bad.append(('F', i, j))
            ctx.ob('EM-UNITS', ok, None, 'F[%s%d, %s%d] has unit %s/(%s*s)'
                   % (idx[i], i, idx[j], j, idx[i], idx[j]), f=f, key='F-%d-%d' % (i, j),
                   why='F[%d, %d] (row %s, column %s) is not dimensionally consistent: it must '
                       'carry unit(%s) / (unit(%s) * second)' % (i, j, idx[i], idx[j], idx[i],
                                                                 idx[j]))
    for name, B, sens in (('B_gyro', Bg, (0, -1)), ('B_accel', Ba, (1, -2))):
        for i in range(9):
            for j in range(3):
                ui = STATE_UNITS[idx[i]]
                ok = _homog(A, B.get((i, j)), smap, ui[0] - sens[0], ui[1] - 1 - sens[1])
                n += 1
                ctx.ob('EM-UNITS', ok, None, '%s[%s%d, %d] unit' % (name, idx[i], i, j), f=f,
                       key='%s-%d-%d' % (name, i, j),
                       why='%s[%d, %d] (row %s) is not dimensionally consistent with a sensor '
                           'error in %s' % (name, i, j, idx[i],
                                            'rad/s' if name == 'B_gyro' else 'm/s^2'))
    # output transform (angles in degrees are dimensionless for length/time scaling)
    T = _eval_T(ctx, ev, em, emc, pva)
    to = emc.methods['transform_to_output']
    for i in range(9):
        for j in range(9):
            uo, uj = OUT_UNITS[i], STATE_UNITS[idx[j]]
            ok = _homog(A, T.get((i, j)), smap, uo[0] - uj[0], uo[1] - uj[1])
            n += 1
            ctx.ob('EM-UNITS', ok, None, 'T_out[%d, %s%d] unit' % (i, idx[j], j), f=to,
                   key='T-%d-%d' % (i, j),
                   why='transform_to_output[%d, %d] is not dimensionally consistent' % (i, j))
    # Jacobians
    lever = SArray((3,), {(i,): A.sym('l%d' % i) for i in range(3)})
    pva_r = _pva(ctx, A, extra=repo.const('util.RATE_COLS'))
    jac = [('position_error_jacobian', (1, 0), [pva, lever]),
           ('ned_velocity_error_jacobian', (1, -1), [pva_r, lever]),
           ('body_velocity_error_jacobian', (1, -1), [pva])]
    for name, uo, args in jac:
        m = emc.methods[name]
        try:
            H = ev.call_function(m, args, {}, em)
        except Unsupported as e:
            raise AnalysisError('%s not analysable: %s' % (name, e))
        for i in range(H.shape[0]):
            for j in range(9):
                uj = STATE_UNITS[idx[j]]
                ok = _homog(A, H.get((i, j)), smap, uo[0] - uj[0], uo[1] - uj[1])
                n += 1
                ctx.ob('EM-UNITS', ok, None, '%s[%d, %s%d] unit' % (name, i, idx[j], j), f=m,
                       key='%s-%d-%d' % (name, i, j),
                       why='%s[%d, %d] is not dimensionally consistent' % (name, i, j))
    ctx.floor('EM-UNITS', n, 250, 'matrix entries')


def em_gravgrad(ctx):
    ctx.rule('EM-GRAVGRAD', 'vertical-channel coupling F[DV3, DR3] == - d gravity / d alt of '
             'earth.gravity (down displacement = -altitude change)')
    h = _HC()
    ev, emc, em, pva, (F, Bg, Ba) = _sysmat(ctx, True, h, Alg())
    A = ev.A
    repo = ctx.repo
    g = ev.call_function(repo.function('earth.gravity'), [pva.cols['lat'], pva.cols['alt']])
    dg = A.neg(A.diff(g, 'alt'))
    i = repo.const('error_model.InsErrorModel.DV3')
    j = repo.const('error_model.InsErrorModel.DR3')
    ctx.ob('EM-GRAVGRAD', A.eq(F.get((i, j)), dg), None, 'F[DV3, DR3] == -d gravity/d alt',
           f=emc.methods['system_matrices'], key='gravgrad',
           why='the vertical velocity/position coupling of the error model is not the vertical '
               'gradient of earth.gravity')


def em_frame(ctx):
    ctx.rule('EM-FRAME', 'sensor coupling matrices are covariant under a change of body axes: '
             'B(C Q) == B(C) Q; F does not depend on attitude')
    h = _HC()
    ev, emc, em, pva, (F, Bg, Ba) = _sysmat(ctx, True, h, Alg())
    A = ev.A
    f = emc.methods['system_matrices']
    Q = SArray((3, 3), {(a, b): A.sym('Q%d%d' % (a, b)) for a in range(3) for b in range(3)})
    CQ = ev.matmul(h.C, Q)
    mp = {'C%d%d' % (a, b): CQ.get((a, b)) for a in range(3) for b in range(3)}
    for name, B in (('B_gyro', Bg), ('B_accel', Ba)):
        want = ev.matmul(B, Q)
        ok = all(A.eq(A.subst(B.get(i), mp), want.get(i)) for i in B.indices())
        ctx.ob('EM-FRAME', ok, None, '%s(C Q) == %s(C) Q' % (name, name), f=f,
               key='cov-' + name,
               why='%s does not map body-frame sensor errors through the attitude matrix on the '
                   'right (frame order of a product is wrong)' % name)
    dep = [i for i in F.indices() if any(a.startswith('C') and len(a) == 3
                                         for a in A.atoms_of(F.get(i)))]
    ctx.ob('EM-FRAME', not dep, None, 'F does not depend on attitude', f=f, key='F-att',
           why='error dynamics matrix depends on attitude at entries %s' % dep[:4])


class _DtPoly:
    """polynomial in the (commuting, scalar) step dt with non-commutative matrix coefficients"""

    def __init__(self, A, terms=None):
        self.A = A
        self.t = {k: v for k, v in (terms or {}).items() if v.t}

    def add(self, o, sign=1):
        t = dict(self.t)
        for k, v in o.t.items():
            t[k] = self.A.add(t[k], v, sign) if k in t else (v if sign == 1 else self.A.neg(v))
        return _DtPoly(self.A, t)

    def mul(self, o):
        t = {}
        for k1, v1 in self.t.items():
            for k2, v2 in o.t.items():
                p = self.A.mul(v1, v2)
                t[k1 + k2] = self.A.add(t[k1 + k2], p) if k1 + k2 in t else p
        return _DtPoly(self.A, t)

    def scale(self, c):
        return _DtPoly(self.A, {k: self.A.scale(v, c) for k, v in self.t.items()})

    def rename(self, f):
        from .kal import NC
        out = {}
        for k, v in self.t.items():
            tt = {}
            for m, c in v.t.items():
                mm = tuple((f(a), tr) for a, tr in m)
                tt[mm] = tt.get(mm, 0) + c
            out[k] = NC(tt)
        return _DtPoly(self.A, out)


class _PropEval:
    """Evaluate propagate_errors in the domain: per-sample matrices / vectors with a `current`
    and a `next` version (X[:-1] / X[1:]), non-commutative products, scalar step dt."""

    def __init__(self, ctx, f):
        from .kal import NCAlg
        self.ctx, self.f = ctx, f
        self.A = NCAlg()
        self.env = {}
        self.res = lambda n: f.module.resolve(n, f.local_names())
        self.em = None           # local holding the InsErrorModel
        self.stores = []         # (target text, value, node) for loop stores x[i + 1] = ...
        self.state = None        # name of the state array
        self.loopvar = None
        self.roles = {}

    def P(self, nc, deg=0):
        return _DtPoly(self.A, {deg: nc})

    def atom(self, name):
        return self.P(self.A.atom(name))

    def const(self, node):
        try:
            v = self.ctx.repo.fold(node, self.f.module)
        except ValueError:
            return None
        return v if isinstance(v, (int, float)) and not isinstance(v, bool) else None

    def nextv(self, v):
        return v.rename(lambda a: a if a.endswith('+') or a in ('I',) else a + '+')

    def ev(self, e):
        A = self.A
        c = self.const(e)
        if c is not None:
            return ('const', Fraction(repr(c)))
        if isinstance(e, ast.Name):
            if e.id in self.env:
                return self.env[e.id]
            raise AnalysisError('propagate_errors: `%s` not understood' % e.id)
        if isinstance(e, ast.BinOp):
            if isinstance(e.op, ast.MatMult):
                return self.val(e.left).mul(self.val(e.right))
            a, b = self.ev(e.left), self.ev(e.right)
            if isinstance(e.op, (ast.Add, ast.Sub)):
                if isinstance(a, tuple) or isinstance(b, tuple):
                    raise AnalysisError('propagate_errors: constant added to a matrix')
                return a.add(b, 1 if isinstance(e.op, ast.Add) else -1)
            if isinstance(e.op, ast.Mult):
                if isinstance(a, tuple) and isinstance(b, tuple):
                    return ('const', a[1] * b[1])
                if isinstance(a, tuple):
                    return b.scale(a[1])
                if isinstance(b, tuple):
                    return a.scale(b[1])
                # element-wise product with the scalar step (dt, dt.reshape(-1, 1, 1), dt[i])
                for x, y in ((a, b), (b, a)):
                    c_ = self.step_coef(y)
                    if c_ is not None:
                        return _DtPoly(A, {k + 1: A.scale(v, c_) for k, v in x.t.items()})
                raise AnalysisError('propagate_errors: element-wise product `%s`'
                                    % norm_text(e)[:60])
            if isinstance(e.op, ast.Div) and isinstance(b, tuple) and not isinstance(a, tuple):
                return a.scale(1 / b[1])
            if isinstance(e.op, ast.Div) and not isinstance(a, tuple) and \
                    not isinstance(b, tuple) and self.step_coef(b):
                # division by the step: a Laurent term (degree -1 if a has a dt^0 part); the
                # consistency obligations then find a pole / a wrong order, as they should
                c_ = self.step_coef(b)
                return _DtPoly(A, {k - 1: A.scale(v, 1 / c_) for k, v in a.t.items()})
            raise AnalysisError('propagate_errors: operator in `%s`' % norm_text(e)[:60])
        if isinstance(e, ast.UnaryOp) and isinstance(e.op, ast.USub):
            return self.val(e.operand).scale(Fraction(-1))
        if isinstance(e, ast.Attribute) and e.attr in ('values', 'T'):
            v = self.val(e.value)
            if e.attr == 'T':
                return _DtPoly(A, {k: A.T(x) for k, x in v.t.items()})
            return v
        if isinstance(e, ast.Subscript):
            base = self.ev(e.value)
            sl = e.slice
            if isinstance(sl, ast.Slice):
                lo = norm_text(sl.lower) if sl.lower else None
                hi = norm_text(sl.upper) if sl.upper else None
                if (lo, hi) == ('1', None):
                    return self.nextv(base)
                if (lo, hi) == (None, '-1'):
                    return base
                if (lo, hi) == (None, None):
                    return base
                raise AnalysisError('propagate_errors: slice `%s`' % norm_text(e))
            if self.loopvar and norm_text(sl) == self.loopvar:
                return base
            if self.loopvar and norm_text(sl) in ('%s + 1' % self.loopvar, '1 + %s' % self.loopvar):
                return self.nextv(base)
            try:
                labels = self.ctx.repo.fold(sl, self.f.module)
            except ValueError:
                labels = None
            if isinstance(labels, (list, tuple)) and \
                    list(labels) == list(self.ctx.repo.const('util.TRAJECTORY_ERROR_COLS')):
                # the whole error vector, selected by its documented labels in their order
                return base
            raise AnalysisError('propagate_errors: index `%s`' % norm_text(e))
        if isinstance(e, ast.Call):
            q = self.res(e.func) or ''
            fn = e.func
            if q in ('numpy.identity', 'numpy.eye'):
                return self.P(A.ident())
            if q == 'pyins.util.mv_prod' and len(e.args) == 2 and not e.keywords:
                return self.val(e.args[0]).mul(self.val(e.args[1]))
            if q in ('numpy.dot', 'numpy.matmul') and len(e.args) == 2:
                return self.val(e.args[0]).mul(self.val(e.args[1]))
            if q in ('numpy.asarray', 'numpy.array') and e.args:
                return self.ev(e.args[0])
            if isinstance(fn, ast.Attribute) and fn.attr == 'dot' and len(e.args) == 1:
                return self.val(fn.value).mul(self.val(e.args[0]))
            if isinstance(fn, ast.Attribute) and fn.attr in ('reshape', 'copy', 'astype'):
                return self.ev(fn.value)
            raise AnalysisError('propagate_errors: call `%s`' % norm_text(e)[:60])
        raise AnalysisError('propagate_errors: expression `%s`' % norm_text(e)[:60])

    def val(self, e):
        v = self.ev(e)
        if isinstance(v, tuple):
            raise AnalysisError('propagate_errors: matrix expected in `%s`' % norm_text(e)[:50])
        return v

    def is_step(self, v):
        return self.step_coef(v) == 1

    def step_coef(self, v):
        """c if v is c * dt (a scalar multiple of the step), else None"""
        if isinstance(v, _DtPoly) and set(v.t) == {1} and set(v.t[1].t) == {()}:
            return Fraction(v.t[1].t[()])
        return None


def _single_step_of_index(E, v, traj):
    """`T.index[a] - T.index[b]` (constants a, b), `np.diff(T.index)[k]`, or a mean / median /
    min / max of np.diff(T.index): a single number standing for every gap of the time index"""
    idx = '%s.index' % traj

    def is_idx_elem(e):
        return isinstance(e, ast.Subscript) and norm_text(e.value) in (idx, idx + '.values') and \
            norm_text(e.slice).lstrip('-').isdigit()

    def is_diff(e):
        return isinstance(e, ast.Call) and E.res(e.func) == 'numpy.diff' and e.args and \
            norm_text(e.args[0]) in (idx, idx + '.values')
    if isinstance(v, ast.BinOp) and isinstance(v.op, ast.Sub) and is_idx_elem(v.left) and \
            is_idx_elem(v.right):
        return True
    if isinstance(v, ast.Subscript) and is_diff(v.value) and \
            norm_text(v.slice).lstrip('-').isdigit():
        return True
    if isinstance(v, ast.Call) and v.args and is_diff(v.args[0]) and \
            (E.res(v.func) or '') in ('numpy.mean', 'numpy.median', 'numpy.min', 'numpy.max',
                                       'numpy.amin', 'numpy.amax', 'builtins.min', 'builtins.max'):
        return True
    if isinstance(v, ast.Call) and isinstance(v.func, ast.Attribute) and \
            v.func.attr in ('mean', 'min', 'max') and is_diff(v.func.value):
        return True
    return False


def prop_consist(ctx):
    ctx.rule('PROP-CONSIST', 'propagate_errors: the one-step map x[i+1] = Phi x[i] + u is consistent '
             'with x\' = F x + B_gyro e_g + B_accel e_a (coefficient of dt^0 is x, of dt^1 is the '
             'right-hand side when consecutive samples coincide); x[0] = T_internal(first row) @ '
             'initial error; output = T_output(trajectory) x')
    f = ctx.repo.function('error_model.propagate_errors')
    E = _PropEval(ctx, f)
    A = E.A
    traj = f.params[0]
    errs = {}
    doc = f.doc_kinds()['params'] if hasattr(f, 'doc_kinds') else {}
    gy = [p_ for p_ in f.params if 'gyro' in p_]
    ac = [p_ for p_ in f.params if 'accel' in p_]
    ctx.need(len(gy) == 1 and len(ac) == 1, 'propagate_errors: gyro/accel error parameters')
    E.env[gy[0]] = E.atom('eg')
    E.env[ac[0]] = E.atom('ea')
    init_param = [p_ for p_ in f.params[1:] if p_ not in (gy[0], ac[0]) and 'altitude' not in p_]
    ctx.need(len(init_param) == 1, 'propagate_errors: initial-error parameter')
    E.env[init_param[0]] = E.atom('e0')
    x0 = None
    x0_row = None
    out_T = None
    out_val = None
    body = list(f.node.body)
    for st in body:
        if isinstance(st, ast.Expr) and isinstance(st.value, ast.Constant):
            continue
        if isinstance(st, ast.If):
            # default for a missing initial error: zeros - does not change the roles
            if any(isinstance(n, ast.Return) for n in ast.walk(st)):
                raise AnalysisError('propagate_errors: conditional return `%s`'
                                    % norm_text(st.test)[:60])
            continue
        if isinstance(st, ast.Return):
            continue
        if isinstance(st, ast.For):
            ctx.need(isinstance(st.target, ast.Name), 'propagate_errors: loop target')
            E.loopvar = st.target.id
            for s2 in st.body:
                if isinstance(s2, ast.Assign) and isinstance(s2.targets[0], ast.Subscript) and \
                        isinstance(s2.targets[0].value, ast.Name):
                    nm = s2.targets[0].value.id
                    idx = norm_text(s2.targets[0].slice)
                    E.env[nm] = E.atom('x')
                    E.stores.append((nm, idx, E.val(s2.value), s2))
                else:
                    raise AnalysisError('propagate_errors: loop statement `%s`'
                                        % norm_text(s2)[:60])
            E.loopvar = None
            continue
        if isinstance(st, ast.AugAssign) and isinstance(st.op, ast.Add):
            t = st.target
            nm = t.value.id if isinstance(t, ast.Subscript) and isinstance(t.value, ast.Name) \
                else (t.id if isinstance(t, ast.Name) else None)
            if nm in E.env:
                if isinstance(t, ast.Subscript):
                    # `X[:] += c` / `X[...] += c` update every interval; `X[0] += c` one of them
                    whole = norm_text(t.slice) in (':', '...', 'Ellipsis', '::', ':, :, :',
                                                   ':, ...', '..., :, :')
                    if not whole:
                        ctx.need(norm_text(t.slice).lstrip('-').isdigit() or
                                 isinstance(t.slice, ast.Slice),
                                 'propagate_errors: update `%s` not read' % norm_text(st)[:60])
                        ctx.ob('PROP-CONSIST', False, None, 'the update applies to every '
                               'interval', f=f, node=st, key='update-all-rows',
                               why='`%s` changes the per-interval matrices of some intervals only: '
                                   'the one-step map of the other intervals lacks the term'
                                   % norm_text(st)[:70])
                E.env[nm] = E.env[nm].add(E.val(st.value))
                continue
            raise AnalysisError('propagate_errors: update `%s`' % norm_text(st)[:60])
        if isinstance(st, ast.Assign) and len(st.targets) == 1:
            t, v = st.targets[0], st.value
            # error_model = InsErrorModel(...)
            if isinstance(t, ast.Name) and isinstance(v, ast.Call) and \
                    (E.res(v.func) or '').endswith('InsErrorModel'):
                E.em = t.id
                continue
            if isinstance(v, ast.Call) and isinstance(v.func, ast.Attribute) and \
                    isinstance(v.func.value, ast.Name) and v.func.value.id == E.em:
                m = v.func.attr
                arg = norm_text(v.args[0]) if v.args else ''
                if m == 'system_matrices' and isinstance(t, ast.Tuple) and len(t.elts) == 3:
                    ctx.ob('PROP-CONSIST', arg == traj, None, 'system matrices of the trajectory',
                           f=f, node=st, key='sysmat-arg',
                           why='system_matrices is evaluated on `%s`, not on the trajectory' % arg)
                    for el, nm in zip(t.elts, ('F', 'Bg', 'Ba')):
                        E.env[el.id] = E.atom(nm)
                    continue
                if m in ('transform_to_output', 'transform_to_internal') and \
                        isinstance(t, ast.Name):
                    E.env[t.id] = E.atom('%s(%s)' % (m, arg))
                    continue
            if isinstance(t, ast.Name) and isinstance(v, ast.Call) and \
                    E.res(v.func) == 'numpy.diff' and v.args and \
                    norm_text(v.args[0]) == '%s.index' % traj:
                E.env[t.id] = E.P(A.ident(), 1)
                continue
            if isinstance(t, ast.Name) and _single_step_of_index(E, v, traj):
                # one number for all intervals: the first gap, or a mean / median / extreme of the
                # gaps.  The recursion then propagates every interval over that length, which is
                # the interval between the propagated rows only on a uniform grid (round-9 seed
                # C04-propagation-first-interval-only)
                ctx.ob('PROP-CONSIST', False, None, 'each interval is propagated over its own '
                       'length', f=f, node=st, key='step-per-interval',
                       why='`%s` is one step length for the whole table: every interval [t_i, '
                           't_i+1] is propagated over it instead of over t_i+1 - t_i, so on a '
                           'non-uniform time index the propagated errors are those of another '
                           'time grid' % norm_text(st)[:80])
                E.env[t.id] = E.P(A.ident(), 1)
                continue
            if isinstance(t, ast.Name) and isinstance(v, ast.Call) and \
                    E.res(v.func) in ('numpy.empty', 'numpy.zeros'):
                E.env[t.id] = E.atom('x')
                E.state = t.id
                continue
            if isinstance(t, ast.Name) and isinstance(v, (ast.Attribute, ast.Subscript)) and \
                    'shape' in norm_text(v):
                continue
            if isinstance(t, ast.Name) and _is_count(v, {}):
                continue            # a row count (checked by the loop-range obligations)
            if isinstance(t, ast.Subscript) and isinstance(t.value, ast.Name) and \
                    t.value.id == E.state and norm_text(t.slice) == '0':
                x0 = (E.val(v), st)
                continue
            if isinstance(t, ast.Subscript) and isinstance(t.value, ast.Name) and \
                    t.value.id == E.state and isinstance(t.slice, ast.Constant) and \
                    isinstance(t.slice.value, int) and t.slice.value != 0:
                # the initial error stored into another row than the first: row 0 stays
                # uninitialised and the recursion starts from it (obligation `x0` below)
                x0_row = (t.slice.value, st)
                continue
            if isinstance(t, ast.Name) and isinstance(v, ast.Call) and \
                    (E.res(v.func) or '').startswith('pandas.'):
                # result tables: data=...
                for kw in v.keywords:
                    if kw.arg == 'data' and not isinstance(kw.value, ast.Name):
                        out_val = (E.val(kw.value), st)
                if E.res(v.func) == 'pandas.DataFrame':
                    kws = {kw.arg: kw.value for kw in v.keywords}
                    has_data = 'data' in kws or len(v.args) >= 1
                    idx_ = kws.get('index', v.args[1] if len(v.args) > 1 else None)
                    ctx.ob('PROP-CONSIST', has_data and idx_ is not None and
                           norm_text(idx_) == '%s.index' % traj, None,
                           'result table `%s` holds the propagated values, stamped with the '
                           'trajectory times' % t.id, f=f, node=st, key='table-' + t.id,
                           why='the result table `%s` is built %s: it does not report the '
                               'propagated errors at the times of the trajectory' % (
                                   t.id, 'without data (all NaN)' if not has_data else
                                   'with index `%s`' % (norm_text(idx_) if idx_ is not None
                                                        else 'RangeIndex')))
                continue
            if isinstance(t, ast.Name):
                # x0 = T(...) @ e0  contains a call on the error model: evaluate generally
                E.env[t.id] = E.val(_inline_em_calls(E, v))
                continue
        if isinstance(st, (ast.Assert, ast.Pass)):
            continue
        raise AnalysisError('propagate_errors: statement `%s`' % norm_text(st)[:60])
    ctx.need(E.stores, 'propagate_errors: recursion store not found')
    nm, idx, val, node = E.stores[-1]
    ctx.ob('PROP-CONSIST', E.loopvar is None and idx.replace(' ', '') in
           ('%s+1' % node_loopvar(f), '1+%s' % node_loopvar(f)), None,
           'the recursion writes row i + 1', f=f, node=node, key='row',
           why='the recursion stores into row `%s`' % idx)
    # documented defaults: no sensor errors, zero initial error
    def zero_array(expr, length, scalar_ok=False):
        ev0 = SymEval(ctx.repo)
        ev0.cur, ev0.depth = f, 1
        try:
            v = ev0.eval(expr, {})
        except Unsupported:
            return None
        if isinstance(v, Rec):
            v = list(v.cols.values()) if hasattr(v, 'cols') else None
        if isinstance(v, SArray):
            v = [v.get(i) for i in v.indices()] if v.shape == (length,) else None
        if scalar_ok and isinstance(v, (Rat, int, float)) and not isinstance(v, bool):
            return ev0.A.is_zero(ev0.rat(v))        # a scalar broadcast over the given index
        if isinstance(v, tuple):
            v = list(v)
        if not isinstance(v, list) or len(v) != length:
            return False
        return all(isinstance(x, (Rat, int, float)) and ev0.A.is_zero(ev0.rat(x)) for x in v)
    for p_ in (gy[0], ac[0]):
        dflt = f.defaults.get(p_)
        if dflt is not None:
            z = zero_array(dflt, 3)
            ctx.need(z is not None, 'propagate_errors: default of %s not analysable' % p_)
            ctx.ob('PROP-CONSIST', z, None, 'default %s is the zero 3-vector' % p_, f=f, node=dflt,
                   key='default-' + p_,
                   why='the default of `%s` is `%s`, not three zeros: a call that does not pass '
                       'sensor errors propagates a spurious one' % (p_, norm_text(dflt)))
    for st in body:
        if isinstance(st, ast.If) and isinstance(st.test, ast.Compare) and \
                isinstance(st.test.left, ast.Name) and st.test.left.id == init_param[0] and \
                isinstance(st.test.ops[0], (ast.Is, ast.IsNot)):
            # polarity: the default is installed when NO initial error was given
            is_none = isinstance(st.test.ops[0], ast.Is) and \
                isinstance(st.test.comparators[0], ast.Constant) and \
                st.test.comparators[0].value is None
            ctx.ob('PROP-CONSIST', is_none, None, 'the zero initial error is installed under '
                   '`%s is None`' % init_param[0], f=f, node=st, key='default-polarity',
                   why='the default initial error is assigned under `%s`: a supplied initial '
                       'error is replaced by zeros (and the documented default None is used as '
                       'it is)' % norm_text(st.test))
            for s2 in st.body:
                if isinstance(s2, ast.Assign) and isinstance(s2.targets[0], ast.Name) and \
                        s2.targets[0].id == init_param[0]:
                    v = s2.value
                    data = v
                    if isinstance(v, ast.Call) and (E.res(v.func) or '') == 'pandas.Series':
                        # the default is consumed by label, like a caller's PvaError
                        lab = next((k.value for k in v.keywords if k.arg == 'index'),
                                   v.args[1] if len(v.args) > 1 else None)
                        try:
                            labs = ctx.repo.fold(lab, f.module) if lab is not None else None
                        except ValueError:
                            labs = 'unfolded'
                        if labs != 'unfolded':
                            want_l = ctx.repo.const('util.TRAJECTORY_ERROR_COLS')
                            ctx.ob('PROP-CONSIST', labs is not None and list(labs) == list(want_l),
                                   None, 'the default initial error carries the PvaError labels',
                                   f=f, node=s2, key='default-labels',
                                   why='the default initial error is a Series with labels %s; it is '
                                       'then selected by the PvaError labels like a caller\'s: '
                                       'KeyError (or values under other names) on the documented '
                                       'default path' % (labs if labs is None else list(labs)[:4]))
                    if isinstance(v, ast.Call) and (E.res(v.func) or '').startswith('pandas.'):
                        data = next((k.value for k in v.keywords if k.arg == 'data'),
                                    v.args[0] if v.args else None)
                    z = zero_array(data, 9, data is not v) if data is not None else None
                    ctx.need(z is not None, 'propagate_errors: default initial error not '
                             'analysable')
                    ctx.ob('PROP-CONSIST', z, None, 'default initial error is zero (9 components)',
                           f=f, node=s2, key='default-e0',
                           why='without an initial error the propagation starts from `%s`, not '
                               'from nine zeros' % norm_text(data))
    # the loop visits every interval once: range(N - 1) with the state allocated with N rows
    loops = [st for st in body if isinstance(st, ast.For)]
    ctx.need(len(loops) == 1, 'propagate_errors: %d loops' % len(loops))
    lp = loops[0]
    defs = {}
    for st in body:
        if st is lp:
            break
        if isinstance(st, ast.Assign) and len(st.targets) == 1:
            t = st.targets[0]
            if isinstance(t, ast.Name):
                defs[t.id] = st.value
            elif isinstance(t, ast.Tuple) and all(isinstance(x, ast.Name) for x in t.elts):
                for x in t.elts:
                    defs[x.id] = st.value        # Fi, Fig, Fia = system_matrices(trajectory)
    it = lp.iter
    rng = None
    if isinstance(it, ast.Call) and norm_text(it.func) == 'range' and len(it.args) == 1 and \
            not it.keywords:
        rng = _rows(it.args[0], defs, traj, E.em, E.res)
    ctx.need(rng is not None, 'propagate_errors: loop bound `%s` not analysable as a row count'
             % norm_text(it)[:60])
    ctx.ob('PROP-CONSIST', rng == (1, -1), None,
           'the recursion runs over range(N - 1), N = rows of the trajectory', f=f, node=lp,
           key='loop-range',
           why='the recursion runs over `%s` = %s intervals, but a trajectory of N rows has N - 1: '
               '%s' % (norm_text(it), _cnt_text(rng),
                       'the last rows of the result are never computed (left uninitialised)'
                       if isinstance(rng[1], str) or rng[0] < 1 or rng[1] < -1
                       else 'it indexes past the last row'))
    srows = _rows(ast.Name(E.state, ast.Load()), defs, traj, E.em, E.res) if E.state else None
    ctx.need(srows is not None, 'propagate_errors: number of rows of the state array not '
             'analysable')
    ctx.ob('PROP-CONSIST', srows == (1, 0), None, 'the state array has one row per trajectory row',
           f=f, node=lp, key='state-rows',
           why='the propagated state is allocated with %s rows for a trajectory of N rows'
               % _cnt_text(srows))
    col = val.rename(lambda a: a[:-1] if a.endswith('+') else a)
    at = A.atom
    x = at('x')
    ok0 = A.eq(col.t.get(0, A.sub(x, x)), x)
    ctx.ob('PROP-CONSIST', ok0, None, 'dt^0 coefficient of x[i+1] is x[i]', f=f, node=node,
           key='order0', why='for a vanishing step the propagated error is not the previous one '
                             '(identity missing or doubled in the transition matrix)')
    rhs = A.add(A.add(A.mul(at('F'), x), A.mul(at('Bg'), at('eg'))), A.mul(at('Ba'), at('ea')))
    ok1 = 1 in col.t and A.eq(col.t[1], rhs)
    ctx.ob('PROP-CONSIST', ok1, None, "dt^1 coefficient of x[i+1] is F x + B_gyro e_g + B_accel e_a",
           f=f, node=node, key='order1',
           why="the one-step map is not consistent with x' = F x + B_gyro e_gyro + B_accel e_accel: "
               'its first-order part is %s' % (col.t[1].key()[:160] if 1 in col.t else '0'))
    want0 = A.mul(at('transform_to_internal(%s.iloc[0])' % traj), at('e0'))
    ctx.ob('PROP-CONSIST', x0 is not None and set(x0[0].t) == {0} and A.eq(x0[0].t[0], want0), None,
           'x[0] = transform_to_internal(first row) @ initial output error', f=f,
           node=(x0[1] if x0 else x0_row[1] if x0_row else f.node), key='x0',
           why=('the initial internal error is stored into row %d of the state history: row 0, '
                'from which the recursion starts, is never initialised' % x0_row[0])
           if x0 is None and x0_row else
           'initial internal error is not transform_to_internal(%s.iloc[0]) @ %s'
           % (traj, init_param[0]))
    wantT = A.mul(at('transform_to_output(%s)' % traj), x)
    ctx.ob('PROP-CONSIST', out_val is not None and set(out_val[0].t) == {0} and
           A.eq(out_val[0].t[0], wantT), None,
           'trajectory error = transform_to_output(trajectory) x', f=f,
           node=(out_val[1] if out_val else f.node), key='output',
           why='returned trajectory error is not transform_to_output(%s) applied to the '
               'propagated state' % traj)


def _rows(e, defs, traj, em, res, depth=0):
    """Leading-axis length of an expression as (a, b) meaning a * N + b, N = rows of the
    trajectory; None when not determined.  For a scalar count expression (`n`, `n - 1`,
    `X.shape[0]`, `len(X)`) the same pair is its value."""
    if depth > 12:
        return None
    r = lambda x: _rows(x, defs, traj, em, res, depth + 1)
    if isinstance(e, ast.Constant) and isinstance(e.value, int) and not isinstance(e.value, bool):
        return (0, e.value)
    if isinstance(e, ast.Name):
        if e.id == traj:
            return (1, 0)
        if e.id in defs:
            return r(defs[e.id])
        return None
    if isinstance(e, ast.Attribute):
        if e.attr in ('index', 'values', 'T') and e.attr != 'T':
            return r(e.value)
        return None
    if isinstance(e, ast.Subscript):
        # X.shape[0]
        if isinstance(e.value, ast.Attribute) and e.value.attr == 'shape':
            if isinstance(e.slice, ast.Constant) and e.slice.value == 0:
                return r(e.value.value)
            return (0, 'the length of another axis') if r(e.value.value) is not None else None
        if isinstance(e.value, ast.Attribute) and e.value.attr in ('loc', 'iloc'):
            return None
        base = r(e.value)
        sl = e.slice.elts[0] if isinstance(e.slice, ast.Tuple) and e.slice.elts else e.slice
        if base is None or not isinstance(sl, ast.Slice) or sl.step is not None:
            return None if not (isinstance(sl, ast.Slice) and base is not None) else None
        lo = 0 if sl.lower is None else (sl.lower.value if isinstance(sl.lower, ast.Constant)
                                         else None)
        if sl.upper is None:
            hi = 0
        elif isinstance(sl.upper, ast.UnaryOp) and isinstance(sl.upper.op, ast.USub) and \
                isinstance(sl.upper.operand, ast.Constant):
            hi = sl.upper.operand.value
        else:
            return None
        if not isinstance(lo, int) or lo < 0:
            return None
        return (base[0], base[1] - lo - hi)
    if isinstance(e, ast.BinOp):
        a, b = r(e.left), r(e.right)
        if isinstance(e.op, (ast.Add, ast.Sub)) and a is not None and b is not None and \
                (a[0] == 0 or b[0] == 0) and (_is_count(e.left, defs) or _is_count(e.right, defs)):
            sg = 1 if isinstance(e.op, ast.Add) else -1
            if isinstance(a[1], str) or isinstance(b[1], str):
                return (0, 'the length of another axis')
            return (a[0] + sg * b[0], a[1] + sg * b[1])
        # element-wise arithmetic of arrays: the (broadcast) leading length of the operands
        c = [x for x in (a, b) if x is not None and x[0] != 0]
        if c and all(x == c[0] for x in c):
            return c[0]
        return None
    if isinstance(e, ast.Call):
        q = res(e.func) or ''
        if q == 'builtins.len' or norm_text(e.func) == 'len':
            return r(e.args[0]) if e.args else None
        if q == 'numpy.diff' and e.args:
            a = r(e.args[0])
            return None if a is None else (a[0], a[1] - 1)
        if q in ('numpy.asarray', 'numpy.array', 'numpy.abs') and e.args:
            return r(e.args[0])
        if q in ('numpy.empty', 'numpy.zeros', 'numpy.ones') and e.args:
            sh = e.args[0]
            return r(sh.elts[0]) if isinstance(sh, ast.Tuple) and sh.elts else r(sh)
        if q.endswith('util.mv_prod') or q.endswith('util.mm_prod'):
            c = [x for x in map(r, e.args[:2]) if x is not None and x[0] != 0]
            return c[0] if c and all(x == c[0] for x in c) else None
        if isinstance(e.func, ast.Attribute):
            if isinstance(e.func.value, ast.Name) and e.func.value.id == em and e.args and \
                    e.func.attr in ('system_matrices', 'transform_to_output'):
                return r(e.args[0])
            if e.func.attr == 'reshape' and e.args and isinstance(e.args[0], ast.UnaryOp) and \
                    isinstance(e.args[0].operand, ast.Constant) and e.args[0].operand.value == 1:
                return r(e.func.value)
            if e.func.attr in ('copy', 'dot') and e.func.attr == 'copy':
                return r(e.func.value)
        return None
    return None


def _is_count(e, defs, depth=0):
    """syntactically a scalar count: a constant, len(...), X.shape[k] or a name bound to one"""
    if depth > 8:
        return False
    if isinstance(e, ast.Constant):
        return isinstance(e.value, int)
    if isinstance(e, ast.Call):
        return norm_text(e.func) == 'len'
    if isinstance(e, ast.Subscript):
        return isinstance(e.value, ast.Attribute) and e.value.attr == 'shape'
    if isinstance(e, ast.BinOp):
        return _is_count(e.left, defs, depth + 1) and _is_count(e.right, defs, depth + 1)
    if isinstance(e, ast.Name) and e.id in defs:
        return _is_count(defs[e.id], defs, depth + 1)
    return False


def _cnt_text(c):
    a, b = c
    if isinstance(b, str):
        return b
    return ('%sN%s' % ('' if a == 1 else a, (' %+d' % b) if b else '')) if a else str(b)


def node_loopvar(f):
    for n in ast.walk(f.node):
        if isinstance(n, ast.For) and isinstance(n.target, ast.Name):
            return n.target.id
    return ''


def _inline_em_calls(E, v):
    """replace calls on the error-model object inside an expression by atoms"""
    class T(ast.NodeTransformer):
        def visit_Call(self, n):
            self.generic_visit(n)
            if isinstance(n.func, ast.Attribute) and isinstance(n.func.value, ast.Name) and \
                    n.func.value.id == E.em and \
                    n.func.attr in ('transform_to_output', 'transform_to_internal'):
                nm = '__em_%d' % len(E.env)
                E.env[nm] = E.atom('%s(%s)' % (n.func.attr, norm_text(n.args[0]) if n.args else ''))
                return ast.copy_location(ast.Name(nm, ast.Load()), n)
            return n
    import copy
    return T().visit(copy.deepcopy(v))


def em_linear(ctx):
    """The error model is compared with the symbolic linearisation of the navigation equations.

    Navigation equations (the same ones KER-CONSIST ties the integrator to and SIM-KIN the
    synthesiser), assembled from earth.*:
        lat' = R2D VN / rn,  lon' = R2D VE / rp,  alt' = -VD
        V'   = C f - (2 W + rho) x V + g_n,        rho = curvature_matrix @ V
        C'   = C [w x] - [(W + rho) x] C
    Error coordinates = the library's own correction convention (ES-FIRST decides that
    correct_pva implements exactly this to first order):
        x_DR = metric * d(lla),   dC = -[phi x] C,   x_DV = dV + phi x V.
    The time derivative of x along a perturbed solution is linear in (x, dw, df); its
    coefficient matrices are the exact linearisation F*, Bg*, Ba*.
    """
    ctx.rule('EM-LINEAR', 'F, B_gyro, B_accel equal the symbolic linearisation of the navigation '
             'equations in the library\'s error coordinates: exactly for a stationary vehicle '
             '(all 81 + 54 entries at V = 0, every latitude, altitude and attitude), and exactly '
             'in every entry that the model makes velocity-dependent; what remains (neglected) is '
             'proportional to velocity times Earth rate or curvature, plus the latitude gradient '
             'of normal gravity')
    repo = ctx.repo
    h = _HC()
    ev, emc, em, pva, (F, Bg, Ba) = _sysmat(ctx, True, h, Alg())
    A = ev.A
    C = h.C
    fm = emc.methods['system_matrices']
    vec = lambda xs: SArray((3,), {(i,): x for i, x in enumerate(xs)})
    lat, alt = A.sym('lat'), A.sym('alt')
    V = vec([A.sym('VN'), A.sym('VE'), A.sym('VD')])
    f = vec([A.sym('f%d' % i) for i in range(3)])
    w = vec([A.sym('w%d' % i) for i in range(3)])
    ev2 = SymEval(repo, A)
    try:
        rn, re, rp = ev2.call_function(repo.function('earth.principal_radii'), [lat, alt])
        Om = ev2.call_function(repo.function('earth.rate_n'), [lat])
        Rm = ev2.call_function(repo.function('earth.curvature_matrix'), [lat, alt])
        gn = ev2.call_function(repo.function('earth.gravity_n'), [lat, alt])
        sk = lambda v: ev2.call_function(repo.function('util.skew_matrix'), [v])
    except Unsupported as e:
        raise AnalysisError('earth functions not analysable: %s' % e)
    d2r, r2d = A.sym(A.D2R), A.sym(A.R2D)
    add, sub, neg = (lambda a, b: ev2.emap(A.add, a, b)), (lambda a, b: ev2.emap(A.sub, a, b)), \
        (lambda a: ev2.emap(A.neg, a))
    rho = ev2.matmul(Rm, V)
    win = add(Om, rho)
    latd = A.div(A.mul(r2d, V.get((0,))), rn)
    lond = A.div(A.mul(r2d, V.get((1,))), rp)
    altd = A.neg(V.get((2,)))
    Vd = add(sub(ev2.matmul(C, f), ev2.cross(add(add(Om, Om), rho), V)), gn)
    Cd = sub(ev2.matmul(C, sk(w)), ev2.matmul(sk(win), C))
    x = [A.sym('x%d' % i) for i in range(9)]
    idx = {g: repo.const('error_model.InsErrorModel.' + g) for g in ('DR', 'DV', 'PHI')}
    xDR, xDV, phi = (vec([x[i] for i in idx[g]]) for g in ('DR', 'DV', 'PHI'))
    dlat = A.div(A.mul(r2d, xDR.get((0,))), rn)
    dlon = A.div(A.mul(r2d, xDR.get((1,))), rp)
    dalt = A.neg(xDR.get((2,)))
    dV = sub(xDV, ev2.cross(phi, V))
    dC = neg(ev2.matmul(sk(phi), C))
    dfv = vec([A.sym('df%d' % i) for i in range(3)])
    dwv = vec([A.sym('dw%d' % i) for i in range(3)])

    def delta(e):
        out = A.add(A.mul(A.diff(e, 'lat'), dlat), A.mul(A.diff(e, 'alt'), dalt))
        for k, n in enumerate(['VN', 'VE', 'VD']):
            out = A.add(out, A.mul(A.diff(e, n), dV.get((k,))))
        for a in range(3):
            for b in range(3):
                out = A.add(out, A.mul(A.diff(e, 'C%d%d' % (a, b)), dC.get((a, b))))
        for k in range(3):
            out = A.add(out, A.mul(A.diff(e, 'f%d' % k), dfv.get((k,))))
            out = A.add(out, A.mul(A.diff(e, 'w%d' % k), dwv.get((k,))))
        return out

    def ddt(e):
        out = A.add(A.mul(A.diff(e, 'lat'), latd), A.mul(A.diff(e, 'alt'), altd))
        for k, n in enumerate(['VN', 'VE', 'VD']):
            out = A.add(out, A.mul(A.diff(e, n), Vd.get((k,))))
        for a in range(3):
            for b in range(3):
                out = A.add(out, A.mul(A.diff(e, 'C%d%d' % (a, b)), Cd.get((a, b))))
        return out
    # attitude error kinematics  phi' = -C dw - (W + rho) x phi + d(W + rho)
    dwin = vec([delta(win.get((k,))) for k in range(3)])
    phid = add(sub(neg(ev2.matmul(C, dwv)), ev2.cross(win, phi)), dwin)
    _phi_kinematics(ctx, fm)
    m_lat, m_lon = A.mul(d2r, rn), A.mul(d2r, rp)
    rows = {}
    rows[idx['DR'][0]] = A.add(A.mul(ddt(m_lat), dlat), A.mul(m_lat, delta(latd)))
    rows[idx['DR'][1]] = A.add(A.mul(ddt(m_lon), dlon), A.mul(m_lon, delta(lond)))
    rows[idx['DR'][2]] = A.neg(delta(altd))
    dVd = vec([delta(Vd.get((k,))) for k in range(3)])
    xdv = add(add(dVd, ev2.cross(phid, V)), ev2.cross(phi, Vd))
    for k in range(3):
        rows[idx['DV'][k]] = xdv.get((k,))
        rows[idx['PHI'][k]] = phid.get((k,))
    still = {'VN': A.const(0), 'VE': A.const(0), 'VD': A.const(0)}
    names = {}
    for g in ('DR', 'DV', 'PHI'):
        for k, i in enumerate(idx[g]):
            names[i] = '%s%d' % (g, k + 1)
    vatoms = {'VN', 'VE', 'VD'}
    n = 0
    bad0, bad1 = [], []
    for i in range(9):
        e = rows[i]
        cols = [('F', j, A.coeff(e, 'x%d' % j), F.get((i, j))) for j in range(9)] + \
               [('B_gyro', j, A.coeff(e, 'dw%d' % j), Bg.get((i, j))) for j in range(3)] + \
               [('B_accel', j, A.coeff(e, 'df%d' % j), Ba.get((i, j))) for j in range(3)]
        for mat, j, want, got in cols:
            n += 1
            d = A.sub(want, got)
            cname = names[j] if mat == 'F' else 'xyz'[j]
            if A.is_zero(d):
                ctx.ob('EM-LINEAR', True, None, '%s[%s, %s] == exact linearisation'
                       % (mat, names[i], cname), f=fm, key='%s-%d-%d' % (mat, i, j))
                continue
            d0 = A.subst(d, still)
            ok0 = A.is_zero(d0)
            if not ok0 and mat == 'F' and i in idx['DV'] and j == idx['DR'][0]:
                # the only velocity-independent term the model neglects: the horizontal
                # (latitude) gradient of normal gravity, d g_n / d lat * d lat
                k_ = idx['DV'].index(i)
                hg = A.mul(A.diff(gn.get((k_,)), 'lat'), A.div(r2d, rn))
                ok0 = A.eq(d0, hg)
            dep = any(a in vatoms or (A._nested_atoms(a) & vatoms) for a in A.atoms_of(got))
            # what is neglected must carry an Earth-smallness factor (Earth rate or curvature):
            # with RATE -> 0 and 1/radius -> 0 the remainder has to vanish
            flat = {'earth.RATE': A.const(0)}
            for a_ in A.atoms_of(d):
                if a_.startswith('inv(') and 'earth.A' in a_:
                    flat[a_] = A.const(0)
            big = not A.is_zero(A.subst(d, flat))
            ok = ok0 and not dep and not big
            ctx.ob('EM-LINEAR', ok, None,
                   '%s[%s, %s]: exact at V = 0; the model entry is velocity-independent and the '
                   'neglected remainder is proportional to velocity' % (mat, names[i], cname),
                   f=fm, key='%s-%d-%d' % (mat, i, j),
                   why='%s[%s, %s] of the error model is not the linearisation of the navigation '
                       'equations: %s' % (mat, names[i], cname,
                                          'it is wrong already for a stationary vehicle (V = 0)'
                                          if not ok0 else
                                          ('the velocity-dependent coupling it models differs '
                                           'from the exact one' if dep else
                                           'it omits a velocity coupling that is not small (no '
                                           'Earth-rate or curvature factor)')))
    ctx.floor('EM-LINEAR', n, 135, 'matrix entries')


def _phi_kinematics(ctx, fm):
    """PHI-KIN: the attitude-error kinematics used above,
    phi' = -C dw - (W + rho) x phi + d(W + rho), is derived mechanically from
    C' = C [w x] - [win x] C and dC = -[phi x] C with C a genuine rotation matrix
    (mat_from_rph of symbolic Euler angles, so that C C^T = I holds in the normal form)."""
    repo = ctx.repo
    ev = SymEval(repo, Alg(), hooks=_H())
    A = ev.A
    vec = lambda xs: SArray((3,), {(i,): x for i, x in enumerate(xs)})
    Cm = ev.call_function(repo.function('transform.mat_from_rph'),
                          [vec([A.sym('roll'), A.sym('pitch'), A.sym('heading')])])
    sk = lambda v: ev.call_function(repo.function('util.skew_matrix'), [v])
    w, dw, win, dwin, phi = (vec([A.sym('%s%d' % (n, i)) for i in range(3)])
                             for n in ('w', 'dw', 'u', 'du', 'p'))
    sub = lambda a, b: ev.emap(A.sub, a, b)
    add = lambda a, b: ev.emap(A.add, a, b)
    Cd = sub(ev.matmul(Cm, sk(w)), ev.matmul(sk(win), Cm))
    dC = ev.emap(A.neg, ev.matmul(sk(phi), Cm))
    # variation of C' :  dC [w x] + C [dw x] - [dwin x] C - [win x] dC
    dCd = sub(sub(add(ev.matmul(dC, sk(w)), ev.matmul(Cm, sk(dw))), ev.matmul(sk(dwin), Cm)),
              ev.matmul(sk(win), dC))
    # d/dt(dC) = -[phi' x] C - [phi x] C'   =>   [phi' x] = -(dCd + [phi x] C') C^T
    M = ev.emap(A.neg, ev.matmul(add(dCd, ev.matmul(sk(phi), Cd)), ev.transpose(Cm)))
    got = vec([M.get((2, 1)), M.get((0, 2)), M.get((1, 0))])
    want = add(sub(ev.emap(A.neg, ev.matmul(Cm, dw)), ev.cross(win, phi)), dwin)
    ok = all(A.eq(got.get((k,)), want.get((k,))) for k in range(3)) and all(
        A.eq(M.get((a, b)), A.neg(M.get((b, a)))) for a in range(3) for b in range(3))
    ctx.ob('EM-LINEAR', ok, None, "attitude-error kinematics phi' = -C dw - win x phi + d(win) "
           'follows from the attitude equation and dC = -[phi x] C (rotation model)', f=fm,
           key='phi-kinematics',
           why='internal: the attitude-error kinematics could not be re-derived')
