"""INTERP - the state at which a measurement epoch is processed (C11) and the state at which
the propagation matrices are evaluated (C11, C12).

INTERP-AFFINE  filters._interpolate_pva(first, second, a) is evaluated: position and velocity
               are (1 - a) * first + a * second column by column (exact at a = 0 and a = 1,
               weights sum to 1); the attitude is the weighted mean of the two rotations with
               the weights [1 - a, a] in the order [first, second], in the library's Euler
               convention
INTERP-SITE    feedforward: the epoch state is interpolated between rows c and c + 1 with
               a = (T[m] - times[c]) / (times[c + 1] - times[c]) (0 <= a < 1 by the drain
               guard); both filters evaluate the propagation matrices at the mid-point (a = 1/2)
               of the states at the two ends of the propagated interval
"""
import ast

from ..expr import SymEval, SArray, Rec, Unsupported, Opaque
from ..flow import Closure
from ..model import AnalysisError, norm_text
from ..nf import Alg, Rat
from ..rotmodel import RotHooks, RotObj


class _Mean:
    def __init__(self, pairs):
        self.pairs = pairs


class _IH(RotHooks):
    def call(self, ev, q, node, args, kwargs, env):
        if q == self.ROT + '.concatenate' and args and isinstance(args[0], (list, tuple)) and \
                all(isinstance(x, RotObj) for x in args[0]):
            return list(args[0])
        if q == 'pandas.concat' and args and isinstance(args[0], (list, tuple)):
            cols = {}
            for part in args[0]:
                if isinstance(part, Rec):
                    cols.update(part.cols)
                elif isinstance(part, SArray) and getattr(part, 'colnames', None) and \
                        len(part.shape) == 1:
                    for i, c in enumerate(part.colnames):
                        cols[c] = part.get((i,))
                elif isinstance(part, SArray) and getattr(part, 'label_conflict', None):
                    raise Unsupported('pandas label mismatch: arithmetic between selections '
                                      'labelled %s aligns on the union of the labels and yields '
                                      'NaN' % (part.label_conflict,))
                else:
                    raise Unsupported('concat part %r' % (part,))
            return Rec(cols, 'series')
        if q == 'pandas.Series' and len(args) >= 2 and isinstance(args[0], Opaque) and \
                args[0].tag == 'mean-euler' and isinstance(args[1], (list, tuple)):
            return Rec({c: Opaque('mean-euler-col', args[0], i) for i, c in enumerate(args[1])},
                       'series')
        return RotHooks.call(self, ev, q, node, args, kwargs, env)

    def attr(self, ev, base, a, node):
        if isinstance(base, list) and base and all(isinstance(x, RotObj) for x in base) and \
                a == 'mean':
            def mean(weights=None):
                if not isinstance(weights, (list, tuple)) or len(weights) != len(base):
                    raise Unsupported('Rotation.mean weights')
                return _Mean(list(zip([ev.rat(w) for w in weights], base)))
            return mean
        if isinstance(base, _Mean) and a == 'as_euler':
            def as_euler(seq, degrees=False):
                return Opaque('mean-euler', base, seq, degrees)
            return as_euler
        return RotHooks.attr(self, ev, base, a, node)


def interp_rules(ctx, which=('feedforward', 'feedback')):
    ctx.rule('INTERP-AFFINE', '_interpolate_pva: position/velocity = (1 - a) first + a second; '
             'attitude = mean of the two rotations with weights [1 - a, a] in that order')
    ctx.rule('INTERP-SITE', 'epoch state interpolated between rows c, c + 1 with a = (T[m] - '
             'times[c]) / (times[c + 1] - times[c]); propagation matrices at the mid-point of the '
             'interval end states')
    repo = ctx.repo
    f = repo.function('filters._interpolate_pva')
    ctx.need(len(f.params) == 3, '_interpolate_pva signature changed')
    A = Alg()
    ev = SymEval(repo, A, hooks=_IH())
    cols = repo.const('util.TRAJECTORY_COLS')
    first = Rec({c: A.sym('%s_1' % c) for c in cols}, 'series')
    second = Rec({c: A.sym('%s_2' % c) for c in cols}, 'series')
    a = A.sym('a')
    try:
        out = ev.call_function(f, [first, second, a])
    except Unsupported as e:
        if str(e).startswith('pandas label mismatch'):
            ctx.ob('INTERP-AFFINE', False, None, 'operands of the interpolation carry the same '
                   'labels', f=f, key='labels', why='_interpolate_pva: %s' % e)
            return
        raise AnalysisError('_interpolate_pva not analysable: %s' % e)
    ctx.need(isinstance(out, Rec), '_interpolate_pva does not return a series')
    rph = set(repo.const('util.RPH_COLS'))
    lin = [c for c in cols if c not in rph]
    bad = []
    for c in lin:
        v = out.cols.get(c)
        want = A.add(A.mul(A.sub(A.const(1), a), A.sym('%s_1' % c)), A.mul(a, A.sym('%s_2' % c)))
        if not (isinstance(v, Rat) and A.eq(v, want)):
            bad.append(c)
    ctx.ob('INTERP-AFFINE', not bad and set(out.cols) == set(cols), None,
           'position and velocity columns are (1 - a) * first + a * second', f=f, key='linear',
           why='_interpolate_pva: columns %s are not (1 - a) * first + a * second (weights '
               'swapped, not summing to one, or a column taken from one end only)' % bad)
    # attitude
    okr, why = False, 'attitude columns are not the Euler angles of a weighted rotation mean'
    vals = [out.cols.get(c) for c in repo.const('util.RPH_COLS')]
    if all(isinstance(v, Opaque) and v.tag == 'mean-euler-col' for v in vals):
        me = vals[0].parts[0]
        mean, seq, deg = me.parts
        idx = [v.parts[1] for v in vals]
        from ..rotmodel import from_euler
        try:
            R1 = from_euler(ev, 'xyz', SArray((3,), {(i,): A.sym('%s_1' % c) for i, c in
                                                     enumerate(repo.const('util.RPH_COLS'))}),
                            True).mat
            R2 = from_euler(ev, 'xyz', SArray((3,), {(i,): A.sym('%s_2' % c) for i, c in
                                                     enumerate(repo.const('util.RPH_COLS'))}),
                            True).mat
            same = lambda X, Y: all(A.eq(X.get((i, j)), Y.get((i, j))) for i in range(3)
                                    for j in range(3))
            w = mean.pairs
            okr = len(w) == 2 and A.eq(w[0][0], A.sub(A.const(1), a)) and A.eq(w[1][0], a) and \
                same(w[0][1].mat, R1) and same(w[1][1].mat, R2) and seq == 'xyz' and \
                deg is True and idx == [0, 1, 2]
            if not okr:
                why = ('rotation mean uses weights %s for [first, second] / convention (%r, %r), '
                       'columns %s' % ([A.key(x[0]) for x in w], seq, deg, idx))
        except Unsupported as e:
            why = str(e)
    ctx.ob('INTERP-AFFINE', okr, None, 'attitude = mean of R(first), R(second) with weights '
           "[1 - a, a], read back as extrinsic 'xyz' degrees", f=f, key='attitude', why=why)
    # ---- call sites
    from . import sched
    n_mid = 0
    for kind in which:
        g = repo.function('filters.run_%s_filter' % kind)
        for call in [n for n in ast.walk(g.node) if isinstance(n, ast.Call) and
                     norm_text(n.func) == f.name and len(n.args) == 3]:
            st = None
            for s2 in ast.walk(g.node):
                if isinstance(s2, ast.stmt) and any(x is call for x in ast.walk(s2)) and \
                        not isinstance(s2, (ast.While, ast.For, ast.If, ast.FunctionDef)):
                    st = s2
            try:
                w = ctx.repo.fold(call.args[2], g.module)
            except ValueError:
                w = None
            if isinstance(w, (int, float)):
                n_mid += 1
                ctx.ob('INTERP-SITE', w == 0.5 and norm_text(call.args[0]) != norm_text(call.args[1]),
                       None, '%s: propagation matrices at the mid-point of `%s` and `%s`'
                       % (kind, norm_text(call.args[0]), norm_text(call.args[1])), f=g, node=call,
                       key='%s-mid' % kind,
                       why='%s: the state for the propagation matrices is interpolated with weight '
                           '%r (not the mid-point) or between a state and itself' % (kind, w))
                continue
            # epoch interpolation
            clo = Closure(g)
            t = clo.text(call.args[2], st)
            a0, a1 = norm_text(call.args[0]), norm_text(call.args[1])
            m0 = _row_index(a0)
            m1 = _row_index(a1)
            ok = False
            why = 'weight `%s` between `%s` and `%s`' % (t, a0, a1)
            if m0 and m1 and m0[0] == m1[0]:
                tab, c = m0
                want_c1 = {'%s + 1' % c, '1 + %s' % c}
                if m1[1] in want_c1:
                    # weight must be (T - times[c]) / (times[c+1] - times[c]) with `times` the
                    # index of an aligned table
                    try:
                        tree = ast.parse(t, mode='eval').body
                    except SyntaxError:
                        tree = None
                    if isinstance(tree, ast.BinOp) and isinstance(tree.op, ast.Div) and \
                            isinstance(tree.left, ast.BinOp) and isinstance(tree.left.op, ast.Sub) \
                            and isinstance(tree.right, ast.BinOp) and \
                            isinstance(tree.right.op, ast.Sub):
                        lo = norm_text(tree.left.right)
                        hi, lo2 = norm_text(tree.right.left), norm_text(tree.right.right)
                        from .sched import _strip_array_wrappers
                        lo, hi, lo2 = (_strip_array_wrappers(x) for x in (lo, hi, lo2))
                        isrow = lambda x, k: any(x == '%s.index[%s]' % (tb, k2) for tb in
                                                 _aligned(g, tab) for k2 in k)
                        ok = lo == lo2 and isrow(lo, {c}) and isrow(hi, want_c1)
            ctx.ob('INTERP-SITE', ok, None, '%s: epoch state between rows c and c + 1 with '
                   'a = (T[m] - times[c]) / (times[c + 1] - times[c])' % kind, f=g, node=call,
                   key='%s-epoch' % kind,
                   why='%s: the state at a measurement epoch is not interpolated between the two '
                       'rows that bracket it with the fraction of the interval elapsed: %s'
                       % (kind, why))
    ctx.floor('INTERP-SITE', n_mid, 1, 'mid-point evaluations')
    # the state handed to the propagation-matrix helper is that mid-point, in each filter
    for kind in which:
        g = repo.function('filters.run_%s_filter' % kind)
        pcalls = [n for n in ast.walk(g.node) if isinstance(n, ast.Call) and
                  norm_text(n.func) == '_compute_error_propagation_matrices' and n.args]
        ctx.need(len(pcalls) == 1, '%s: call of _compute_error_propagation_matrices' % kind)
        a0 = pcalls[0].args[0]
        dfs = [a0]
        if isinstance(a0, ast.Name):
            dfs = [s_.value for s_ in ast.walk(g.node) if isinstance(s_, ast.Assign) and
                   len(s_.targets) == 1 and isinstance(s_.targets[0], ast.Name) and
                   s_.targets[0].id == a0.id]
        ctx.need(len(dfs) == 1, '%s: definition of the state handed to the propagation matrices'
                 % kind)
        d0 = dfs[0]
        via = isinstance(d0, ast.Call) and norm_text(d0.func) == f.name
        arith = isinstance(d0, ast.BinOp) and not any(isinstance(n, ast.Call)
                                                      for n in ast.walk(d0))
        ctx.need(via or arith, '%s: the state handed to the propagation matrices, `%s`, is not '
                               'read' % (kind, norm_text(d0)[:60]))
        ctx.ob('INTERP-SITE', via, None, '%s: the state for the propagation matrices comes from %s'
               % (kind, f.name), f=g, node=d0, key='%s-mid-via' % kind,
               why='%s: the state for the propagation matrices is `%s`, plain arithmetic on the '
                   'two states: roll / pitch / heading are angles, their arithmetic mean is off '
                   'by 180 degrees when the two headings lie on either side of +-180 (the '
                   'attitude must be averaged as a rotation, as %s does)'
                   % (kind, norm_text(d0)[:60], f.name))


def _row_index(txt):
    """`T.iloc[k]` -> (T, k)"""
    try:
        e = ast.parse(txt, mode='eval').body
    except SyntaxError:
        return None
    if isinstance(e, ast.Subscript) and isinstance(e.value, ast.Attribute) and \
            e.value.attr == 'iloc' and isinstance(e.value.value, ast.Name):
        return e.value.value.id, norm_text(e.slice)
    return None


def _aligned(g, tab):
    from .idxdom import _analyse
    tabs, _, _ = _analyse(g)
    out = {tab}
    for p in g.params:
        if tabs.find(p) == tabs.find(tab):
            out.add(p)
    return out


def fb_epoch(ctx):
    """feedback filter: the state at a measurement epoch inside the pending sampling interval"""
    ctx.rule('INTERP-FB', 'feedback: epoch state = predict(a * pending increment) with a = (T[m] - '
             'integrator time) / dt of that increment (elapsed fraction of the interval, the whole '
             'row incl. its dt is scaled); body rates = theta / dt of the same increment')
    repo = ctx.repo
    _REPO[0] = repo
    g = repo.function('filters.run_feedback_filter')
    from . import sched
    M = [m for m in sched._models(ctx, (sched.FB,))][0]
    loop = M.loop
    A = Alg()
    # the integrator object and the time read at the top of the iteration
    integ = None
    for a_ in ast.walk(g.node):
        if isinstance(a_, ast.Assign) and isinstance(a_.targets[0], ast.Name) and \
                isinstance(a_.value, ast.Call) and g.module.resolve(
                    a_.value.func, g.local_names()) == 'pyins.strapdown.Integrator':
            integ = a_.targets[0].id
    ctx.need(integ is not None, 'feedback: integrator object not found')
    tvar = None
    for st in loop.body:
        if isinstance(st, ast.Assign) and isinstance(st.targets[0], ast.Name) and \
                norm_text(st.value) == '%s.get_time()' % integ:
            tvar = st.targets[0].id
            break
    ctx.need(tvar is not None, 'feedback: integrator time is not read at the top of the iteration')
    calls = [n for n in ast.walk(loop) if isinstance(n, ast.Call) and
             norm_text(n.func) == '%s.predict' % integ]
    ctx.need(len(calls) >= 1, 'feedback: no predict call in the loop')
    for call in calls:
        arg = call.args[0] if call.args else None
        st = None
        for s2 in ast.walk(loop):
            if isinstance(s2, ast.stmt) and any(x is call for x in ast.walk(s2)) and \
                    not isinstance(s2, (ast.While, ast.For, ast.If)):
                st = s2
        # the pending increment: a local defined by the correction of increments.iloc[c]
        incs = set()
        for s2 in ast.walk(loop):
            if isinstance(s2, ast.Assign) and isinstance(s2.targets[0], ast.Name) and \
                    isinstance(s2.value, ast.Call) and '.iloc[%s]' % M.c in norm_text(s2.value):
                incs.add(s2.targets[0].id)
        ok, why = False, 'argument of predict is `%s`' % (norm_text(arg) if arg is not None else '')
        def incs_in(e_, depth=0):
            out = [n.id for n in ast.walk(e_) if isinstance(n, ast.Name) and n.id in incs]
            if not out and depth < 3:
                for n in ast.walk(e_):
                    if isinstance(n, ast.Name):
                        d_ = _local_def(M, n.id, st)
                        if d_ is not None:
                            out += incs_in(d_, depth + 1)
            return out
        used = incs_in(arg) if arg is not None else []
        if used:
            inc = used[0]
            try:
                v = _scalar(A, arg, {tvar: 't0'}, inc, M, g, st)
                want = A.mul(A.sym('INC'), A.div(A.sub(A.sym('Tm'), A.sym('t0')), A.sym('dt')))
                ok = A.eq(v, want)
                if not ok:
                    why = 'the increment handed to predict is `%s`' % norm_text(arg)[:90]
            except ValueError as e:
                why = str(e)
        ctx.ob('INTERP-FB', ok, None, 'predict(a * increment), a = (T[m] - time) / dt', f=g,
               node=call, key='fb-epoch',
               why='feedback: the state at a measurement epoch is not predicted with the elapsed '
                   'fraction of the pending increment: %s' % why)
        # rates handed to the measurement models
        ser = [n for n in ast.walk(st) if isinstance(n, ast.Call) and
               (g.module.resolve(n.func, g.local_names()) or '') == 'pandas.Series' and n.args] \
            if st is not None else []
        for sc in ser:
            e = sc.args[0]
            used = incs_in(e)
            okr = False
            whyr = ''
            if used:
                try:
                    v = _scalar(A, e, {tvar: 't0'}, used[0], M, g, st)
                    okr = A.eq(v, A.div(A.sym('THETA'), A.sym('dt')))
                except ValueError as ex:
                    okr = False
                    whyr = ' (%s)' % ex
            ctx.ob('INTERP-FB', okr, None, 'body rates = theta / dt of the pending increment', f=g,
                   node=sc, key='fb-rates',
                   why='feedback: the body rates handed to the measurement models are `%s`, not '
                       'the rotation increment of the pending sample divided by its dt%s'
                       % (norm_text(e)[:80], whyr))


def _scalar(A, e, names, inc, M, g, st):
    """small scalar evaluator: measurement time T[m] -> Tm, time at loop top -> t0,
    increment['dt'] -> dt"""
    if isinstance(e, ast.Constant) and isinstance(e.value, (int, float)):
        return A.const(e.value)
    if isinstance(e, ast.Name) and e.id == inc:
        return A.sym('INC')
    if isinstance(e, ast.Name):
        if names.get(e.id):
            return A.sym(names[e.id])
        d_ = _local_def(M, e.id, st)
        if d_ is not None and any(isinstance(x, ast.Name) and x.id == inc for x in ast.walk(d_)):
            # a local derived from the pending increment (`partial = a * increment`)
            return _scalar(A, d_, names, inc, M, g, st)
        t = M.clo.text(e, st)
        if t == '%s[%s]' % (M.T, M.m):
            return A.sym('Tm')
        raise ValueError('`%s` is not the epoch time, the time at the top of the iteration or dt'
                         % e.id)
    if isinstance(e, ast.Name) and e.id == inc:
        return A.sym('INC')
    if isinstance(e, ast.Attribute) and e.attr == 'values':
        return _scalar(A, e.value, names, inc, M, g, st)
    if isinstance(e, ast.Subscript) and isinstance(e.value, ast.Name) and e.value.id == inc and \
            norm_text(e.slice) == "'dt'":
        return A.sym('dt')
    if isinstance(e, ast.Subscript) and isinstance(e.value, ast.Name) and e.value.id == inc:
        try:
            cols = _fold_cols(g, e.slice)
        except ValueError:
            cols = None
        if cols is not None:
            return A.sym('THETA' if cols == 'theta' else 'COLS_' + cols)
    if isinstance(e, ast.Attribute) and isinstance(e.value, ast.Name) and e.value.id == inc and \
            e.attr == 'dt':
        return A.sym('dt')
    if isinstance(e, ast.Subscript) and isinstance(e.value, ast.Name) and e.value.id != inc:
        # a column (group) of a row derived linearly from the pending increment
        d_ = _local_def(M, e.value.id, st)
        if d_ is not None and any(isinstance(x, ast.Name) and x.id == inc for x in ast.walk(d_)):
            v = _scalar(A, d_, names, inc, M, g, st)
            if norm_text(e.slice) == "'dt'":
                col = 'dt'
            else:
                try:
                    cols = _fold_cols(g, e.slice)
                except ValueError:
                    raise ValueError('`%s` not understood' % norm_text(e)[:50])
                col = 'THETA' if cols == 'theta' else 'COLS_' + cols
            return A.subst(v, {'INC': A.sym(col)})
    if isinstance(e, ast.BinOp):
        a, b = _scalar(A, e.left, names, inc, M, g, st), _scalar(A, e.right, names, inc, M, g, st)
        if isinstance(e.op, ast.Add):
            return A.add(a, b)
        if isinstance(e.op, ast.Sub):
            return A.sub(a, b)
        if isinstance(e.op, ast.Mult):
            return A.mul(a, b)
        if isinstance(e.op, ast.Div):
            # a denominator that vanishes when the epoch coincides with the latest state (the
            # elapsed fraction is 0: inside the domain, the drain test admits T[m] == time)
            if not A.is_zero(b) and A.is_zero(A.subst(b, {'Tm': A.sym('t0')})):
                raise ValueError('`%s` divides by `%s`, which is zero when the measurement epoch '
                                 'coincides with the time of the latest state (elapsed fraction 0): '
                                 '0/0 = NaN' % (norm_text(e)[:60], norm_text(e.right)[:40]))
            return A.div(a, b)
    raise ValueError('`%s` not understood' % norm_text(e)[:50])


def _local_def(M, name, at):
    """value of a local assigned exactly once in the loop (any nesting), else None"""
    ds = [s_ for s_ in ast.walk(M.loop) if isinstance(s_, ast.Assign) and len(s_.targets) == 1 and
          isinstance(s_.targets[0], ast.Name) and s_.targets[0].id == name]
    return ds[0].value if len(ds) == 1 else None


def _fold_cols(g, node):
    """which documented column group a constant column selection is"""
    try:
        val = _REPO[0].fold(node, g.module)
    except Exception:
        raise ValueError('columns')
    if not isinstance(val, (list, tuple)):
        raise ValueError('columns')
    th = _REPO[0].const('util.THETA_COLS')
    dv = _REPO[0].const('util.DV_COLS')
    if list(val) == list(th):
        return 'theta'
    if list(val) == list(dv):
        return 'dv'
    return '_'.join(str(x) for x in val)


_REPO = [None]
