"""DTYPE-INHERIT - an output/work array must not inherit the dtype of an argument when it
receives values that are float-valued or that come from another argument: with integer-typed
input (lists of ints, integer literals in a matrix) the stores truncate silently, so the
integer and the float form of the same input give different values.

Contradiction-only: a value whose dtype source is unknown (np.arange, library results, repo
calls) is neither "argument-dtyped" nor flagged.
"""
import ast

from ..model import norm_text

PRESERVING = {'numpy.asarray', 'numpy.atleast_1d', 'numpy.atleast_2d', 'numpy.atleast_3d',
              'numpy.ascontiguousarray', 'numpy.abs', 'numpy.diff', 'numpy.transpose',
              'numpy.array', 'numpy.copy', 'numpy.negative', 'numpy.squeeze', 'numpy.ravel'}
FLOATY = {'numpy.sin', 'numpy.cos', 'numpy.tan', 'numpy.sqrt', 'numpy.deg2rad', 'numpy.rad2deg',
          'numpy.arctan2', 'numpy.arcsin', 'numpy.arccos', 'numpy.hypot', 'numpy.exp', 'numpy.log',
          'numpy.mean', 'numpy.median', 'numpy.linalg.inv', 'numpy.linalg.solve'}
ALLOC = {'numpy.zeros', 'numpy.empty', 'numpy.ones', 'numpy.full'}
LIKE = {'numpy.empty_like', 'numpy.zeros_like', 'numpy.ones_like', 'numpy.full_like'}


def dtype_inherit(ctx, modules=None):
    ctx.rule('DTYPE-INHERIT', 'no work/output array inherits an argument\'s dtype and then receives '
             'float-valued stores or values of another argument (silent integer truncation)')
    n_alloc = 0
    for f in ctx.repo.all_functions():
        if modules and f.module.name.split('.')[-1] not in modules:
            continue
        res = lambda n, f=f: f.module.resolve(n, f.local_names())
        params = set(f.params + f.kwonly)
        src = {p: {p} for p in params if p not in ('self', 'cls')}     # name -> dtype sources
        floaty = set()
        allocs = {}      # array name -> (sources, node)

        def sources(e):
            """set of parameters whose dtype e inherits, or None if unknown/float."""
            if isinstance(e, ast.Name):
                return src.get(e.id)
            if isinstance(e, ast.Constant) and isinstance(e.value, int) and \
                    not isinstance(e.value, bool):
                return set()
            if isinstance(e, ast.UnaryOp):
                return sources(e.operand)
            if isinstance(e, ast.BinOp) and isinstance(e.op, (ast.Add, ast.Sub, ast.Mult)):
                a, b = sources(e.left), sources(e.right)
                return None if a is None or b is None else a | b
            if isinstance(e, ast.Subscript):
                return sources(e.value)
            if isinstance(e, ast.Attribute) and e.attr in ('T', 'values'):
                return sources(e.value)
            if isinstance(e, ast.Call):
                q = res(e.func)
                if q in PRESERVING and e.args and not any(k.arg == 'dtype' for k in e.keywords) \
                        and len(e.args) == 1:
                    return sources(e.args[0])
                if isinstance(e.func, ast.Attribute) and e.func.attr in ('copy', 'transpose') \
                        and q is None:
                    return sources(e.func.value)
            return None

        def float_valued(e):
            for x in ast.walk(e):
                if isinstance(x, ast.BinOp) and isinstance(x.op, ast.Div):
                    return True
                if isinstance(x, ast.Constant) and isinstance(x.value, float):
                    return True
                if isinstance(x, ast.Call) and res(x.func) in FLOATY:
                    return True
                if isinstance(x, ast.Name) and x.id in floaty:
                    return True
                if isinstance(x, ast.Call) and (res(x.func) or '').startswith('pyins.'):
                    return True
                if isinstance(x, ast.Attribute) and (res(x) or '').startswith('pyins.'):
                    return True          # module constants (RAD_TO_DEG, A, ...) are floats
            return False

        def visit(body):
            nonlocal n_alloc
            for st in body:
                if isinstance(st, ast.Assign) and len(st.targets) == 1:
                    t, v = st.targets[0], st.value
                    if isinstance(t, ast.Name):
                        q = res(v.func) if isinstance(v, ast.Call) else None
                        dt = None
                        if isinstance(v, ast.Call):
                            for k in v.keywords:
                                if k.arg == 'dtype':
                                    dt = k.value
                            if q in ALLOC and len(v.args) >= 2:
                                dt = v.args[1]
                        if q in LIKE and dt is None and v.args:
                            s_ = sources(v.args[0])
                            if s_:
                                allocs[t.id] = (s_, st)
                                n_alloc += 1
                            src.pop(t.id, None)
                        elif (q in ALLOC or q in LIKE) and dt is not None and \
                                isinstance(dt, ast.Attribute) and dt.attr == 'dtype':
                            s_ = sources(dt.value)
                            if s_:
                                allocs[t.id] = (s_, st)
                                n_alloc += 1
                            src.pop(t.id, None)
                        else:
                            allocs.pop(t.id, None)
                            s_ = sources(v)
                            if s_ is not None and (s_ or isinstance(v, ast.Constant)):
                                src[t.id] = s_
                            else:
                                src.pop(t.id, None)
                            if float_valued(v):
                                floaty.add(t.id)
                    elif isinstance(t, (ast.Tuple, ast.List)):
                        for e in t.elts:
                            if isinstance(e, ast.Name):
                                src.pop(e.id, None)
                                allocs.pop(e.id, None)
                                if float_valued(v):
                                    floaty.add(e.id)
                    elif isinstance(t, ast.Subscript) and isinstance(t.value, ast.Name) and \
                            t.value.id in allocs:
                        check(t.value.id, v, st)
                elif isinstance(st, ast.AugAssign) and isinstance(st.target, ast.Subscript) and \
                        isinstance(st.target.value, ast.Name) and st.target.value.id in allocs:
                    check(st.target.value.id, st.value, st)
                elif isinstance(st, (ast.If, ast.For, ast.While)):
                    visit(st.body)
                    visit(st.orelse)

        def check(arr, v, st):
            s_, a_st = allocs[arr]
            others = {x.id for x in ast.walk(v) if isinstance(x, ast.Name) and x.id in params
                      and x.id not in s_}
            fv = float_valued(v)
            ctx.ob('DTYPE-INHERIT', not (fv or others), None,
                   "%s: store into `%s` (dtype of %s)" % (f.qualname, arr, sorted(s_)), f=f, node=st,
                   why="`%s` has the dtype of argument(s) %s (`%s`) but receives %s: with "
                       "integer-typed input the values are truncated silently"
                       % (arr, sorted(s_), norm_text(a_st)[:70],
                          'a float-valued expression' if fv else
                          'values of another argument %s' % sorted(others)))
        visit(f.node.body)
    ctx.ob('DTYPE-INHERIT', True, None, 'arrays with an inherited dtype examined: %d' % n_alloc,
           key='summary')


# ------------------------------------------------------------------ DTYPE-NARROW
_NARROW = ('float32', 'float16', 'single', 'half', 'f4', 'f2', '<f4', '<f2', 'complex64')


def dtype_narrow(ctx, modules=None):
    """Every quantity of the package is a double.  A cast to single / half precision anywhere on
    the way (`dtype=np.float32`, `.astype('f4')`, `np.float32(x)`) leaves a relative error of
    6e-8 (1e-3) that no sampling interval, time step or tolerance of the properties absorbs:
    convergence stalls at that level, bit-identical and first-order statements fail.  The pinned
    tree has no such cast; the expected count is zero (fixture below)."""
    ctx.rule('DTYPE-NARROW', 'no value is narrowed to single or half precision (dtype=float32 / '
             'float16, astype, constructor call)')
    n = 0

    def narrow(e):
        if isinstance(e, ast.Constant) and isinstance(e.value, str):
            return e.value.lower() in _NARROW
        if isinstance(e, ast.Attribute):
            return e.attr in _NARROW
        if isinstance(e, ast.Name):
            return e.id in _NARROW
        return False

    def sites(tree):
        out = []
        for c in ast.walk(tree):
            if not isinstance(c, ast.Call):
                continue
            if narrow(c.func):
                out.append(c)                               # np.float32(x)
                continue
            for kw in c.keywords:
                if kw.arg == 'dtype' and narrow(kw.value):
                    out.append(c)
            if isinstance(c.func, ast.Attribute) and c.func.attr in ('astype', 'view') and \
                    c.args and narrow(c.args[0]):
                out.append(c)
            if isinstance(c.func, ast.Attribute) and c.func.attr in (
                    'asarray', 'array', 'zeros', 'empty', 'ones', 'full', 'ascontiguousarray',
                    'asanyarray', 'require') and len(c.args) >= 2 and narrow(c.args[1]):
                out.append(c)
        return out
    for f in ctx.repo.all_functions():
        short = f.module.name.split('.')[-1]
        if modules and short not in modules:
            continue
        n += 1
        for c in sites(f.node):
            ctx.ob('DTYPE-NARROW', False, None, '%s keeps double precision' % f.qualname, f=f,
                   node=c, key='narrow-%s-%s' % (f.qualname, norm_text(c)[:40]),
                   why='`%s` narrows values to single / half precision: a relative error of about '
                       '6e-8 (1e-3) enters that does not shrink with the sampling interval'
                       % norm_text(c)[:80])
    ctx.ob('DTYPE-NARROW', True, None, '%d functions scanned' % n, key='summary')
    if not ctx.cache.get('dtype-narrow-fixture'):
        ctx.cache['dtype-narrow-fixture'] = True
        fx = ast.parse("a = np.asarray(x, dtype=np.float32)\nb = x.astype('f4')\n"
                       "c = np.float32(x)\nd = np.asarray(x, dtype=float)\ne = x.astype(np.float64)\n")
        if len(sites(fx)) != 3:
            raise AssertionError('DTYPE-NARROW fixture not recognised')
        ctx.ob('DTYPE-NARROW', True, None, 'positive fixture: three narrowing casts detected, two '
               'double casts silent', key='fixture')


# ------------------------------------------------------------------ DTYPE-FILL
def dtype_fill(ctx, modules=None):
    """`np.full(shape, fill)` without a dtype takes the dtype of `fill`.  When `fill` is data (an
    argument, a field, a selection of one) and not a float-valued expression, a buffer that is
    kept (stored in a field, returned) is integer- or single-typed for integer- or single-typed
    input, and every later float store into it is truncated in silence (round-10 seed
    C01-buffers-inherit-pva-dtype: the integrator's state buffers pre-filled with the initial
    Pva).  `np.full(shape, fill, dtype=float)` / a float literal / np.nan pass."""
    ctx.rule('DTYPE-FILL', 'no kept buffer is allocated by np.full / np.full_like with the dtype of '
             'a data-valued fill')
    n = 0
    for f in ctx.repo.all_functions():
        if modules and f.module.name.split('.')[-1] not in modules:
            continue
        loc = f.local_names()
        res = lambda e: f.module.resolve(e, loc) if isinstance(e, (ast.Name, ast.Attribute)) \
            else None
        for st in ast.walk(f.node):
            if not isinstance(st, (ast.Assign, ast.Return)) or st.value is None:
                continue
            for c in ast.walk(st.value):
                if not (isinstance(c, ast.Call) and res(c.func) == 'numpy.full' and
                        len(c.args) >= 2):
                    continue
                n += 1
                has_dt = len(c.args) >= 3 or any(k.arg == 'dtype' for k in c.keywords)
                fill = c.args[1]
                # data selected from an argument / a field, possibly through dtype-preserving
                # wrappers; the result of any other call has a dtype of its own (not judged)
                core = fill
                while isinstance(core, ast.Call) and res(core.func) in PRESERVING and core.args \
                        and not any(k.arg == 'dtype' for k in core.keywords):
                    core = core.args[0]
                data = isinstance(core, (ast.Name, ast.Attribute, ast.Subscript)) and \
                    (res(core) or '').split('.')[0] not in ('numpy', 'math')
                floaty = any(isinstance(x, ast.Constant) and isinstance(x.value, float)
                             for x in ast.walk(fill)) or any(
                    isinstance(x, ast.BinOp) and isinstance(x.op, ast.Div) for x in ast.walk(fill)) \
                    or (res(fill) or '') in ('numpy.nan', 'numpy.inf', 'numpy.pi')
                kept = isinstance(st, ast.Return) or any(
                    isinstance(t, ast.Attribute) for t in getattr(st, 'targets', []))
                ok = has_dt or not data or floaty or not kept
                ctx.ob('DTYPE-FILL', ok, None, '%s: `%s` has its own dtype' % (
                    f.qualname, norm_text(c)[:50]), f=f, node=st,
                    key='fill-%s-%s' % (f.qualname, norm_text(c)[:40]),
                    why='`%s` allocates a buffer whose dtype is that of `%s`: with an integer- or '
                        'single-precision input the buffer is integer / single typed and the '
                        'float values stored into it later are truncated without notice'
                        % (norm_text(c)[:70], norm_text(fill)[:40]))
    ctx.ob('DTYPE-FILL', True, None, '%d np.full allocations examined' % n, key='summary')
