"""C14 - inertial_sensor.EstimationModel / Parameters (and C12 shares SM-ATTRS, EST-*).

SM-NAMES  state-name producers (EstimationModel.__init__, Parameters.apply) and the
          parser (update_estimates / get_estimates) agree: same prefixes, separator,
          letter tables are mutual inverses
SM-ROLE   at every site the first suffix letter is the row/output axis and the second the
          column/input axis of the scale-misalignment matrix
SM-COUNT  construction counters: every appended state / stored noise column is paired with
          exactly one increment of its counter, stores precede the increment, final
          slices use the counter that indexed the array
SM-ACCUM  update_estimates only accumulates (+=) its own state element
SM-ATTRS  reset_estimates re-initialises every attribute update_estimates mutates and
          correct_increments / get_estimates read
SM-SIGN   correct_increments removes (-bias*dt, inverse of transform) what output_matrix
          attributes (+1, +reading) to the states
SM-UNITS  sampling-interval exponents: increment = rate * dt for bias and noise terms,
          white noise dt^-1/2 (rate), bias walk dt^1/2; correction uses bias * dt
"""
import ast
from fractions import Fraction

from ..model import AnalysisError, norm_text
from ..flow import walk_no_nested_funcs


def _fstrings(fnode):
    out = []
    for n in ast.walk(fnode):
        if isinstance(n, ast.JoinedStr):
            out.append(n)
    return out


def _template(js):
    """f-string -> (literal text with {} holes, [expr nodes])."""
    lit, holes = '', []
    for v in js.values:
        if isinstance(v, ast.Constant):
            lit += str(v.value)
        elif isinstance(v, ast.FormattedValue):
            lit += '{}'
            holes.append(v.value)
    return lit, holes


def _letter_var(node):
    """INDEX_TO_XYZ[var] -> var name"""
    if isinstance(node, ast.Subscript) and isinstance(node.value, ast.Name) and \
            node.value.id == 'INDEX_TO_XYZ' and isinstance(node.slice, ast.Name):
        return node.slice.id
    return None



def _ctor_roles(m):
    """constructor locals by role: the local finally stored into self.<attr>."""
    r = {}
    for st in m.node.body:
        if isinstance(st, ast.Assign) and isinstance(st.targets[0], ast.Attribute) and \
                isinstance(st.targets[0].value, ast.Name) and st.targets[0].value.id == 'self' \
                and isinstance(st.value, ast.Name):
            r[st.targets[0].attr] = st.value.id
    return r


def sm_names(ctx):
    ctx.rule('SM-NAMES', 'state-name producers and the parser agree (prefixes, separator, letter '
             'tables)')
    ctx.rule('SM-ROLE', 'first suffix letter = row/output axis, second = column/input axis at '
             'every site')
    repo = ctx.repo
    em = repo.klass('inertial_sensor.EstimationModel')
    pm = repo.klass('inertial_sensor.Parameters')
    i2x = repo.const('util.INDEX_TO_XYZ')
    x2i = repo.const('util.XYZ_TO_INDEX')
    ok = isinstance(i2x, dict) and isinstance(x2i, dict) and len(i2x) == 3 and \
        all(x2i.get(v) == k for k, v in i2x.items()) and \
        all(i2x.get(v) == k for k, v in x2i.items()) and sorted(i2x) == [0, 1, 2]
    ctx.ob('SM-NAMES', ok, None, 'INDEX_TO_XYZ and XYZ_TO_INDEX are mutually inverse over 0..2',
           key='tables', why='letter tables are not mutual inverses: %s / %s' % (i2x, x2i))
    prod = {}
    for owner, m in ((em, em.methods.get('__init__')), (pm, pm.methods.get('apply'))):
        ctx.need(m is not None, 'producer method missing in %s' % owner.name)
        tpl = {}
        for js in _fstrings(m.node):
            lit, holes = _template(js)
            vars_ = [_letter_var(h) for h in holes]
            if '_' in lit and all(v is not None for v in vars_) and holes:
                tpl[lit] = (vars_, js)
        prod[owner.name] = (m, tpl)
    a, b = prod['EstimationModel'][1], prod['Parameters'][1]
    # a producer whose names are not built by f-strings over the letter tables is not read by
    # this rule (SM-MODEL / SM-PARAMS execute the producers and decide the names semantically)
    ctx.need(len(a) == 2 and len(b) >= 2,
             'SM-NAMES: name templates of the producers not read (%s / %s)' % (sorted(a), sorted(b)))
    ctx.ob('SM-NAMES', set(a) == set(b) and len(a) == 2, None,
           'both producers use the templates %s' % sorted(a), f=prod['Parameters'][0],
           key='templates', why='estimator names states %s but the simulator table uses %s'
                                % (sorted(a), sorted(b)))
    # parser
    prefixes = {}
    for mname in ('update_estimates', 'get_estimates'):
        m = em.methods.get(mname)
        ctx.need(m is not None, 'EstimationModel.%s missing' % mname)
        seps = [n for n in ast.walk(m.node) if isinstance(n, ast.Call) and
                isinstance(n.func, ast.Attribute) and n.func.attr == 'split']
        sep = None
        if seps and seps[0].args and isinstance(seps[0].args[0], ast.Constant):
            sep = seps[0].args[0].value
        # the local that holds the split name
        iv = None
        for n in ast.walk(m.node):
            if isinstance(n, ast.Assign) and seps and n.value is seps[0] and \
                    isinstance(n.targets[0], ast.Name):
                iv = n.targets[0].id
        ctx.need(iv is not None, '%s: split state name is not bound to a local' % mname)
        got = set()
        for n in ast.walk(m.node):
            if isinstance(n, ast.Compare) and len(n.ops) == 1 and isinstance(n.ops[0], ast.Eq) \
                    and isinstance(n.comparators[0], ast.Constant) and \
                    isinstance(n.comparators[0].value, str) and \
                    norm_text(n.left) == '%s[0]' % iv:
                got.add(n.comparators[0].value)
        want = {t.split('{')[0].rstrip('_') for t in a}
        seps_in_tpl = {t[len(t.split('_')[0])] for t in a}
        ctx.ob('SM-NAMES', got == want and {sep} == seps_in_tpl and
               all(t.count('_') == 1 for t in a), None,
               "%s parses prefixes %s split by %r" % (mname, sorted(got), sep), f=m,
               key='parser-' + mname,
               why='%s recognises prefixes %s with separator %r; producers emit %s'
                   % (mname, sorted(got), sep, sorted(a)))
        # SM-ROLE in the parser: items[1][0] -> row, items[1][1] -> column
        role = {}
        for n in ast.walk(m.node):
            if isinstance(n, ast.Assign) and isinstance(n.targets[0], ast.Name) and \
                    isinstance(n.value, ast.Subscript) and \
                    norm_text(n.value.value) == 'XYZ_TO_INDEX':
                t = norm_text(n.value.slice)
                if t == '%s[1][0]' % iv:
                    role[n.targets[0].id] = 0
                elif t == '%s[1][1]' % iv:
                    role[n.targets[0].id] = 1
        subs = [n for n in ast.walk(m.node) if isinstance(n, ast.Subscript) and
                norm_text(n.value) == 'self.transform' and isinstance(n.slice, ast.Tuple)]
        ctx.need(subs, '%s does not index self.transform' % mname)
        for sb in subs:
            idx = [norm_text(e) for e in sb.slice.elts]
            okr = len(idx) == 2 and role.get(idx[0]) == 0 and role.get(idx[1]) == 1
            ctx.ob('SM-ROLE', okr, None, '%s: transform[row<-letter 1, col<-letter 2]' % mname,
                   f=m, node=sb,
                   why='%s indexes transform[%s] where the first letter of the state name is '
                       'bound to %s: output and input axes are swapped'
                       % (mname, ', '.join(idx),
                          [k for k, v in role.items() if v == 0]))
    # SM-ROLE at the producers
    m, tpl = prod['EstimationModel']
    for lit, (vars_, js) in tpl.items():
        if len(vars_) != 2:
            continue
        subs = [n for n in ast.walk(m.node) if isinstance(n, ast.Subscript) and
                norm_text(n.value) == 'scale_misal_sd' and isinstance(n.slice, ast.Tuple)]
        ctx.need(subs, 'constructor does not index scale_misal_sd')
        for sb in subs:
            idx = [norm_text(e) for e in sb.slice.elts]
            ctx.ob('SM-ROLE', idx == vars_, None,
                   'constructor: name letters (%s) = scale_misal_sd[%s]' % (vars_, idx), f=m,
                   node=sb, why='state is named sm_{%s}{%s} but enabled by scale_misal_sd[%s]'
                                % (vars_[0], vars_[1], ', '.join(idx)))
        # lists handed to output_matrix
        apps = {}
        for n in ast.walk(m.node):
            if isinstance(n, ast.Call) and isinstance(n.func, ast.Attribute) and \
                    n.func.attr == 'append' and isinstance(n.func.value, ast.Name) and n.args:
                apps[n.func.value.id] = norm_text(n.args[0])
        tup = None
        for n in ast.walk(m.node):
            if isinstance(n, ast.Assign) and norm_text(n.targets[0]) == 'self._scale_misal_data' \
                    and isinstance(n.value, ast.Tuple):
                tup = [norm_text(e) for e in n.value.elts]
        om = em.methods.get('output_matrix')
        ctx.need(tup is not None and om is not None, 'scale-misalignment bookkeeping not found')
        unp = None
        for n in ast.walk(om.node):
            if isinstance(n, ast.Assign) and norm_text(n.value) == 'self._scale_misal_data' and \
                    isinstance(n.targets[0], ast.Tuple):
                unp = [norm_text(e) for e in n.targets[0].elts]
        ctx.need(unp is not None and len(unp) == len(tup) == 3,
                 'output_matrix does not unpack _scale_misal_data')
        holds = {u: apps.get(t) for u, t in zip(unp, tup)}     # local in output_matrix -> var
        rdg = om.params[1] if len(om.params) > 1 else 'readings'
        stores = [n for n in ast.walk(om.node) if isinstance(n, ast.Assign) and
                  isinstance(n.targets[0], ast.Subscript) and
                  isinstance(n.targets[0].value, ast.Name) and
                  isinstance(n.targets[0].slice, ast.Tuple) and
                  isinstance(n.value, ast.Subscript) and
                  isinstance(n.value.value, ast.Name)]
        # the reading may have been re-bound (readings = np.asarray(readings))
        stores = [n for n in stores if n.value.value.id in
                  {rdg} | {t.id for a in ast.walk(om.node) if isinstance(a, ast.Assign)
                           for t in a.targets if isinstance(t, ast.Name) and
                           rdg in norm_text(a.value)}]
        ctx.floor('SM-ROLE', len(stores), 2, 'output_matrix stores')
        for st in stores:
            idx = [norm_text(e) for e in st.targets[0].slice.elts if norm_text(e) != ':']
            rd = st.value
            rd_idx = None
            if isinstance(rd, ast.Subscript):
                sl = rd.slice.elts if isinstance(rd.slice, ast.Tuple) else [rd.slice]
                rd_idx = [norm_text(e) for e in sl if norm_text(e) != ':'][0]
            okr = len(idx) == 2 and holds.get(idx[0]) == vars_[0] and \
                holds.get(rd_idx) == vars_[1] and \
                holds.get(idx[1]) == _ctor_roles(m).get('n_states', 'n_states')
            ctx.ob('SM-ROLE', okr, None, 'output_matrix: H[output axis, state] = reading[input '
                   'axis]', f=om, node=st,
                   why='output_matrix stores readings[%s] into H[%s]: row must be the output '
                       'axis (first letter), the reading the input axis (second letter), the '
                       'column the state index' % (rd_idx, ', '.join(idx)))
    m, tpl = prod['Parameters']
    for lit, (vars_, js) in tpl.items():
        if len(vars_) != 2:
            continue
        subs = [n for n in ast.walk(m.node) if isinstance(n, ast.Subscript) and
                norm_text(n.value) == 'self.transform' and isinstance(n.slice, ast.Tuple)]
        if not subs:
            # another spelling (a deviation matrix, np.nonzero, ...): SM-PARAMS executes the table
            # part of Parameters.apply and decides the same question semantically
            ctx.info('SM-ROLE', 'Parameters.apply does not index self.transform element-wise; '
                                'the column / element pairing is decided by SM-PARAMS')
            continue
        for sb in subs:
            idx = [norm_text(e) for e in sb.slice.elts]
            ctx.ob('SM-ROLE', idx == vars_, None,
                   'Parameters.apply: name letters (%s) = transform[%s]' % (vars_, idx), f=m,
                   node=sb, why='simulator table column sm_{%s}{%s} holds transform[%s]'
                                % (vars_[0], vars_[1], ', '.join(idx)))


def sm_count(ctx):
    ctx.rule('SM-COUNT', 'construction counters are paired with appends/stores on every path; '
             'final slices use the indexing counter')
    em = ctx.repo.klass('inertial_sensor.EstimationModel')
    m = em.methods['__init__']
    roles = _ctor_roles(m)
    L_states = roles.get('states', 'states')
    C_states = roles.get('n_states', 'n_states')
    counters = set()
    for n in ast.walk(m.node):
        if isinstance(n, ast.AugAssign) and isinstance(n.target, ast.Name) and \
                isinstance(n.op, ast.Add) and isinstance(n.value, ast.Constant) and \
                n.value.value == 1:
            counters.add(n.target.id)
    ctx.floor('SM-COUNT', len(counters), 3, 'counters')
    # array -> counters used per axis in stores
    used = {}

    def check_block(body):
        incs = {}
        for i, st in enumerate(body):
            if isinstance(st, ast.AugAssign) and isinstance(st.target, ast.Name) and \
                    st.target.id in counters:
                incs.setdefault(st.target.id, []).append(i)
        # uses of counters as store indices / appends in this block (not nested)
        for i, st in enumerate(body):
            if isinstance(st, ast.Assign) and isinstance(st.targets[0], ast.Subscript) and \
                    isinstance(st.targets[0].value, ast.Name):
                arr = st.targets[0].value.id
                sl = st.targets[0].slice
                idx = sl.elts if isinstance(sl, ast.Tuple) else [sl]
                for ax, e in enumerate(idx):
                    if isinstance(e, ast.Name) and e.id in counters:
                        used.setdefault(arr, {})[ax] = e.id
                        c = e.id
                        # a store indexed by counter c: c must be incremented later in this
                        # block or in an enclosing block after this statement (exactly once)
                        later = [j for j in incs.get(c, []) if j > i]
                        pending.append((st, c, bool(later)))
            if isinstance(st, ast.Expr) and isinstance(st.value, ast.Call) and \
                    isinstance(st.value.func, ast.Attribute) and \
                    st.value.func.attr == 'append' and \
                    norm_text(st.value.func.value) == L_states:
                later = [j for j in incs.get(C_states, []) if j > i]
                ctx.ob('SM-COUNT', len(later) == 1, None,
                       'states.append paired with one n_states += 1 in the same block', f=m,
                       node=st, why='a state name is appended without exactly one following '
                                    'n_states += 1 in the same block (%d found)' % len(later))
        for c, pos in incs.items():
            direct = False
            for st in body[:pos[0]]:
                if isinstance(st, ast.Assign) and isinstance(st.targets[0], ast.Subscript):
                    sl = st.targets[0].slice
                    idx = sl.elts if isinstance(sl, ast.Tuple) else [sl]
                    if any(isinstance(e, ast.Name) and e.id == c for e in idx):
                        direct = True
            ctx.ob('SM-COUNT', direct, None, 'increment of %s follows a store indexed by %s in '
                   'the same block' % (c, c), f=m, node=body[pos[0]],
                   why='%s is incremented in a block that stores nothing at index %s: the '
                       'counter advances on paths where no column/state was added' % (c, c))
            ctx.ob('SM-COUNT', len(pos) == 1, None, 'counter %s incremented once per block' % c,
                   f=m, node=body[pos[0]],
                   why='counter %s is incremented %d times in one block' % (c, len(pos)))
        for st in body:
            if isinstance(st, (ast.If, ast.For, ast.While)):
                check_block(st.body)
                if getattr(st, 'orelse', None):
                    check_block(st.orelse)
    pending = []
    check_block(m.node.body)
    # stores indexed by a counter must be followed by its increment within the same
    # innermost-or-enclosing conditional block
    for st, c, has_later in pending:
        ok = has_later or _later_in_enclosing(m.node, st, c)
        ctx.ob('SM-COUNT', ok, None, 'store indexed by %s is followed by %s += 1' % (c, c), f=m,
               node=st, why='`%s` uses counter %s but the counter is not advanced afterwards on '
                            'this path' % (norm_text(st), c))
    # every state append site count == increments of n_states sites
    n_app = sum(1 for n in ast.walk(m.node) if isinstance(n, ast.Call) and
                isinstance(n.func, ast.Attribute) and n.func.attr == 'append' and
                norm_text(n.func.value) == L_states)
    n_inc = sum(1 for n in ast.walk(m.node) if isinstance(n, ast.AugAssign) and
                norm_text(n.target) == C_states)
    ctx.ob('SM-COUNT', n_app == n_inc and n_app >= 2, None,
           '%d state appends, %d n_states increments' % (n_app, n_inc), f=m, key='app-inc',
           why='%d state names are appended but n_states is incremented at %d sites'
               % (n_app, n_inc))
    # final slices
    n_sl = 0
    for st in m.node.body:
        if isinstance(st, ast.Assign) and isinstance(st.targets[0], ast.Name) and \
                isinstance(st.value, ast.Subscript) and \
                norm_text(st.value.value) == st.targets[0].id and st.targets[0].id in used:
            arr = st.targets[0].id
            sl = st.value.slice
            idx = sl.elts if isinstance(sl, ast.Tuple) else [sl]
            for ax, e in enumerate(idx):
                want = used[arr].get(ax)
                if isinstance(e, ast.Slice) and e.upper is not None:
                    n_sl += 1
                    ctx.ob('SM-COUNT', norm_text(e.upper) == want and e.lower is None, None,
                           '%s axis %d cut at %s' % (arr, ax, want), f=m, node=st,
                           key='slice-%s-%d' % (arr, ax),
                           why='%s is filled along axis %d with counter %s but cut at %s'
                               % (arr, ax, want, norm_text(e.upper)))
                elif want is not None:
                    n_sl += 1
                    ctx.ob('SM-COUNT', False, None, '%s axis %d cut at %s' % (arr, ax, want),
                           f=m, node=st, key='slice-%s-%d' % (arr, ax),
                           why='%s axis %d is indexed by %s but not cut' % (arr, ax, want))
    ctx.floor('SM-COUNT', n_sl, 8, 'final slices')
    inv = {v: k for k, v in roles.items()}
    for c in sorted(counters):
        ok = inv.get(c) in ('n_states', 'n_noises', 'n_output_noises')
        ctx.ob('SM-COUNT', ok, None, 'counter %s is published as self.%s' % (c, inv.get(c)), f=m,
               key='attr-' + str(inv.get(c)),
               why='counter %s is not stored into one of n_states / n_noises / n_output_noises'
                   % c)
    # each published counter indexes the arrays of its own kind
    kinds = {'n_states': {'P': (0, 1), 'H': (1,), 'F': (0, 1), 'G': (0,)},
             'n_noises': {'G': (1,), 'q': (0,)}, 'n_output_noises': {'J': (1,), 'v': (0,)}}
    for attr, arrs in kinds.items():
        c = roles.get(attr)
        for aname, axes in arrs.items():
            loc = roles.get(aname)
            if loc is None or loc not in used:
                continue
            for ax in axes:
                got = used[loc].get(ax)
                if got is None:
                    continue
                ctx.ob('SM-COUNT', got == c, None, 'self.%s axis %d is indexed by the counter '
                       'published as self.%s' % (aname, ax, attr), f=m,
                       key='kind-%s-%d' % (aname, ax),
                       why='array stored as self.%s is filled along axis %d with counter %s, but '
                           'self.%s is %s' % (aname, ax, got, attr, c))
    ok = roles.get('states') is not None and any(
        isinstance(n, ast.Call) and isinstance(n.func, ast.Attribute) and
        n.func.attr == 'append' and norm_text(n.func.value) == roles.get('states')
        for n in ast.walk(m.node))
    ctx.ob('SM-COUNT', ok, None, 'self.states is the constructed list', f=m, key='attr-states',
           why='state names attribute is not the constructed list')


def _later_in_enclosing(fnode, st, c):
    """Is counter c incremented after statement st in an enclosing block (before the
    enclosing loop iterates)?"""
    from ..flow import path_to
    p = path_to(fnode.body, st)
    if not p:
        return False
    for block, idx in reversed(p[:-1]):
        enclosing = block[idx]
        if isinstance(enclosing, (ast.For, ast.While)):
            return False
        for later in block[idx + 1:]:
            if isinstance(later, ast.AugAssign) and norm_text(later.target) == c:
                return True
    return False


def _lazy_caches(em):
    """attributes filled on demand: some method contains
    `if self.<attr> is None: self.<attr> = <expression over self.*>` -> {attr: (method, if, value)}"""
    out = {}
    for mname, m in em.methods.items():
        for n in ast.walk(m.node):
            if isinstance(n, ast.If) and isinstance(n.test, ast.Compare) and \
                    len(n.test.ops) == 1 and isinstance(n.test.ops[0], ast.Is) and \
                    isinstance(n.test.comparators[0], ast.Constant) and \
                    n.test.comparators[0].value is None and \
                    isinstance(n.test.left, ast.Attribute) and \
                    norm_text(n.test.left.value) == 'self' and len(n.body) == 1 and \
                    isinstance(n.body[0], ast.Assign) and \
                    norm_text(n.body[0].targets[0]) == norm_text(n.test.left) and not n.orelse:
                out[n.test.left.attr] = (mname, n, n.body[0].value)
    return out


def _followed_by(fnode, st, pred):
    """is `st` followed, in its own block or in an enclosing one, by a statement satisfying
    pred - i.e. on every path from st to the end of the function?"""
    from ..flow import path_to
    p = path_to(fnode.body, st)
    if not p:
        return False
    for block, idx in reversed(p):
        for later in block[idx + 1:]:
            if pred(later):
                return True
    return False


def sm_const(ctx):
    """The model matrices an EstimationModel is constructed with (F, G, H, P, q, v, the index
    bookkeeping) are constants of the object: only the estimates (bias, transform - and caches
    derived from them) change after construction.  A method that stores into one of them,
    directly or through a local that is the attribute itself (`H = self.H; H[...] = ...`),
    changes every matrix handed out earlier and what the next call starts from."""
    ctx.rule('SM-CONST', 'no method of EstimationModel other than the constructor stores into the '
             'model matrices (directly or through an un-copied local alias)')
    em = ctx.repo.klass('inertial_sensor.EstimationModel')
    init = em.methods['__init__']
    consts = {norm_text(st.targets[0]).replace('self.', '') for st in ast.walk(init.node)
              if isinstance(st, ast.Assign) and len(st.targets) == 1 and
              isinstance(st.targets[0], ast.Attribute) and
              norm_text(st.targets[0].value) == 'self'}
    state = {'bias', 'transform'} | set(_lazy_caches(em))
    consts -= state
    ctx.floor('SM-CONST', len(consts), 6, 'constructor attributes')
    n = 0
    for mname, m in em.methods.items():
        if mname == '__init__':
            continue
        ctx.touch(m)
        alias = {}
        for st in ast.walk(m.node):
            if isinstance(st, ast.Assign) and len(st.targets) == 1 and \
                    isinstance(st.targets[0], ast.Name) and \
                    isinstance(st.value, ast.Attribute) and norm_text(st.value.value) == 'self' \
                    and st.value.attr in consts:
                alias[st.targets[0].id] = st.value.attr
        for st in ast.walk(m.node):
            tg = None
            if isinstance(st, ast.Assign):
                tg = st.targets[0]
            elif isinstance(st, ast.AugAssign):
                tg = st.target
            if tg is None:
                continue
            base = tg
            while isinstance(base, ast.Subscript):
                base = base.value
            hit = None
            if isinstance(base, ast.Attribute) and norm_text(base.value) == 'self' and \
                    base.attr in consts and (base is not tg or isinstance(st, ast.AugAssign)):
                hit = base.attr
            elif isinstance(base, ast.Name) and base.id in alias and \
                    (base is not tg or isinstance(st, ast.AugAssign)):
                # the alias must still be the attribute here: it was bound once, un-copied
                binds = [x for x in ast.walk(m.node) if isinstance(x, ast.Assign) and
                         any(isinstance(t_, ast.Name) and t_.id == base.id for t_ in x.targets)]
                if all(isinstance(x.value, ast.Attribute) for x in binds) or \
                        any(x.lineno <= st.lineno and isinstance(x.value, ast.Attribute) and
                            not any(y.lineno > x.lineno and y.lineno <= st.lineno
                                    for y in binds if y is not x) for x in binds):
                    hit = alias[base.id]
            if hit:
                n += 1
                ctx.ob('SM-CONST', False, None, '%s does not store into self.%s' % (mname, hit),
                       f=m, node=st, key='%s-%s' % (mname, hit),
                       why='%s stores into the model matrix self.%s (`%s`%s): the matrix is a '
                           'constant of the model - matrices returned by earlier calls change '
                           'with it, and two uses of one model object see each other\'s values'
                           % (mname, hit, norm_text(st)[:60],
                              '' if isinstance(base, ast.Attribute) else
                              ', `%s` being self.%s itself, not a copy' % (base.id, hit)))
    ctx.ob('SM-CONST', True, None, '%d methods scanned for stores into %s' % (len(em.methods) - 1,
                                                                           sorted(consts)),
           key='scanned')


def _float_typed(init, arg):
    """the prototype `self.<x>` of a `*_like` allocation was itself made a float array by the
    constructor (`np.asarray(..., dtype=float)`, `.astype(float)`, `np.zeros(...)`, ...)"""
    if arg is None:
        return False
    want = norm_text(arg)
    for st in ast.walk(init.node):
        if isinstance(st, ast.Assign) and norm_text(st.targets[0]) == want and \
                isinstance(st.value, ast.Call):
            c = st.value
            if any(k.arg == 'dtype' and norm_text(k.value) in ('float', 'np.float64', 'numpy.float64',
                                                              "'float'", "'float64'")
                   for k in c.keywords):
                return True
            if isinstance(c.func, ast.Attribute) and c.func.attr == 'astype' and c.args and \
                    norm_text(c.args[0]) in ('float', 'np.float64', 'numpy.float64'):
                return True
            if init.module.resolve(c.func) in ('numpy.zeros', 'numpy.ones', 'numpy.identity',
                                               'numpy.eye', 'numpy.empty') and \
                    not any(k.arg == 'dtype' for k in c.keywords):
                return True
    return False


def sm_accum(ctx):
    ctx.rule('SM-ACCUM', 'update_estimates: every write is += of the zipped state element')
    ctx.rule('SM-ATTRS', 'reset_estimates re-initialises every attribute that update_estimates '
             'mutates and that correct_increments / get_estimates read')
    em = ctx.repo.klass('inertial_sensor.EstimationModel')
    up = em.methods['update_estimates']
    loops = [n for n in ast.walk(up.node) if isinstance(n, ast.For)]
    ctx.need(len(loops) == 1, 'update_estimates loop not found')
    lp = loops[0]
    okz = isinstance(lp.iter, ast.Call) and norm_text(lp.iter.func) == 'zip' and \
        [norm_text(a) for a in lp.iter.args] == ['self.states', up.params[1]] and \
        isinstance(lp.target, ast.Tuple) and len(lp.target.elts) == 2
    ctx.ob('SM-ACCUM', okz, None, 'loop pairs self.states with the supplied vector', f=up, node=lp,
           key='zip', why='update_estimates does not iterate zip(self.states, x)')
    xi = norm_text(lp.target.elts[1]) if okz else None
    writes = [n for n in ast.walk(up.node) if isinstance(n, (ast.Assign, ast.AugAssign)) and
              'self.' in norm_text(n.targets[0] if isinstance(n, ast.Assign) else n.target)]
    ctx.floor('SM-ACCUM', len(writes), 2, 'estimate writes')
    mutated = set()
    for w in writes:
        tgt = w.targets[0] if isinstance(w, ast.Assign) else w.target
        base = tgt
        while isinstance(base, ast.Subscript):
            base = base.value
        mutated.add(norm_text(base).replace('self.', ''))
        ok = isinstance(w, ast.AugAssign) and isinstance(w.op, ast.Add) and \
            norm_text(w.value) == xi
        if not ok and isinstance(w, ast.Assign) and isinstance(tgt, ast.Attribute) and \
                isinstance(w.value, ast.Constant) and w.value.value is None and \
                tgt.attr in _lazy_caches(em):
            # invalidation of an attribute that is recomputed on demand (its consistency with
            # the estimates is SM-SIGN's obligation, its reset SM-ATTRS')
            ctx.ob('SM-ACCUM', True, None, '`%s` invalidates a cache that is filled on demand'
                   % norm_text(w)[:70], f=up, node=w, key='cache-inval-' + tgt.attr)
            continue
        if not ok and isinstance(w, ast.Assign) and isinstance(tgt, ast.Attribute):
            # a derived cache: a pure function of the model's own attributes, independent of
            # the update vector (it must then be covered by reset_estimates: SM-ATTRS)
            names = {n.id for n in ast.walk(w.value) if isinstance(n, ast.Name)}
            loopv = {n.id for n in ast.walk(lp.target) if isinstance(n, ast.Name)}
            if not (names & (loopv | {up.params[1]})) and 'self.' in norm_text(w.value):
                ctx.ob('SM-ACCUM', True, None, '`%s` is a cache derived from the accumulated '
                       'attributes' % norm_text(w)[:70], f=up, node=w, key='cache-' + tgt.attr)
                continue
        ctx.ob('SM-ACCUM', ok, None, '`%s` accumulates its own element' % norm_text(w), f=up,
               node=w, why='`%s` is not an additive accumulation of the state element: several '
                           'updates no longer equal one update with their sum' % norm_text(w))
    # length check present
    okl = any(isinstance(n, ast.If) and 'len(' in norm_text(n.test) and
              any(isinstance(x, ast.Raise) for x in n.body) for n in up.node.body)
    ctx.ob('SM-ACCUM', okl, None, 'length of x is checked against the state list', f=up,
           key='len', why='a vector of the wrong length is silently truncated by zip')
    rs = em.methods['reset_estimates']
    reset = {norm_text(st.targets[0]).replace('self.', '') for st in rs.node.body
             if isinstance(st, ast.Assign)}
    read = set()
    for mn in ('correct_increments', 'get_estimates'):
        mm = em.methods[mn]
        for n in ast.walk(mm.node):
            if isinstance(n, ast.Attribute) and isinstance(n.value, ast.Name) and \
                    n.value.id == 'self' and n.attr in mutated | reset:
                read.add(n.attr)
    ctx.ob('SM-ATTRS', mutated <= reset, None, 'reset %s covers mutated %s'
           % (sorted(reset), sorted(mutated)), f=rs, key='reset-covers',
           why='update_estimates mutates %s but reset_estimates only re-initialises %s: a second '
               'filter run with the same model object starts from stale estimates'
               % (sorted(mutated), sorted(reset)))
    ctx.ob('SM-ATTRS', mutated <= read, None, 'estimates %s are applied/read back' % sorted(read),
           f=em.methods['correct_increments'], key='read',
           why='%s is accumulated but never applied or read back' % sorted(mutated - read))
    # reset values are the neutral elements (identity / zeros) and equal the constructor's
    init = em.methods['__init__']
    iv = {norm_text(st.targets[0]).replace('self.', ''): norm_text(st.value)
          for st in init.node.body if isinstance(st, ast.Assign) and
          norm_text(st.targets[0]).startswith('self.')}
    if any(isinstance(st, ast.Expr) and isinstance(st.value, ast.Call) and
           norm_text(st.value.func) == 'self.reset_estimates' and not st.value.args
           for st in init.node.body):
        # the constructor initialises the estimates by calling reset_estimates itself
        for st in rs.node.body:
            if isinstance(st, ast.Assign):
                iv.setdefault(norm_text(st.targets[0]).replace('self.', ''), norm_text(st.value))
    # the estimates are float arrays whatever the user passed: an allocation `*_like(self.x)`
    # without dtype= takes the dtype of a constructor argument (integer-typed sd -> the element
    # updates `bias[k] += xi` drop the fractional part of every correction)
    for m_ in (init, rs):
        for st in ast.walk(m_.node):
            if isinstance(st, ast.Assign) and isinstance(st.value, ast.Call) and \
                    norm_text(st.targets[0]).replace('self.', '') in mutated and \
                    (em.module.resolve(st.value.func) or '') in (
                        'numpy.zeros_like', 'numpy.empty_like', 'numpy.ones_like',
                        'numpy.full_like') and \
                    not any(k.arg == 'dtype' for k in st.value.keywords) and \
                    not _float_typed(init, st.value.args[0] if st.value.args else None):
                ctx.ob('SM-ATTRS', False, None, 'estimate arrays are allocated as floats', f=m_,
                       node=st, key='dtype-' + norm_text(st.targets[0]),
                       why='`%s` allocates an estimate with the dtype of `%s`, a value the user '
                           'supplied: for an integer-typed argument the element-wise updates '
                           'truncate every correction (several updates no longer equal one update '
                           'with their sum; integer and float spellings of one model differ)'
                           % (norm_text(st)[:70], norm_text(st.value.args[0])[:30]
                              if st.value.args else '?'))
    # an estimate that update_estimates changes IN PLACE (element stores) must be reset to a
    # FRESH array: a reset that rebinds it to another attribute's array (`self.bias =
    # self._nominal_bias`) hands the accumulating code that very object, and the next reset
    # "restores" the accumulated values (round-2 seed C12-reset-aliases-nominal)
    inplace = set()
    for w in writes:
        tgt = w.targets[0] if isinstance(w, ast.Assign) else w.target
        if isinstance(tgt, ast.Subscript) or isinstance(w, ast.AugAssign):
            base = tgt
            while isinstance(base, ast.Subscript):
                base = base.value
            inplace.add(norm_text(base).replace('self.', ''))
    for st in rs.node.body:
        if isinstance(st, ast.Assign):
            a = norm_text(st.targets[0]).replace('self.', '')
            if a not in inplace:
                continue
            val = st.value
            if isinstance(val, (ast.Attribute, ast.Name)):
                ctx.ob('SM-ATTRS', False, None, 'reset value of %s is a fresh array' % a, f=rs,
                       node=st, key='fresh-' + a,
                       why='reset_estimates rebinds %s to the array object `%s`, which '
                           'update_estimates then changes element by element: the "nominal" value '
                           'accumulates the estimates and a later reset no longer restores the '
                           'neutral element' % (a, norm_text(val)))
            else:
                q_ = em.module.resolve(val.func) if isinstance(val, ast.Call) else None
                fresh = isinstance(val, ast.Call) and (
                    q_ in ('numpy.identity', 'numpy.eye', 'numpy.zeros', 'numpy.ones', 'numpy.empty',
                           'numpy.full', 'numpy.zeros_like', 'numpy.ones_like', 'numpy.full_like',
                           'numpy.empty_like', 'numpy.array', 'numpy.copy', 'numpy.diag') or
                    (isinstance(val.func, ast.Attribute) and val.func.attr == 'copy'))
                ctx.need(fresh, 'reset_estimates: value `%s` of %s not recognised as a fresh array'
                         % (norm_text(val)[:50], a))
                ctx.ob('SM-ATTRS', True, None, 'reset value of %s is a fresh array' % a, f=rs,
                       node=st, key='fresh-' + a)
    for st in rs.node.body:
        if isinstance(st, ast.Assign):
            a = norm_text(st.targets[0]).replace('self.', '')
            ctx.ob('SM-ATTRS', iv.get(a) == norm_text(st.value), None,
                   'reset value of %s equals the constructor value' % a, f=rs, node=st,
                   why='reset_estimates sets %s = %s, constructor sets %s'
                       % (a, norm_text(st.value), iv.get(a)))


def sm_sign(ctx):
    ctx.rule('SM-SIGN', 'correct_increments: solve(transform, (inc - bias*dt)^T)^T; output_matrix '
             'attributes +1 / +reading; get_estimates reports transform - I')
    ctx.rule('SM-UNITS', 'dt exponents: increment = rate*dt (bias, noise); white noise dt^-1/2 in '
             'rate mode; bias walk dt^1/2; correction uses bias*dt')
    em = ctx.repo.klass('inertial_sensor.EstimationModel')
    pm = ctx.repo.klass('inertial_sensor.Parameters')
    ci = em.methods['correct_increments']
    _sm_correct(ctx, em, ci)
    # constructor: H[axis, n_states] = 1
    init = em.methods['__init__']
    Hl = _ctor_roles(init).get('H', 'H')
    hs = [st for st in ast.walk(init.node) if isinstance(st, ast.Assign) and
          isinstance(st.targets[0], ast.Subscript) and norm_text(st.targets[0].value) == Hl and
          isinstance(st.value, ast.Constant)]
    # the row index is the loop variable of the enclosing `for <axis> in range(3)`
    def loop_var(st):
        from ..flow import path_to
        p_ = path_to(init.node.body, st) or []
        for blk, i in reversed(p_):
            if isinstance(blk[i], ast.For) and isinstance(blk[i].target, ast.Name):
                return blk[i].target.id
        return None
    read_ = len(hs) >= 1 and all(isinstance(st.targets[0].slice, ast.Tuple) and
                                 loop_var(st) is not None and
                                 isinstance(st.targets[0].slice.elts[0], ast.Name) for st in hs)
    if read_:
        ok = all(st.value.value == 1 for st in hs) and all(
            norm_text(st.targets[0].slice.elts[0]) == loop_var(st) for st in hs)
        ctx.ob('SM-SIGN', ok, None, 'bias state enters the reading error with +1 on its own axis',
               f=init, node=(hs[0] if hs else init.node), key='H-bias',
               why='bias column of H is not +1 on the row of its own axis')
    else:
        # another way of filling H: SM-MODEL executes the constructor for a covering family of
        # enable masks and decides every entry of H
        ctx.info('SM-SIGN', 'the bias entries of H are not stored as `H[<axis loop variable>, '
                            '<state>] = 1`; decided by SM-MODEL')
    ge = em.methods['get_estimates']
    t = [n for n in ast.walk(ge.node) if isinstance(n, ast.BinOp) and isinstance(n.op, ast.Sub)
         and 'self.transform' in norm_text(n.left)]
    if len(t) == 1 and isinstance(t[0].left, ast.Subscript) and \
            isinstance(t[0].left.slice, ast.Tuple) and len(t[0].left.slice.elts) == 2:
        r_, c_ = [norm_text(e) for e in t[0].left.slice.elts]
        rt = norm_text(t[0].right)
        ok = ('%s == %s' % (r_, c_) in rt or '%s == %s' % (c_, r_) in rt) and \
            rt.replace('(', '').startswith('1 if')
        ctx.ob('SM-SIGN', ok, None, 'reported scale/misalignment = transform - identity', f=ge,
               node=(t[0] if t else ge.node), key='get',
               why='get_estimates does not report transform - I')
    else:
        ctx.info('SM-SIGN', 'get_estimates does not spell `transform[r, c] - (1 if r == c else 0)`; '
                            'what it reports is decided by SM-MODEL (estimates read back)')
    # SM-UNITS in Parameters.apply
    ap = pm.methods['apply']
    from ..flow import const_arms
    branches = const_arms(ap.node, ('rate', 'increment'))
    ctx.need(set(branches) >= {'rate', 'increment'}, 'Parameters.apply sensor-type branches '
             'not found')
    dtv = None
    for st in ap.node.body:
        if isinstance(st, ast.Assign) and isinstance(st.targets[0], ast.Name) and \
                'np.diff' in norm_text(st.value) and 'index' in norm_text(st.value):
            dtv = st.targets[0].id
    ctx.need(dtv is not None, 'Parameters.apply: dt not found')
    exps = {}
    for mode, body in branches.items():
        for st in body:
            if isinstance(st, ast.AugAssign) and isinstance(st.op, ast.Add):
                txt = norm_text(st.value)
                kind = 'noise' if 'self.noise' in txt else ('bias' if 'bias' in txt else None)
                if kind:
                    exps[(mode, kind)] = (_dt_exponent(st.value, dtv), st)
    for kind in ('bias', 'noise'):
        r, i = exps.get(('rate', kind)), exps.get(('increment', kind))
        ctx.need(r is not None and i is not None, 'Parameters.apply: %s terms not found' % kind)
        ok = r[0] is not None and i[0] is not None and i[0] - r[0] == 1
        ctx.ob('SM-UNITS', ok, None, '%s term: increment exponent %s = rate exponent %s + 1'
               % (kind, i[0], r[0]), f=ap, node=i[1], key='inc-rate-' + kind,
               why='%s term scales as dt^%s for increments and dt^%s for rates: an increment is '
                   'a rate integrated over dt' % (kind, i[0], r[0]))
    r = exps.get(('rate', 'noise'))
    ctx.ob('SM-UNITS', r[0] == Fraction(-1, 2), None, 'white noise on a rate sample: dt^-1/2',
           f=ap, node=r[1], key='noise-rate',
           why='white noise of root-PSD n gives rate samples with sd n*dt^-1/2; code uses dt^%s'
               % r[0])
    r = exps.get(('rate', 'bias'))
    ctx.ob('SM-UNITS', r[0] == 0, None, 'bias on a rate sample: dt^0', f=ap, node=r[1],
           key='bias-rate', why='bias enters rate samples with dt^%s' % r[0])
    # bias walk
    walk = None
    for st in ap.node.body:
        if isinstance(st, ast.Assign) and 'self.bias_walk' in norm_text(st.value) and \
                'cumsum' in norm_text(st.value):
            for n in ast.walk(st.value):
                if isinstance(n, ast.Call) and norm_text(n.func).endswith('cumsum'):
                    walk = (_dt_exponent(n.args[0], dtv), st)
    ctx.ob('SM-UNITS', walk is not None and walk[0] == Fraction(1, 2), None,
           'bias walk increments scale as dt^1/2', f=ap,
           node=(walk[1] if walk else ap.node), key='walk',
           why='bias random walk is accumulated with dt exponent %s, expected 1/2'
               % (walk[0] if walk else None))


def _dt_exponent(node, dt):
    """Exponent of `dt` in a product expression (None when not a pure product)."""
    if isinstance(node, ast.Name):
        return Fraction(1) if node.id == dt else Fraction(0)
    if isinstance(node, ast.BinOp):
        if isinstance(node.op, ast.Mult):
            a, b = _dt_exponent(node.left, dt), _dt_exponent(node.right, dt)
            return None if a is None or b is None else a + b
        if isinstance(node.op, ast.Div):
            a, b = _dt_exponent(node.left, dt), _dt_exponent(node.right, dt)
            return None if a is None or b is None else a - b
        if isinstance(node.op, ast.Pow):
            a = _dt_exponent(node.left, dt)
            try:
                k = Fraction(repr(ast.literal_eval(node.right)))
            except Exception:
                return None
            return None if a is None else a * k
        if isinstance(node.op, (ast.Add, ast.Sub)):
            a, b = _dt_exponent(node.left, dt), _dt_exponent(node.right, dt)
            return a if a == b else None
    if isinstance(node, ast.UnaryOp):
        return _dt_exponent(node.operand, dt)
    if isinstance(node, ast.Call):
        if norm_text(node.func).endswith('sqrt') and node.args:
            a = _dt_exponent(node.args[0], dt)
            return None if a is None else a / 2
        return Fraction(0)
    if isinstance(node, (ast.Attribute, ast.Constant, ast.Subscript)):
        return Fraction(0)
    return None


# -------------------------------------------------------------------- SM-APPLY
from ..expr import SymEval, SArray, Rec, Obj, Opaque, Unsupported      # noqa: E402
from ..nf import Alg, Rat                                               # noqa: E402


class _AH:
    """noise-free evaluation of Parameters.apply for the generic sample."""

    def __init__(self):
        self.frame = None

    def compare(self, ev, node, a, b):
        # the transform and the bias are GENERIC here (free symbols): an (in)equality between
        # expressions that differ as polynomials is decided the way it is for almost every value
        # (which elements get a column in the parameter table is SM-PARAMS' question, not this
        # rule's)
        A = ev.A
        if len(node.ops) != 1 or not isinstance(node.ops[0], (ast.Eq, ast.NotEq)):
            return None
        try:
            d = A.sub(ev.rat(a), ev.rat(b))
        except Exception:
            return None
        if A.is_const(d) or not all(x[0] in 'tb' and x[1:].isdigit() for x in A.atoms_of(d)):
            return None
        return isinstance(node.ops[0], ast.NotEq)

    def attr(self, ev, base, a, node):
        if isinstance(base, Opaque) and base.tag == 'rng':
            A = ev.A
            return lambda *x, **k: SArray((3,), {(i,): A.const(0) for i in range(3)}, None, True)
        if isinstance(base, Opaque) and base.tag == 'index':
            return None
        return None

    def call(self, ev, q, node, args, kwargs, env):
        A = ev.A
        if q == 'numpy.hstack' and isinstance(args[0], (list, tuple)) and len(args[0]) == 2 and \
                isinstance(args[0][1], Opaque):
            return A.sym('dt')
        if q == 'numpy.diff':
            return Opaque('diff')
        if q == 'numpy.cumsum':
            # noise-free evaluation: the accumulated draws are zero; anything else is not modelled
            v = args[0]
            zero = (isinstance(v, Rat) and A.is_zero(v)) or (
                isinstance(v, SArray) and all(A.is_zero(v.get(i)) for i in v.indices()))
            return v if zero else Opaque('cumsum')
        if q == 'pandas.DataFrame':
            if 'data' in kwargs or args:
                self.frame = kwargs.get('data', args[0] if args else None)
            return Opaque('frame')
        return NotImplemented


def sm_apply(ctx):
    ctx.rule('SM-APPLY', 'noise-free Parameters.apply(readings) == T @ x + bias * dt^k per sample '
             '(k = 0 rate, 1 increment), with T = the transform whose [out, in] entries the '
             'parameter table reports')
    repo = ctx.repo
    pm = repo.klass('inertial_sensor.Parameters')
    ap = pm.methods['apply']
    for mode, k in (('rate', 0), ('increment', 1)):
        h = _AH()
        ev = SymEval(repo, Alg(), hooks=h)
        A = ev.A
        o = Obj(pm)
        T = SArray((3, 3), {(i, j): A.sym('t%d%d' % (i, j)) for i in range(3) for j in range(3)})
        b = SArray((3,), {(i,): A.sym('b%d' % i) for i in range(3)})
        z3 = SArray((3,), {(i,): A.const(0) for i in range(3)})
        o.attrs.update(transform=T, bias=b, noise=z3, bias_walk=z3, rng=Opaque('rng'),
                       data_frame=None)
        x = Rec({'c%d' % i: A.sym('x%d' % i) for i in range(3)}, 'frame', index=Opaque('index'))
        try:
            ev.call_function(ap, [x, mode], {}, o)
        except Unsupported as e:
            raise AnalysisError('Parameters.apply (%s) not analysable: %s' % (mode, e))
        res = h.frame
        ctx.need(isinstance(res, SArray) and res.shape == (3,),
                 'Parameters.apply (%s): returned data not recognised' % mode)
        dt = A.sym('dt')
        bad = []
        for i in range(3):
            want = A.mul(b.get((i,)), A.powi(dt, k))
            for j in range(3):
                want = A.add(want, A.mul(T.get((i, j)), A.sym('x%d' % j)))
            if not A.eq(res.get((i,)), want):
                bad.append('xyz'[i])
        ctx.ob('SM-APPLY', not bad, None, "%s: output[i] = sum_j T[i, j] x[j] + bias[i] dt^%d"
               % (mode, k), f=ap, key='apply-' + mode,
               why="%s-type simulation (axes %s) does not apply x_out = T @ x + bias*dt^%d: the "
                   "transform is applied transposed or the bias scaling is wrong, so the "
                   "parameter table (sm_<out><in> = T[out, in]) and the estimator's correction "
                   "no longer describe the simulated error" % (mode, bad, k))


# ----------------------------------------------------------------------- SM-GATE
class _Undecided(Exception):
    pass


def _pred(e, env):
    """Own semantics of the small pure predicates used as enabling flags."""
    if isinstance(e, ast.Constant):
        return e.value
    if isinstance(e, ast.Name):
        if e.id in env:
            return env[e.id]
        raise _Undecided(e.id)
    if isinstance(e, ast.UnaryOp) and isinstance(e.op, ast.Not):
        return not _pred(e.operand, env)
    if isinstance(e, ast.BoolOp):
        vals = [_pred(x, env) for x in e.values]
        if isinstance(e.op, ast.And):
            r = True
            for x in vals:
                r = r and x
            return r
        r = False
        for x in vals:
            r = r or x
        return r
    if isinstance(e, ast.Compare) and len(e.ops) == 1:
        a, b = _pred(e.left, env), _pred(e.comparators[0], env)
        op = e.ops[0]
        table = {ast.Eq: lambda: a == b, ast.NotEq: lambda: a != b, ast.Gt: lambda: a > b,
                 ast.GtE: lambda: a >= b, ast.Lt: lambda: a < b, ast.LtE: lambda: a <= b,
                 ast.Is: lambda: a is b, ast.IsNot: lambda: a is not b}
        if type(op) in table:
            return table[type(op)]()
        raise _Undecided('compare')
    if isinstance(e, ast.Call) and isinstance(e.func, ast.Name) and not e.keywords:
        args = [_pred(x, env) for x in e.args]
        fn = e.func.id
        if fn == 'bool' and len(args) == 1:
            return bool(args[0]) if not isinstance(args[0], list) else len(args[0]) > 0
        if fn == 'len' and len(args) == 1 and isinstance(args[0], (list, tuple)):
            return len(args[0])
        if fn == 'any' and len(args) == 1 and isinstance(args[0], list):
            return any(x != 0 for x in args[0])          # truth of an int is "non-zero"
        if fn == 'all' and len(args) == 1 and isinstance(args[0], list):
            return all(x != 0 for x in args[0])
        if fn == 'sum' and len(args) == 1 and isinstance(args[0], list):
            return sum(args[0])
        if fn in ('max', 'min') and len(args) == 1 and isinstance(args[0], list) and args[0]:
            return max(args[0]) if fn == 'max' else min(args[0])
        if fn in ('list', 'tuple', 'sorted') and len(args) == 1 and isinstance(args[0], list):
            return list(args[0])
        raise _Undecided(fn)
    if isinstance(e, ast.List) and not e.elts:
        return []
    raise _Undecided(type(e).__name__)


def sm_gate(ctx):
    ctx.rule('SM-GATE', 'a flag that gates the use of a list of state / axis indices is true '
             'exactly when the list is non-empty (index 0 is a valid element: the flag is decided '
             'by length, never by element values)')
    em = ctx.repo.klass('inertial_sensor.EstimationModel')
    init = em.methods.get('__init__')
    ctx.need(init is not None, 'EstimationModel.__init__ missing')
    ctx.touch(init)
    lists = set()
    for n in ast.walk(init.node):
        if isinstance(n, ast.Assign) and len(n.targets) == 1 and \
                isinstance(n.targets[0], ast.Name) and isinstance(n.value, ast.List) and \
                not n.value.elts:
            lists.add(n.targets[0].id)
    appended = {}
    for n in ast.walk(init.node):
        if isinstance(n, ast.Call) and isinstance(n.func, ast.Attribute) and \
                n.func.attr == 'append' and isinstance(n.func.value, ast.Name) and \
                n.func.value.id in lists and n.args:
            appended.setdefault(n.func.value.id, []).append(n.args[0])
    # index lists: what is appended is a range() loop variable or an integer counter
    loopvars = {n.target.id for n in ast.walk(init.node) if isinstance(n, ast.For) and
                isinstance(n.target, ast.Name) and isinstance(n.iter, ast.Call) and
                norm_text(n.iter.func) == 'range'}
    counters = {n.target.id for n in ast.walk(init.node) if isinstance(n, ast.AugAssign) and
                isinstance(n.target, ast.Name) and isinstance(n.value, ast.Constant)}
    index_lists = {k for k, vs in appended.items()
                   if all(isinstance(v, ast.Name) and v.id in loopvars | counters for v in vs)}
    # gating attributes: read in a boolean test by some method
    gates = set()
    for m in em.methods.values():
        for n in ast.walk(m.node):
            tests = []
            if isinstance(n, (ast.If, ast.IfExp, ast.While)):
                tests.append(n.test)
            for t in tests:
                for x in ast.walk(t):
                    if isinstance(x, ast.Attribute) and isinstance(x.value, ast.Name) and \
                            x.value.id == 'self':
                        gates.add(x.attr)
    witnesses = [[], [0], [0, 0], [2], [0, 1], [1, 2]]
    n_dec = 0
    for st in ast.walk(init.node):
        if not (isinstance(st, ast.Assign) and len(st.targets) == 1 and
                isinstance(st.targets[0], ast.Attribute) and
                isinstance(st.targets[0].value, ast.Name) and
                st.targets[0].value.id == 'self' and st.targets[0].attr in gates):
            continue
        used = {x.id for x in ast.walk(st.value) if isinstance(x, ast.Name)} & index_lists
        if not used or isinstance(st.value, ast.Name):
            continue
        bad = None
        try:
            for w in witnesses:
                got = _pred(st.value, {k: list(w) for k in used})
                if bool(got) != (len(w) > 0):
                    bad = (w, got)
                    break
        except _Undecided as e:
            ctx.ob('SM-GATE', None, None, 'flag %s: predicate not evaluable (%s)'
                   % (st.targets[0].attr, e), f=init, node=st)
            continue
        n_dec += 1
        ctx.ob('SM-GATE', bad is None, None,
               "flag '%s' = `%s` is true exactly when %s is non-empty"
               % (st.targets[0].attr, norm_text(st.value), sorted(used)), f=init, node=st,
               key='gate-' + st.targets[0].attr,
               why="flag '%s' = `%s` evaluates to %r for the index list %r: a model whose only "
                   "enabled terms have index 0 (x axis / first state) is treated as having "
                   "none, so the part of the model gated by the flag is silently skipped"
                   % (st.targets[0].attr, norm_text(st.value), bad[1] if bad else None,
                      bad[0] if bad else None))
    ctx.floor('SM-GATE', n_dec, 1, 'gating flags computed from index lists')


def _sm_correct(ctx, em, ci):
    """corrected rows == T^-1 (x - bias dt): as a matrix identity C == (X - B) T^-T, evaluated in
    the non-commutative normal form; a cached inverse attribute is accepted when the class
    keeps the invariant `cache == inv(transform)` in every method that writes either."""
    from .kal import NCAlg, NC
    A = NCAlg()
    res = lambda n: ci.module.resolve(n, ci.local_names())
    at = A.atom
    A.inverse['T'] = 'inv(T)'
    A.inverse['inv(T)'] = 'T'
    # cached inverses: attribute -> (holds, reason)
    caches = {}
    writers = {}
    for mname, m in em.methods.items():
        for st in ast.walk(m.node):
            if isinstance(st, ast.Assign) and isinstance(st.targets[0], ast.Attribute) and \
                    norm_text(st.targets[0].value) == 'self':
                writers.setdefault(st.targets[0].attr, []).append((mname, m, st))
    def is_ident(v):
        return isinstance(v, ast.Call) and (em.module.resolve(v.func) or '') in (
            'numpy.identity', 'numpy.eye')
    lazy = _lazy_caches(em)
    for attr, ws in writers.items():
        if not any(isinstance(st.value, ast.Call) and (em.module.resolve(st.value.func) or '')
                   in ('numpy.linalg.inv', 'scipy.linalg.inv') and st.value.args and
                   norm_text(st.value.args[0]) == 'self.transform' for _, _, st in ws):
            continue
        bad = None
        is_lazy = attr in lazy
        for mname, m, st in ws:
            v = st.value
            inv_ok = isinstance(v, ast.Call) and (em.module.resolve(v.func) or '') in (
                'numpy.linalg.inv', 'scipy.linalg.inv') and \
                norm_text(v.args[0]) == 'self.transform'
            id_ok = is_ident(v) and any(
                isinstance(s2, ast.Assign) and norm_text(s2.targets[0]) == 'self.transform' and
                is_ident(s2.value) for s2 in ast.walk(m.node))
            none_ok = is_lazy and isinstance(v, ast.Constant) and v.value is None
            if not (inv_ok or id_ok or none_ok):
                bad = 'it is set to `%s` in %s' % (norm_text(v)[:40], mname)
        # every write of self.transform (whole or element) is followed, on the way out of the
        # method, by a refresh (or, for a cache filled on demand, an invalidation) of the cache
        is_store = lambda x: isinstance(x, ast.Assign) and \
            norm_text(x.targets[0]) == 'self.' + attr
        for mname, m in em.methods.items():
            for n in ast.walk(m.node):
                if not isinstance(n, (ast.Assign, ast.AugAssign)):
                    continue
                tx = norm_text(n.targets[0] if isinstance(n, ast.Assign) else n.target)
                if not (tx == 'self.transform' or tx.startswith('self.transform[')):
                    continue
                if not _followed_by(m.node, n, lambda x: any(is_store(y) for y in ast.walk(x))
                                    and not isinstance(x, (ast.If, ast.For, ast.While))) \
                        and bad is None:
                    bad = '%s changes self.transform without refreshing it' % mname
        if is_lazy and bad is None:
            # the reader fills the cache before using it
            g_m, g_if, g_v = lazy[attr]
            for mname, m in em.methods.items():
                reads = [n for n in ast.walk(m.node) if isinstance(n, ast.Attribute) and
                         norm_text(n) == 'self.' + attr and isinstance(n.ctx, ast.Load) and
                         not any(n is y for g in ast.walk(m.node) if isinstance(g, ast.If) and
                                 norm_text(g.test) == norm_text(g_if.test)
                                 for y in ast.walk(g.test))]
                if not reads:
                    continue
                guards = [g for g in m.node.body if isinstance(g, ast.If) and
                          norm_text(g.test) == norm_text(g_if.test) and len(g.body) == 1 and
                          norm_text(g.body[0]) == norm_text(g_if.body[0])]
                if not guards or min(r.lineno for r in reads) < guards[0].lineno:
                    bad = '%s reads it without filling it first (it is None after an update)' \
                        % mname
        caches[attr] = bad

    def ev(e):
        if isinstance(e, ast.Attribute) and e.attr in ('T',):
            return A.T(ev(e.value))
        if isinstance(e, ast.Attribute) and e.attr == 'values':
            return ev(e.value)
        if isinstance(e, ast.Attribute) and norm_text(e.value) == 'self':
            if e.attr == 'transform':
                return at('T')
            if e.attr in caches:
                if caches[e.attr] is not None:
                    raise _CacheBroken(e.attr, caches[e.attr])
                return at('inv(T)')
            if e.attr == 'bias':
                return at('b')
            raise AnalysisError('correct_increments reads self.%s' % e.attr)
        if isinstance(e, ast.Name):
            if e.id == ci.params[2]:
                return at('X')
            if e.id == ci.params[1]:
                return at('dt')
            for st in ast.walk(ci.node):
                if isinstance(st, ast.Assign) and len(st.targets) == 1 and \
                        isinstance(st.targets[0], ast.Name) and st.targets[0].id == e.id and \
                        st.lineno < e.lineno:
                    last = st
            try:
                return ev(last.value)
            except UnboundLocalError:
                raise AnalysisError('correct_increments: `%s`' % e.id)
        if isinstance(e, ast.BinOp):
            if isinstance(e.op, ast.MatMult):
                return A.mul(ev(e.left), ev(e.right))
            if isinstance(e.op, ast.Sub):
                return A.sub(ev(e.left), ev(e.right))
            if isinstance(e.op, ast.Add):
                return A.add(ev(e.left), ev(e.right))
            if isinstance(e.op, ast.Mult):
                # bias * dt (row broadcast): one atom B = bias dt
                t = {norm_text(e.left), norm_text(e.right)}
                l, r = ev(e.left), ev(e.right)
                keys = {l.key(), r.key()}
                if keys == {at('b').key(), at('dt').key()}:
                    return at('B')
            raise AnalysisError('correct_increments: operator in `%s`' % norm_text(e)[:50])
        if isinstance(e, ast.Call):
            q = res(e.func) or ''
            if q in ('numpy.linalg.solve', 'scipy.linalg.solve') and len(e.args) == 2:
                a_ = ev(e.args[0])
                if a_.key() == at('T').key():
                    return A.mul(at('inv(T)'), ev(e.args[1]))
                if a_.key() == A.T(at('T')).key():
                    return A.mul(A.T(at('inv(T)')), ev(e.args[1]))
                raise AnalysisError('correct_increments: solve with `%s`' % norm_text(e.args[0]))
            if q in ('numpy.linalg.inv', 'scipy.linalg.inv') and e.args:
                a_ = ev(e.args[0])
                if a_.key() == at('T').key():
                    return at('inv(T)')
                if a_.key() == A.T(at('T')).key():
                    return A.T(at('inv(T)'))
            if q in ('numpy.asarray', 'numpy.array') and e.args:
                return ev(e.args[0])
            if q == 'numpy.transpose' and len(e.args) == 1:
                return A.T(ev(e.args[0]))
            if isinstance(e.func, ast.Attribute) and e.func.attr in ('reshape', 'copy', 'to_numpy'):
                return ev(e.func.value)
            if isinstance(e.func, ast.Attribute) and e.func.attr == 'transpose' and not e.args:
                return A.T(ev(e.func.value))
            if isinstance(e.func, ast.Attribute) and e.func.attr == 'dot' and len(e.args) == 1:
                return A.mul(ev(e.func.value), ev(e.args[0]))
        raise AnalysisError('correct_increments: expression `%s`' % norm_text(e)[:50])
    # the corrected array: first positional / data argument of the returned tables
    target = None
    for n in ast.walk(ci.node):
        if isinstance(n, ast.Return) and isinstance(n.value, ast.Call) and n.value.args:
            target = n.value.args[0]
    ctx.need(target is not None, 'correct_increments: returned data not found')
    want = A.mul(A.sub(at('X'), at('B')), A.T(at('inv(T)')))
    node = target
    try:
        got = ev(target)
        ok = A.eq(got, want)
        why = ('corrected increments are `%s`, not T^-1 (increments - bias dt) row by row'
               % got.key()[:120])
    except _CacheBroken as e:
        ok = False
        why = ('correct_increments uses the cached inverse self.%s, but %s: the cache is not '
               'inv(self.transform) at every call' % (e.args[0], e.args[1]))
    ctx.ob('SM-SIGN', ok, None, 'corrected = T^-1 (increments - bias dt), row-wise', f=ci,
           node=node, key='correct', why=why)
    # every other return: the same corrected data, or the input itself under a test that pins the
    # estimates to their nominal values EXACTLY (then the correction is the identity)
    from ..flow import path_to
    for n in ast.walk(ci.node):
        if not isinstance(n, ast.Return) or n.value is None:
            continue
        if isinstance(n.value, ast.Call) and n.value.args and n.value.args[0] is target:
            continue
        v = n.value
        okr, whyr = False, ''
        if isinstance(v, ast.Call) and v.args:
            try:
                okr = A.eq(ev(v.args[0]), want)
            except (_CacheBroken, AnalysisError):
                okr = False
            whyr = 'returns `%s`, which is not the corrected data' % norm_text(v)[:60]
        elif isinstance(v, ast.Name) and v.id in ci.params:
            conds = []
            for blk, i in (path_to(ci.node.body, n) or []):
                pass
            # the guarding tests: the enclosing ifs of the return
            guards = [norm_text(x.test) for x in ast.walk(ci.node) if isinstance(x, ast.If) and
                      any(y is n for y in ast.walk(x))]
            g = ' and '.join(guards)
            exact_t = any(k in g for k in ('np.array_equal(self.transform, np.identity(3))',
                                           'np.array_equal(self.transform, np.eye(3))',
                                           '(self.transform == np.identity(3)).all()',
                                           '(self.transform == np.eye(3)).all()'))
            exact_b = any(k in g for k in ('not np.any(self.bias)', 'not self.bias.any()',
                                           '(self.bias == 0).all()', 'np.all(self.bias == 0)'))
            okr = exact_t and exact_b and ' or ' not in g
            whyr = ('returns the uncorrected input under `%s`: unless the test pins transform to '
                    'the identity and bias to zero exactly, estimates below the threshold are '
                    'silently not applied' % g[:100])
        else:
            whyr = 'returns `%s`' % norm_text(v)[:60]
        ctx.ob('SM-SIGN', okr, None, 'every return of correct_increments is the corrected data', f=ci,
               node=n, key='correct-return-' + norm_text(v)[:40],
               why='correct_increments has a second exit that %s' % whyr)
    # SM-UNITS: the bias is removed as bias * dt^1
    subs = [n for n in ast.walk(ci.node) if isinstance(n, ast.BinOp) and isinstance(n.op, ast.Sub)
            and 'self.bias' in norm_text(n.right) and 'self.bias' not in norm_text(n.left)]
    if subs:
        e_ = _dt_exponent(subs[0].right, 'dt')
        ctx.ob('SM-UNITS', e_ == 1, None, 'correction removes bias * dt^1', f=ci, node=subs[0],
               key='corr-dt', why='bias is removed from increments as `%s` (dt exponent %s)'
                                  % (norm_text(subs[0].right), e_))
    else:
        ctx.ob('SM-UNITS', False, None, 'correction removes bias * dt^1', f=ci, key='corr-dt',
               why='the bias is not subtracted from the increments')


class _CacheBroken(Exception):
    pass


# ----------------------------------------------------------------------- SM-TABLE
def _npred(e, env, texts):
    """numeric predicate evaluator (own semantics) for enabling conditions of table columns"""
    import math
    t = norm_text(e)
    if t in texts:
        return texts[t]
    if isinstance(e, ast.Constant) and isinstance(e.value, (int, float, bool)):
        return e.value
    if isinstance(e, ast.Name):
        if e.id in env:
            return env[e.id]
        raise _Undecided(e.id)
    if isinstance(e, ast.UnaryOp):
        v = _npred(e.operand, env, texts)
        if isinstance(e.op, ast.Not):
            return not v
        if isinstance(e.op, ast.USub):
            return -v
    if isinstance(e, ast.BoolOp):
        vals = [_npred(x, env, texts) for x in e.values]
        return all(vals) if isinstance(e.op, ast.And) else any(vals)
    if isinstance(e, ast.BinOp):
        a, b = _npred(e.left, env, texts), _npred(e.right, env, texts)
        ops = {ast.Add: lambda: a + b, ast.Sub: lambda: a - b, ast.Mult: lambda: a * b,
               ast.Div: lambda: a / b}
        if type(e.op) in ops:
            return ops[type(e.op)]()
    if isinstance(e, ast.Compare) and len(e.ops) == 1:
        a, b = _npred(e.left, env, texts), _npred(e.comparators[0], env, texts)
        table = {ast.Eq: a == b, ast.NotEq: a != b, ast.Gt: a > b, ast.GtE: a >= b,
                 ast.Lt: a < b, ast.LtE: a <= b}
        if type(e.ops[0]) in table:
            return table[type(e.ops[0])]
    if isinstance(e, ast.Call):
        fn = norm_text(e.func)
        args = [_npred(x, env, texts) for x in e.args]
        kw = {k.arg: _npred(k.value, env, texts) for k in e.keywords}
        if fn in ('abs', 'np.abs', 'np.fabs', 'math.fabs', 'numpy.abs') and len(args) == 1:
            return abs(args[0])
        if fn in ('np.isclose', 'numpy.isclose', 'np.allclose', 'numpy.allclose') and \
                len(args) >= 2:
            rtol = kw.get('rtol', args[2] if len(args) > 2 else 1e-5)
            atol = kw.get('atol', args[3] if len(args) > 3 else 1e-8)
            return abs(args[0] - args[1]) <= atol + rtol * abs(args[1])
        if fn == 'math.isclose' and len(args) >= 2:
            rel = kw.get('rel_tol', 1e-9)
            ab = kw.get('abs_tol', 0.0)
            return abs(args[0] - args[1]) <= max(rel * max(abs(args[0]), abs(args[1])), ab)
        if fn in ('bool', 'float') and len(args) == 1:
            return args[0]
    raise _Undecided(t[:40])


def sm_table(ctx):
    ctx.rule('SM-TABLE', 'Parameters.apply writes the parameter-table column of a term exactly when '
             'the parameter differs from its nominal value (bias or walk non-zero; transform '
             'entry != 1 on / 0 off the diagonal): the table is then named like the estimator '
             'whose enabled terms generated the parameters, however small they are')
    pm = ctx.repo.klass('inertial_sensor.Parameters')
    ap = pm.methods['apply']
    ctx.touch(ap)
    n = 0
    deltas = [0.0, 1e-12, -3e-9, 2e-6, -1e-3, 0.05]
    for st in ast.walk(ap.node):
        if not isinstance(st, ast.If):
            continue
        cols = [s2 for s2 in st.body if isinstance(s2, ast.Assign) and
                isinstance(s2.targets[0], ast.Subscript) and
                isinstance(s2.targets[0].slice, ast.JoinedStr) and
                'data_frame' in norm_text(s2.targets[0].value)]
        if not cols:
            continue
        tpl = ''.join(v.value for v in cols[0].targets[0].slice.values
                      if isinstance(v, ast.Constant))
        kind = 'bias' if tpl.startswith('bias') else 'sm'
        # local definitions in the enclosing block (nominal / actual)
        defs = {}
        from ..flow import path_to
        pth = path_to(ap.node.body, st) or []
        for blk, i in pth:
            for s2 in blk[:i]:
                if isinstance(s2, ast.Assign) and len(s2.targets) == 1 and \
                        isinstance(s2.targets[0], ast.Name):
                    defs[s2.targets[0].id] = s2.value
        bad = None
        try:
            if kind == 'sm':
                for nominal in (0, 1):
                    for d in deltas:
                        env, texts = {}, {}
                        for nm, v in defs.items():
                            tv = norm_text(v)
                            if 'transform[' in tv:
                                env[nm] = nominal + d
                            elif isinstance(v, ast.IfExp):
                                env[nm] = nominal
                        for x in ast.walk(st.test):
                            tx = norm_text(x)
                            if isinstance(x, ast.Subscript) and 'transform' in tx:
                                texts[tx] = nominal + d
                            if isinstance(x, ast.IfExp):
                                texts[tx] = nominal
                        got = bool(_npred(st.test, env, texts))
                        if got != (d != 0):
                            bad = ('transform entry %r (nominal %d)' % (nominal + d, nominal), got)
                            break
                    if bad:
                        break
            else:
                for b_, w_ in ((0.0, 0.0), (1e-12, 0.0), (0.0, 3e-10), (-2e-9, 1e-9), (0.1, 0.0)):
                    texts = {}
                    for x in ast.walk(st.test):
                        tx = norm_text(x)
                        if isinstance(x, ast.Subscript) and tx.startswith('self.bias_walk['):
                            texts[tx] = w_
                        elif isinstance(x, ast.Subscript) and tx.startswith('self.bias['):
                            texts[tx] = b_
                    got = bool(_npred(st.test, {}, texts))
                    if got != (b_ != 0 or w_ != 0):
                        bad = ('bias %r, bias walk %r' % (b_, w_), got)
                        break
        except _Undecided as e:
            raise AnalysisError('Parameters.apply: column condition `%s` not evaluable (%s)'
                                % (norm_text(st.test)[:60], e))
        n += 1
        ctx.ob('SM-TABLE', bad is None, None, "column '%s…' is written iff `%s`"
               % (tpl, norm_text(st.test)[:60]), f=ap, node=st, key='col-' + kind,
               why="the '%s…' column is %s for %s (`%s`): the parameter is applied to the readings "
                   "but the table no longer names it, so it does not match the estimator's state "
                   "list" % (tpl, 'written' if bad and bad[1] else 'not written',
                             bad[0] if bad else '', norm_text(st.test)[:60]))
    if n < 2:
        # another spelling of the table part (no `if <condition>: data_frame[f'...'] = ...`):
        # SM-PARAMS, which is registered wherever this rule is, executes the table part with
        # infinitesimal deviations and decides the same question
        ctx.info('SM-TABLE', '%d column conditions of the expected form; the table part is decided '
                             'by SM-PARAMS' % n)


def sm_first_dt(ctx):
    """The first sample of Parameters.apply: the vector of sampling intervals starts with 0 (no
    time has passed: the bias walk has not moved yet), and before any use that divides by the
    interval (white noise of a rate sensor scales with dt ** -0.5) element 0 is overwritten with
    a later, positive interval - otherwise the first reading is inf / NaN."""
    ctx.rule('SM-FIRST-DT', 'Parameters.apply: the interval vector starts with 0 for the bias walk '
             'and its first element is replaced by a later interval before any negative power of '
             'the interval is taken')
    pm = ctx.repo.klass('inertial_sensor.Parameters')
    ap = pm.methods['apply']
    ctx.touch(ap)
    res = lambda n: ap.module.resolve(n, ap.local_names())
    body = ap.node.body
    # the interval vector: the local built from np.diff(readings.index)
    dts = [st for st in body if isinstance(st, ast.Assign) and isinstance(st.targets[0], ast.Name)
           and any(isinstance(c, ast.Call) and res(c.func) == 'numpy.diff'
                   for c in ast.walk(st.value))]
    ctx.need(len(dts) == 1, 'Parameters.apply: interval vector not identified')
    dname = dts[0].targets[0].id
    hs = [c for c in ast.walk(dts[0].value) if isinstance(c, ast.Call) and
          res(c.func) in ('numpy.hstack', 'numpy.concatenate', 'numpy.r_', 'numpy.append',
                          'numpy.insert')]
    first = None
    if hs and hs[0].args and isinstance(hs[0].args[0], (ast.List, ast.Tuple)) and \
            hs[0].args[0].elts:
        e0 = hs[0].args[0].elts[0]
        if isinstance(e0, ast.Constant):
            first = e0.value
        elif isinstance(e0, (ast.List, ast.Tuple)) and e0.elts and \
                isinstance(e0.elts[0], ast.Constant):
            first = e0.elts[0].value
    ctx.need(first is not None, 'Parameters.apply: first element of the interval vector not '
             'recognised in `%s`' % norm_text(dts[0].value)[:60])
    ctx.ob('SM-FIRST-DT', first == 0, None, 'interval vector starts with 0', f=ap, node=dts[0],
           key='first-zero',
           why='the interval attributed to the first sample is %r, not 0: the simulated bias walk '
               'has already moved at the first sample (its variance is offset from the one the '
               'estimator assumes)' % first)

    def is_fix(st):
        if not (isinstance(st, ast.Assign) and isinstance(st.targets[0], ast.Subscript) and
                norm_text(st.targets[0].value) == dname):
            return False
        ti = st.targets[0].slice
        t0 = ti.elts[0] if isinstance(ti, ast.Tuple) else ti
        if not (isinstance(t0, ast.Constant) and t0.value == 0):
            return False
        v = st.value
        if not (isinstance(v, ast.Subscript) and norm_text(v.value) == dname):
            return False
        vi = v.slice
        v0 = vi.elts[0] if isinstance(vi, ast.Tuple) else vi
        return isinstance(v0, ast.Constant) and isinstance(v0.value, int) and v0.value >= 1
    fixes = [i for i, st in enumerate(body) if is_fix(st)]

    def neg_uses(st):
        out = []
        for n in ast.walk(st):
            if isinstance(n, ast.BinOp) and isinstance(n.op, ast.Pow) and \
                    norm_text(n.left) == dname:
                try:
                    p_ = ctx.repo.fold(n.right, ap.module)
                except ValueError:
                    p_ = None
                if isinstance(p_, (int, float)) and p_ < 0:
                    out.append(n)
            if isinstance(n, ast.BinOp) and isinstance(n.op, ast.Div) and \
                    any(isinstance(x, ast.Name) and x.id == dname for x in ast.walk(n.right)):
                out.append(n)
        return out
    uses = [(i, u) for i, st in enumerate(body) for u in neg_uses(st)]
    ctx.floor('SM-FIRST-DT', len(uses), 1, 'uses that divide by the interval')
    for i, u in uses:
        ok = any(j < i for j in fixes)
        ctx.ob('SM-FIRST-DT', ok, None, '`%s` is taken after the first interval was replaced'
               % norm_text(u)[:40], f=ap, node=u, key='neg-' + norm_text(u)[:30],
               why='`%s` divides by the interval vector while its first element is still the 0 of '
                   'the first sample (no statement `%s[0, ...] = %s[k, ...]`, k >= 1, precedes '
                   'it): the first reading becomes inf / NaN' % (norm_text(u)[:50], dname, dname))
    # the walk is accumulated BEFORE the replacement (its first step has zero length)
    walk = [i for i, st in enumerate(body) if any(
        isinstance(c, ast.Call) and res(c.func) == 'numpy.cumsum' for c in ast.walk(st)) and
        any(isinstance(x, ast.Name) and x.id == dname for x in ast.walk(st))]
    if walk and fixes:
        ctx.ob('SM-FIRST-DT', walk[0] < fixes[0], None, 'the bias walk is accumulated with the '
               'zero first interval', f=ap, node=body[walk[0]], key='walk-before',
               why='the bias walk is accumulated after the first interval was replaced by a '
                   'positive one: it has already moved at the first sample')
